(* Every reference of a generated module resolves -- for EVERY grammar whose leaf names are rules of
   the grammar or token kinds the call maker knows: each `self.n()` the generator model emits names
   a method it also emits (a rule of the grammar, or a helper rule it queued) or a primitive of the
   runtime, and every expect() argument is a quoted literal.  So the hypothesis [refs_ok] of
   C13_every_reference_resolves holds of everything the generator produces for such grammars. *)
From Coq Require Import List String Ascii NArith ZArith Bool Arith Lia.
From Pegen Require Import Base.StrUtil Base.Values Grammar.Ast Grammar.Induction Grammar.Printer Analysis.Visitor Analysis.Nullable
  Runtime.Tokenizer Sem.Peg Gen.Gen Runtime.Exec Proofs.ExecRefs.
Import ListNotations.
Open Scope string_scope.

(* token kinds the call maker turns into a primitive or an expect() *)
Definition is_tok (n : string) : bool := String.eqb n "SOFT_KEYWORD" || mem_str n TOKS1 || mem_str n TOKS2.

Section Leafs.
Variable ok : string -> bool.
Fixpoint leafs_item (i : item) : bool :=
  match i with
  | NameLeaf n => ok n
  | StringLeaf _ | Cut => true
  | Group r | RhsItem r => leafs_rhs r
  | Opt j | Repeat0 _ j | Repeat1 _ j | PosLook j | NegLook j | Forced j => leafs_item j
  | Gather _ s e => leafs_item s && leafs_item e
  end
with leafs_rhs (r : rhs) : bool :=
  match r with Rhs _ alts => (fix go (l : list alt) := match l with [] => true | a :: l' => leafs_alt a && go l' end) alts end
with leafs_alt (a : alt) : bool :=
  match a with Alt items _ =>
    (fix go (l : list nitem) := match l with [] => true | n :: l' => (match n with NItem _ _ _ i => leafs_item i end) && go l' end) items
  end.
Definition leafs_nitem (n : nitem) : bool := match n with NItem _ _ _ i => leafs_item i end.
Definition leafs_rule (r : rule) : bool := leafs_rhs (rrhs r).

Lemma leafs_rhs_forall id alts : leafs_rhs (Rhs id alts) = forallb leafs_alt alts.
Proof. cbn [leafs_rhs]. induction alts as [|a l IH]; [reflexivity|]. cbn [forallb]. rewrite <- IH. reflexivity. Qed.
Lemma leafs_alt_forall items act : leafs_alt (Alt items act) = forallb leafs_nitem items.
Proof. cbn [leafs_alt]. induction items as [|n l IH]; [reflexivity|]. cbn [forallb]. rewrite <- IH. destruct n; reflexivity. Qed.
End Leafs.

Definition okN (N : list string) (n : string) : bool := mem_str n N || is_tok n.

Lemma mem_str_incl n (N N' : list string) : incl N N' -> mem_str n N = true -> mem_str n N' = true.
Proof.
  intros Hi H. unfold mem_str in *. apply existsb_exists in H as (x & Hx & E). apply existsb_exists. exists x. split; [apply Hi; exact Hx|exact E].
Qed.
Lemma okN_incl N N' n : incl N N' -> okN N n = true -> okN N' n = true.
Proof. unfold okN. intros Hi H. apply orb_true_iff in H as [H|H]; apply orb_true_iff; [left; eapply mem_str_incl; eauto|right; exact H]. Qed.

Lemma leafs_mono N N' : incl N N' ->
  (forall i, leafs_item (okN N) i = true -> leafs_item (okN N') i = true) /\
  (forall r, leafs_rhs (okN N) r = true -> leafs_rhs (okN N') r = true) /\
  (forall a, leafs_alt (okN N) a = true -> leafs_alt (okN N') a = true) /\
  (forall n, leafs_nitem (okN N) n = true -> leafs_nitem (okN N') n = true).
Proof.
  intros Hi. apply grammar_ast_ind; try (cbn; auto; fail).
  - intros n H. cbn in *. eapply okN_incl; eauto.
  - intros id s e Hs He H. cbn in *. apply andb_prop in H as [H1 H2]. rewrite (Hs H1), (He H2). reflexivity.
  - intros id alts Hf H. rewrite leafs_rhs_forall in *. rewrite forallb_forall in *. intros a Ha.
    rewrite Forall_forall in Hf. apply (Hf a Ha). apply H. exact Ha.
  - intros items act Hf H. rewrite leafs_alt_forall in *. rewrite forallb_forall in *. intros n Hn.
    rewrite Forall_forall in Hf. apply (Hf n Hn). apply H. exact Hn.
Qed.

(* ---- goodness of calls, invariant of the generator state ---- *)
Definition prim_name (n : string) : bool :=
  mem_str n ["name"; "number"; "string"; "op"; "type_comment"; "soft_keyword"; "fstring_start"; "fstring_middle"; "fstring_end"].
Definition quoted (raw : string) : bool :=
  match raw with String c _ => Ascii.eqb c "'"%char || Ascii.eqb c """"%char | EmptyString => false end.

Fixpoint call_good (N : list string) (c : call) : bool :=
  match c with
  | CMeth n => mem_str n N || prim_name n
  | CExpect a => quoted a
  | CComma c' | CForced c' _ | CLook _ _ _ c' => call_good N c'
  | CTrue => true
  end.

Lemma call_good_incl N N' c : incl N N' -> call_good N c = true -> call_good N' c = true.
Proof.
  intros Hi. induction c; cbn; auto. intros H. apply orb_true_iff in H as [H|H]; apply orb_true_iff; [left; eapply mem_str_incl; eauto|right; exact H].
Qed.

(* string leaves carry their quotes (what the reader builds) *)
Fixpoint strs_item (i : item) : bool :=
  match i with
  | StringLeaf raw => quoted raw
  | NameLeaf _ | Cut => true
  | Group r | RhsItem r => strs_rhs r
  | Opt j | Repeat0 _ j | Repeat1 _ j | PosLook j | NegLook j | Forced j => strs_item j
  | Gather _ s e => strs_item s && strs_item e
  end
with strs_rhs (r : rhs) : bool :=
  match r with Rhs _ alts => (fix go (l : list alt) := match l with [] => true | a :: l' => strs_alt a && go l' end) alts end
with strs_alt (a : alt) : bool :=
  match a with Alt items _ =>
    (fix go (l : list nitem) := match l with [] => true | n :: l' => (match n with NItem _ _ _ i => strs_item i end) && go l' end) items
  end.

Definition strs_nitem (n : nitem) : bool := match n with NItem _ _ _ i => strs_item i end.
Lemma strs_rhs_forall id alts : strs_rhs (Rhs id alts) = forallb strs_alt alts.
Proof. cbn [strs_rhs]. induction alts as [|a l IH]; [reflexivity|]. cbn [forallb]. rewrite <- IH. reflexivity. Qed.
Lemma strs_alt_forall items act : strs_alt (Alt items act) = forallb strs_nitem items.
Proof. cbn [strs_alt]. induction items as [|n l IH]; [reflexivity|]. cbn [forallb]. rewrite <- IH. destruct n; reflexivity. Qed.

Definition item_ok (N : list string) (i : item) : bool := leafs_item (okN N) i && strs_item i.
Definition rhs_ok (N : list string) (r : rhs) : bool := leafs_rhs (okN N) r && strs_rhs r.

Lemma item_ok_incl N N' i : incl N N' -> item_ok N i = true -> item_ok N' i = true.
Proof. unfold item_ok. intros Hi H. apply andb_prop in H as [H1 H2]. rewrite (proj1 (leafs_mono N N' Hi) i H1), H2. reflexivity. Qed.
Lemma rhs_ok_incl N N' r : incl N N' -> rhs_ok N r = true -> rhs_ok N' r = true.
Proof. unfold rhs_ok. intros Hi H. apply andb_prop in H as [H1 H2]. rewrite (proj1 (proj2 (leafs_mono N N' Hi)) r H1), H2. reflexivity. Qed.

Definition todo_ok (N : list string) (r : rule) : Prop := mem_str (rname r) N = true /\ rhs_ok N (rrhs r) = true.
Definition GInv (N : list string) (st : gst) : Prop :=
  Forall (todo_ok N) (g_todo st) /\ Forall (fun kv => call_good N (snd (snd kv)) = true) (g_cache st).

Lemma GInv_incl N N' st : incl N N' -> GInv N st -> GInv N' st.
Proof.
  intros Hi (H1 & H2). split.
  - eapply Forall_impl; [|exact H1]. intros r (A & B). split; [eapply mem_str_incl; eauto|eapply rhs_ok_incl; eauto].
  - eapply Forall_impl; [|exact H2]. intros kv A. eapply call_good_incl; eauto.
Qed.

(* N' extends N by names that are queued in st' ; the queue only grows *)
Definition gext (N : list string) (st : gst) (N' : list string) (st' : gst) : Prop :=
  incl N N' /\ (forall n, In n N' -> In n N \/ In n (map rname (g_todo st'))) /\ incl (g_todo st) (g_todo st').

Lemma gext_refl N st : gext N st N st.
Proof. split; [apply incl_refl|]. split; [intros n H; left; exact H|apply incl_refl]. Qed.
Lemma gext_trans N st N1 st1 N2 st2 : gext N st N1 st1 -> gext N1 st1 N2 st2 -> gext N st N2 st2.
Proof.
  intros (A1 & B1 & C1) (A2 & B2 & C2). split; [eapply incl_tran; eauto|]. split; [|eapply incl_tran; eauto].
  intros n H. destruct (B2 n H) as [H1|H1]; [|right; exact H1]. destruct (B1 n H1) as [H0|H0]; [left; exact H0|right].
  apply in_map_iff in H0 as (r & E & Hr). apply in_map_iff. exists r. split; [exact E|apply C2; exact Hr].
Qed.

Lemma gbind_inv {A B} (m : GM A) (k : A -> GM B) st x st' :
  gbind m k st = (inl x, st') -> exists y st1, m st = (inl y, st1) /\ k y st1 = (inl x, st').
Proof. unfold gbind. destruct (m st) as [[y|e] st1]; [intros H; exists y, st1; auto|discriminate]. Qed.

(* ---- the call maker ---- *)
Lemma mem_str_In n (N : list string) : mem_str n N = true <-> In n N.
Proof.
  unfold mem_str. rewrite existsb_exists. split.
  - intros (x & Hx & E). apply String.eqb_eq in E. subst. exact Hx.
  - intros H. exists n. split; [exact H|apply String.eqb_refl].
Qed.

Lemma quoted_py_repr n : quoted (py_repr n) = true.
Proof. unfold py_repr. destruct (_ && _); reflexivity. Qed.

Lemma lower_toks1 n : mem_str n TOKS1 = true -> prim_name (lower n) = true.
Proof.
  unfold TOKS1, mem_str. cbn [existsb]. intros H.
  repeat (apply orb_true_iff in H as [H|H]; [apply String.eqb_eq in H; subst; reflexivity|]). discriminate.
Qed.

(* state effects of the primitive actions *)
Ltac inv_prim H := injection H as <- <-.

Definition same_tc (st st' : gst) : Prop := g_todo st' = g_todo st /\ g_cache st' = g_cache st.

Lemma GInv_same N st st' : same_tc st st' -> GInv N st -> GInv N st'.
Proof. intros (A & B) (H1 & H2). split; [rewrite A; exact H1|rewrite B; exact H2]. Qed.
Lemma gext_same N st st' : same_tc st st' -> gext N st N st'.
Proof. intros (A & _). split; [apply incl_refl|]. split; [intros n H; left; exact H|rewrite A; apply incl_refl]. Qed.

(* adding a helper rule with a new name *)
Lemma add_todo_good N st r : GInv N st -> rhs_ok (rname r :: N) (rrhs r) = true ->
  let st' := snd (add_todo r st) in
  GInv (rname r :: N) st' /\ gext N st (rname r :: N) st'.
Proof.
  intros (H1 & H2) Hr. cbn. assert (Hi : incl N (rname r :: N)) by (intros x Hx; right; exact Hx).
  split; [split|].
  - cbn. apply Forall_app. split.
    + eapply Forall_impl; [|exact H1]. intros r0 (A & B). split; [eapply mem_str_incl; eauto|eapply rhs_ok_incl; eauto].
    + constructor; [|constructor]. split; [apply mem_str_In; left; reflexivity|exact Hr].
  - cbn. eapply Forall_impl; [|exact H2]. intros kv A. eapply call_good_incl; eauto.
  - split; [exact Hi|]. split.
    + intros n [<-|Hn]; [right|left; exact Hn]. cbn. rewrite map_app. apply in_or_app. right. left. reflexivity.
    + cbn. intros x Hx. apply in_or_app. left. exact Hx.
Qed.

Lemma cache_put_good N st id v : GInv N st -> call_good N (snd v) = true -> GInv N (snd (cache_put id v st)).
Proof. intros (H1 & H2) Hv. split; [exact H1|]. cbn. constructor; [exact Hv|exact H2]. Qed.

Lemma cache_get_good N st id v : GInv N st -> assocN id (g_cache st) = Some v -> call_good N (snd v) = true.
Proof.
  intros (_ & H2). induction (g_cache st) as [|[k w] l IH]; cbn; [discriminate|].
  inversion H2 as [|? ? Hw Hl]; subst. destruct (N.eqb id k); [intros [= <-]; exact Hw|apply IH; exact Hl].
Qed.

Lemma gext_pre_same N st s N' st' : same_tc st s -> gext N s N' st' -> gext N st N' st'.
Proof. intros (A & _) (H1 & H2 & H3). split; [exact H1|]. split; [exact H2|]. rewrite <- A. exact H3. Qed.

Lemma next_counter_spec st y s : next_counter st = (inl y, s) -> same_tc st s.
Proof. unfold next_counter. intros [= <- <-]. split; reflexivity. Qed.
Lemma fresh_id_spec st y s : fresh_id st = (inl y, s) -> same_tc st s.
Proof. unfold fresh_id. intros [= <- <-]. split; reflexivity. Qed.
Lemma add_keyword_spec h w st y s : add_keyword h w st = (inl y, s) -> same_tc st s.
Proof. unfold add_keyword. intros [= <- <-]. split; reflexivity. Qed.
Lemma cache_get_spec id st y s : cache_get id st = (inl y, s) -> s = st /\ y = assocN id (g_cache st).
Proof. unfold cache_get. intros [= <- <-]. split; reflexivity. Qed.
Lemma add_todo_spec r st y s : add_todo r st = (inl y, s) -> s = snd (add_todo r st).
Proof. intros H. rewrite H. reflexivity. Qed.
Lemma cache_put_spec id v st y s : cache_put id v st = (inl y, s) -> s = snd (cache_put id v st).
Proof. intros H. rewrite H. reflexivity. Qed.
Lemma gret_spec {A} (x : A) st y s : gret x st = (inl y, s) -> y = x /\ s = st.
Proof. unfold gret. intros [= <- <-]. split; reflexivity. Qed.

Definition cm_post (N : list string) (st : gst) (nc : option string * call) (N' : list string) (st' : gst) : Prop :=
  gext N st N' st' /\ GInv N' st' /\ call_good N' (snd nc) = true.

Lemma cm_post_here N st nc : GInv N st -> call_good N (snd nc) = true -> cm_post N st nc N st.
Proof. intros H1 H2. split; [apply gext_refl|]. split; assumption. Qed.

Lemma cm_post_pre N st s nc N' st' : same_tc st s -> cm_post N s nc N' st' -> cm_post N st nc N' st'.
Proof. intros Hs (A & B & C). split; [eapply gext_pre_same; eauto|]. split; assumption. Qed.

Ltac gb H := let y := fresh "y" in let s := fresh "s" in let E := fresh "E" in
  apply gbind_inv in H as (y & s & E & H).

Lemma okN_cons_head n N : okN (n :: N) n = true.
Proof. unfold okN. apply orb_true_iff. left. apply mem_str_In. left. reflexivity. Qed.
Lemma incl_cons_r {A} (x : A) l : incl l (x :: l).
Proof. intros y Hy. right. exact Hy. Qed.

Lemma single_item_rhs_ok N i1 i2 nm j : item_ok N j = true -> rhs_ok N (Rhs i1 [Alt [NItem i2 nm None j] None]) = true.
Proof.
  unfold item_ok, rhs_ok. intros H. apply andb_prop in H as [H1 H2].
  rewrite leafs_rhs_forall, strs_rhs_forall. cbn [forallb]. rewrite leafs_alt_forall, strs_alt_forall. cbn [forallb leafs_nitem strs_nitem].
  rewrite H1, H2. reflexivity.
Qed.

Lemma call_good_head name N : call_good (name :: N) (CMeth name) = true.
Proof. cbn [call_good]. apply orb_true_iff. left. apply mem_str_In. left. reflexivity. Qed.

Lemma cm_good : forall fuel,
  (forall i N st nc st', item_ok N i = true -> GInv N st -> cm_item fuel i st = (inl nc, st') -> exists N', cm_post N st nc N' st') /\
  (forall r N st nc st', rhs_ok N r = true -> GInv N st -> cm_rhs fuel r st = (inl nc, st') -> exists N', cm_post N st nc N' st').
Proof.
  induction fuel as [|f [IHi IHr]]; [split; intros; discriminate|]. split.
  - intros i N st nc st' Hok HI H. destruct i as [n|raw|r|j|id j|id j|id s e|j|j|j| |r]; cbn [cm_item] in H.
    + (* NameLeaf *)
      unfold item_ok in Hok. apply andb_prop in Hok as [Hl _]. cbn in Hl. unfold okN, is_tok in Hl.
      destruct (String.eqb n "SOFT_KEYWORD") eqn:E1.
      { apply gret_spec in H as (-> & ->). exists N. apply cm_post_here; [exact HI|]. cbn [call_good snd]. apply orb_true_iff. right. reflexivity. }
      destruct (mem_str n TOKS1) eqn:E2.
      { apply gret_spec in H as (-> & ->). exists N. apply cm_post_here; [exact HI|]. cbn [call_good snd]. rewrite (lower_toks1 _ E2). apply orb_true_r. }
      destruct (mem_str n TOKS2) eqn:E3.
      { apply gret_spec in H as (-> & ->). exists N. apply cm_post_here; [exact HI|]. cbn [call_good snd]. apply quoted_py_repr. }
      apply gret_spec in H as (-> & ->). exists N. apply cm_post_here; [exact HI|]. cbn [call_good snd].
      cbn [orb] in Hl. rewrite orb_false_r in Hl. rewrite Hl. reflexivity.
    + (* StringLeaf *)
      unfold item_ok in Hok. apply andb_prop in Hok as [_ Hs]. cbn in Hs.
      gb H. apply gret_spec in H as (-> & ->).
      assert (Hsame : same_tc st s) by (destruct (is_identifier _); [eapply add_keyword_spec; eauto|apply gret_spec in E as (_ & ->); split; reflexivity]).
      exists N. apply (cm_post_pre _ _ s); [exact Hsame|]. apply cm_post_here; [eapply GInv_same; eauto|exact Hs].
    + (* Group *) apply (IHr r N st nc st'); auto.
    + (* Opt *)
      gb H. destruct (IHi j N st y s Hok HI E) as (N' & A & B & C). exists N'.
      destruct (endswith "," _); apply gret_spec in H as (-> & ->); (split; [exact A|split; [exact B|exact C]]).
    + (* Repeat0 *)
      gb H. apply cache_get_spec in E as (-> & ->). destruct (assocN id (g_cache st)) as [v|] eqn:EC.
      { apply gret_spec in H as (-> & ->). exists N. apply cm_post_here; [exact HI|eapply cache_get_good; eauto]. }
      gb H. gb H. gb H. gb H. gb H. apply gret_spec in H as (-> & ->).
      pose proof (next_counter_spec _ _ _ E) as S1. pose proof (fresh_id_spec _ _ _ E0) as S2. pose proof (fresh_id_spec _ _ _ E1) as S3.
      apply add_todo_spec in E2. apply cache_put_spec in E3. subst s3 s2.
      set (name := ("_loop0_" ++ nat_to_string y)%string) in *.
      assert (HI1 : GInv N s1) by exact (GInv_same _ _ _ S3 (GInv_same _ _ _ S2 (GInv_same _ _ _ S1 HI))).
      destruct (add_todo_good N s1 (mk_rule name (Rhs y0 [Alt [NItem y1 None None j] None])) HI1) as (B1 & B2).
      { cbn [rname rrhs mk_rule]. apply single_item_rhs_ok. eapply item_ok_incl; [apply incl_cons_r|exact Hok]. }
      cbn [rname mk_rule] in B1, B2. exists (name :: N). split; [|split].
      * eapply gext_pre_same; [exact S1|]. eapply gext_pre_same; [exact S2|]. eapply gext_pre_same; [exact S3|].
        destruct B2 as (X1 & X2 & X3). split; [exact X1|]. split; [exact X2|exact X3].
      * apply cache_put_good; [exact B1|]. cbn [snd call_good]. apply call_good_head.
      * cbn [snd call_good]. apply call_good_head.
    + (* Repeat1 *)
      gb H. apply cache_get_spec in E as (-> & ->). destruct (assocN id (g_cache st)) as [v|] eqn:EC.
      { apply gret_spec in H as (-> & ->). exists N. apply cm_post_here; [exact HI|eapply cache_get_good; eauto]. }
      gb H. gb H. gb H. gb H. gb H. apply gret_spec in H as (-> & ->).
      pose proof (next_counter_spec _ _ _ E) as S1. pose proof (fresh_id_spec _ _ _ E0) as S2. pose proof (fresh_id_spec _ _ _ E1) as S3.
      apply add_todo_spec in E2. apply cache_put_spec in E3. subst s3 s2.
      set (name := ("_loop1_" ++ nat_to_string y)%string) in *.
      assert (HI1 : GInv N s1) by exact (GInv_same _ _ _ S3 (GInv_same _ _ _ S2 (GInv_same _ _ _ S1 HI))).
      destruct (add_todo_good N s1 (mk_rule name (Rhs y0 [Alt [NItem y1 None None j] None])) HI1) as (B1 & B2).
      { cbn [rname rrhs mk_rule]. apply single_item_rhs_ok. eapply item_ok_incl; [apply incl_cons_r|exact Hok]. }
      cbn [rname mk_rule] in B1, B2. exists (name :: N). split; [|split].
      * eapply gext_pre_same; [exact S1|]. eapply gext_pre_same; [exact S2|]. eapply gext_pre_same; [exact S3|].
        destruct B2 as (X1 & X2 & X3). split; [exact X1|]. split; [exact X2|exact X3].
      * apply cache_put_good; [exact B1|]. cbn [snd call_good]. apply call_good_head.
      * cbn [snd call_good]. apply call_good_head.
    + (* Gather *)
      assert (Hs : item_ok N s = true /\ item_ok N e = true).
      { unfold item_ok in *. apply andb_prop in Hok as [A B]. cbn in A, B. apply andb_prop in A as [A1 A2]. apply andb_prop in B as [B1 B2].
        rewrite A1, A2, B1, B2. split; reflexivity. }
      destruct Hs as [Hs He].
      gb H. apply cache_get_spec in E as (-> & ->). destruct (assocN id (g_cache st)) as [v|] eqn:EC.
      { apply gret_spec in H as (-> & ->). exists N. apply cm_post_here; [exact HI|eapply cache_get_good; eauto]. }
      gb H. gb H. gb H. gb H. gb H. gb H. gb H. gb H. gb H. gb H. gb H. apply gret_spec in H as (-> & ->).
      pose proof (next_counter_spec _ _ _ E) as S1. pose proof (next_counter_spec _ _ _ E0) as S2.
      pose proof (fresh_id_spec _ _ _ E1) as S3. pose proof (fresh_id_spec _ _ _ E2) as S4. pose proof (fresh_id_spec _ _ _ E3) as S5.
      pose proof (fresh_id_spec _ _ _ E4) as S6. pose proof (fresh_id_spec _ _ _ E5) as S7. pose proof (fresh_id_spec _ _ _ E6) as S8.
      apply add_todo_spec in E7. apply add_todo_spec in E8. apply cache_put_spec in E9. subst s10 s9 s8.
      set (name := ("_gather_" ++ nat_to_string y)%string) in *. set (extra := ("_loop0_" ++ nat_to_string y0)%string) in *.
      assert (HI1 : GInv N s7).
      { exact (GInv_same _ _ _ S8 (GInv_same _ _ _ S7 (GInv_same _ _ _ S6 (GInv_same _ _ _ S5 (GInv_same _ _ _ S4
               (GInv_same _ _ _ S3 (GInv_same _ _ _ S2 (GInv_same _ _ _ S1 HI)))))))). }
      set (r1 := mk_rule extra (Rhs y1 [Alt [NItem y2 None None s; NItem y3 (Some "elem") None e]
                                   (Some {| atext := "elem"; aused := ["elem"]; aparses := true |})])) in *.
      destruct (add_todo_good N s7 r1 HI1) as (B1 & B2).
      { cbn [rname rrhs mk_rule r1]. unfold rhs_ok. rewrite leafs_rhs_forall, strs_rhs_forall. cbn [forallb].
        rewrite leafs_alt_forall, strs_alt_forall. cbn [forallb leafs_nitem strs_nitem].
        pose proof (item_ok_incl N (extra :: N) s (incl_cons_r _ _) Hs) as Hs'. pose proof (item_ok_incl N (extra :: N) e (incl_cons_r _ _) He) as He'.
        unfold item_ok in Hs', He'. apply andb_prop in Hs' as [X1 X2]. apply andb_prop in He' as [X3 X4]. rewrite X1, X2, X3, X4. reflexivity. }
      cbn [rname mk_rule r1] in B1, B2.
      set (r2 := mk_rule name (Rhs y4 [Alt [NItem y5 (Some "elem") None e; NItem y6 (Some "seq") None (NameLeaf extra)] None])) in *.
      destruct (add_todo_good (extra :: N) _ r2 B1) as (C1 & C2).
      { cbn [rname rrhs mk_rule r2]. unfold rhs_ok. rewrite leafs_rhs_forall, strs_rhs_forall. cbn [forallb].
        rewrite leafs_alt_forall, strs_alt_forall. cbn [forallb leafs_nitem strs_nitem leafs_item strs_item].
        assert (Hi2 : incl N (name :: extra :: N)) by (intros x Hx; right; right; exact Hx).
        pose proof (item_ok_incl N _ e Hi2 He) as He'. unfold item_ok in He'. apply andb_prop in He' as [X3 X4]. rewrite X3, X4.
        assert (X5 : okN (name :: extra :: N) extra = true).
        { unfold okN. apply orb_true_iff. left. apply mem_str_In. right. left. reflexivity. }
        rewrite X5. reflexivity. }
      cbn [rname mk_rule r2] in C1, C2.
      exists (name :: extra :: N). split; [|split].
      * eapply gext_pre_same; [exact S1|]. eapply gext_pre_same; [exact S2|]. eapply gext_pre_same; [exact S3|].
        eapply gext_pre_same; [exact S4|]. eapply gext_pre_same; [exact S5|]. eapply gext_pre_same; [exact S6|].
        eapply gext_pre_same; [exact S7|]. eapply gext_pre_same; [exact S8|].
        pose proof (gext_trans _ _ _ _ _ _ B2 C2) as (X1 & X2 & X3). split; [exact X1|]. split; [exact X2|exact X3].
      * apply cache_put_good; [exact C1|]. cbn [snd]. apply call_good_head.
      * cbn [snd]. apply call_good_head.
    + (* PosLook *)
      gb H. destruct (IHi j N st y s Hok HI E) as (N' & A & B & C).
      destruct (split_call _) as [[hd tl]|err]; [|discriminate]. apply gret_spec in H as (-> & ->).
      exists N'. split; [exact A|split; [exact B|exact C]].
    + (* NegLook *)
      gb H. destruct (IHi j N st y s Hok HI E) as (N' & A & B & C).
      destruct (split_call _) as [[hd tl]|err]; [|discriminate]. apply gret_spec in H as (-> & ->).
      exists N'. split; [exact A|split; [exact B|exact C]].
    + (* Forced *)
      destruct j as [n|raw|r|j|id j|id j|id s e|j|j|j| |r]; try discriminate.
      * gb H. apply gret_spec in H as (-> & ->). destruct (IHi (NameLeaf n) N st y s Hok HI E) as (N' & A & B & C).
        exists N'. split; [exact A|split; [exact B|exact C]].
      * gb H. apply gret_spec in H as (-> & ->). destruct (IHi (StringLeaf raw) N st y s Hok HI E) as (N' & A & B & C).
        exists N'. split; [exact A|split; [exact B|exact C]].
      * gb H. destruct (IHr r N st y s Hok HI E) as (N' & A & B & C).
        destruct (snd y) eqn:Ey; apply gret_spec in H as (-> & ->); exists N'; (split; [exact A|split; [exact B|]]);
          cbn [snd call_good] in *; exact C.
    + (* Cut *) apply gret_spec in H as (-> & ->). exists N. apply cm_post_here; [exact HI|reflexivity].
    + (* RhsItem *) apply (IHr r N st nc st'); auto.
  - intros r N st nc st' Hok HI H. destruct r as [id alts]. cbn [cm_rhs] in H.
    gb H. apply cache_get_spec in E as (-> & ->). destruct (assocN id (g_cache st)) as [v|] eqn:EC.
    { apply gret_spec in H as (-> & ->). exists N. apply cm_post_here; [exact HI|eapply cache_get_good; eauto]. }
    gb H. gb H. apply gret_spec in H as (-> & ->). apply cache_put_spec in E0. subst s0.
    assert (Hv : exists N', gext N st N' s /\ GInv N' s /\ call_good N' (snd y) = true).
    { assert (Hgen : (k <- next_counter ;; let name := ("_tmp_" ++ nat_to_string k)%string in
                       _ <- add_todo (mk_rule name (Rhs id alts)) ;; gret (Some name, CMeth name)) st = (inl y, s) ->
                      exists N', gext N st N' s /\ GInv N' s /\ call_good N' (snd y) = true).
      { intros Hg. apply gbind_inv in Hg as (k & t0 & F0 & Hg). apply gbind_inv in Hg as (u & t1 & F1 & Hg).
        apply gret_spec in Hg as (-> & ->). pose proof (next_counter_spec _ _ _ F0) as S1.
        apply add_todo_spec in F1. subst t1. set (name := ("_tmp_" ++ nat_to_string k)%string) in *.
        destruct (add_todo_good N t0 (mk_rule name (Rhs id alts)) (GInv_same _ _ _ S1 HI)) as (B1 & B2).
        { cbn [rname rrhs mk_rule]. eapply rhs_ok_incl; [apply incl_cons_r|exact Hok]. }
        cbn [rname mk_rule] in B1, B2. exists (name :: N). split; [eapply gext_pre_same; [exact S1|exact B2]|].
        split; [exact B1|]. cbn [snd]. apply call_good_head. }
      destruct alts as [|[[|[i0 nm0 ty0 it0] [|n2 items]] [act|]] [|a2 alts]]; try (exact (Hgen E)).
      (* a single alternative with a single item and no action: the item's own call *)
      apply gbind_inv in E as (w & t0 & F0 & E). apply gret_spec in E as (-> & ->).
      assert (Hit : item_ok N it0 = true).
      { unfold rhs_ok in Hok. unfold item_ok. rewrite leafs_rhs_forall, strs_rhs_forall in Hok. cbn [forallb] in Hok.
        rewrite leafs_alt_forall, strs_alt_forall in Hok. cbn [forallb leafs_nitem strs_nitem] in Hok.
        rewrite !andb_true_r in Hok. exact Hok. }
      destruct (IHi it0 N st w _ Hit HI F0) as (N' & A & B & C). exists N'. split; [exact A|split; [exact B|exact C]]. }
    destruct Hv as (N' & A & B & C). exists N'. split; [|split].
    + destruct A as (X1 & X2 & X3). split; [exact X1|]. split; [exact X2|exact X3].
    + apply cache_put_good; [exact B|exact C].
    + exact C.
Qed.

(* ---- the rule emitter ---- *)
Definition alt_ok (N : list string) (a : alt) : bool := leafs_alt (okN N) a && strs_alt a.
Definition nitem_ok (N : list string) (n : nitem) : bool := item_ok N (ni_item n).

Lemma rhs_ok_alts N id alts : rhs_ok N (Rhs id alts) = true -> forallb (alt_ok N) alts = true.
Proof.
  unfold rhs_ok. rewrite leafs_rhs_forall, strs_rhs_forall. intros H. apply andb_prop in H as [H1 H2].
  rewrite forallb_forall in *. intros a Ha. unfold alt_ok. rewrite (H1 a Ha), (H2 a Ha). reflexivity.
Qed.
Lemma alt_ok_items N items act : alt_ok N (Alt items act) = true -> forallb (nitem_ok N) items = true.
Proof.
  unfold alt_ok. rewrite leafs_alt_forall, strs_alt_forall. intros H. apply andb_prop in H as [H1 H2].
  rewrite forallb_forall in *. intros n Hn. unfold nitem_ok, item_ok. specialize (H1 n Hn). specialize (H2 n Hn).
  destruct n; cbn in *. rewrite H1, H2. reflexivity.
Qed.
Lemma alt_ok_incl N N' a : incl N N' -> alt_ok N a = true -> alt_ok N' a = true.
Proof. unfold alt_ok. intros Hi H. apply andb_prop in H as [H1 H2]. rewrite (proj1 (proj2 (proj2 (leafs_mono N N' Hi))) a H1), H2. reflexivity. Qed.
Lemma nitem_ok_incl N N' n : incl N N' -> nitem_ok N n = true -> nitem_ok N' n = true.
Proof. unfold nitem_ok. apply item_ok_incl. Qed.

Lemma get_locals_spec st y s : get_locals st = (inl y, s) -> s = st.
Proof. unfold get_locals. intros [= _ <-]. reflexivity. Qed.
Lemma set_locals_spec l st y s : set_locals l st = (inl y, s) -> same_tc st s.
Proof. unfold set_locals. intros [= _ <-]. split; reflexivity. Qed.
Lemma dedupe_spec x st y s : dedupe x st = (inl y, s) -> same_tc st s.
Proof.
  unfold dedupe. intros H. apply gbind_inv in H as (l & t0 & F0 & H). apply get_locals_spec in F0. subst t0.
  apply gbind_inv in H as (u & t1 & F1 & H). apply set_locals_spec in F1. apply gret_spec in H as (_ & ->). exact F1.
Qed.

Section EmitSec.
Variable invalid_tbl : list (string * bexp).
Variable iter_fields : list (string * list string).
Variable rs0 : list rule.
Variable nullable_rules left_rec leaders : list string.
Variable item_flag : N -> bool.

Lemma emit_item_good n used unreachable is_gather N st c st' :
  nitem_ok N n = true -> GInv N st -> emit_item n used unreachable is_gather st = (inl c, st') ->
  exists N', gext N st N' st' /\ GInv N' st' /\ call_good N' (cj_call c) = true.
Proof.
  intros Hok HI H. unfold emit_item in H. apply gbind_inv in H as (nc & t0 & F0 & H).
  destruct (proj1 (cm_good _) _ _ _ _ _ Hok HI F0) as (N' & A & B & C).
  match type of H with (match ?nm with _ => _ end) _ = _ => destruct nm as [x|] end.
  - destruct (String.eqb x ""); [apply gret_spec in H as (-> & ->); exists N'; auto|].
    destruct (String.eqb x "cut"); [apply gret_spec in H as (-> & ->); exists N'; auto|].
    apply gbind_inv in H as (x' & t1 & F1 & H). apply gret_spec in H as (-> & ->). pose proof (dedupe_spec _ _ _ _ F1) as S1.
    exists N'. split; [|split; [eapply GInv_same; eauto|exact C]].
    destruct A as (X1 & X2 & X3). destruct S1 as (T1 & T2). split; [exact X1|]. split; rewrite T1; assumption.
  - apply gret_spec in H as (-> & ->). exists N'. auto.
Qed.

Definition conjs_good (N : list string) (cs : list conj) : bool := forallb (fun c => call_good N (cj_call c)) cs.
Lemma conjs_good_incl N N' cs : incl N N' -> conjs_good N cs = true -> conjs_good N' cs = true.
Proof. unfold conjs_good. intros Hi H. rewrite forallb_forall in *. intros c Hc. eapply call_good_incl; eauto. Qed.

Lemma emit_items_good used unreachable is_gather : forall l N st cs st',
  forallb (nitem_ok N) l = true -> GInv N st -> emit_items l used unreachable is_gather st = (inl cs, st') ->
  exists N', gext N st N' st' /\ GInv N' st' /\ conjs_good N' cs = true.
Proof.
  induction l as [|n l IH]; intros N st cs st' Hok HI H; cbn [emit_items] in H.
  - apply gret_spec in H as (-> & ->). exists N. split; [apply gext_refl|split; [exact HI|reflexivity]].
  - cbn [forallb] in Hok. apply andb_prop in Hok as [Hn Hl].
    apply gbind_inv in H as (c & t0 & F0 & H). apply gbind_inv in H as (cs0 & t1 & F1 & H). apply gret_spec in H as (-> & ->).
    destruct (emit_item_good _ _ _ _ _ _ _ _ Hn HI F0) as (N1 & A1 & B1 & C1).
    assert (Hl1 : forallb (nitem_ok N1) l = true).
    { rewrite forallb_forall in *. intros x Hx. eapply nitem_ok_incl; [exact (proj1 A1)|]. apply Hl. exact Hx. }
    destruct (IH _ _ _ _ Hl1 B1 F1) as (N2 & A2 & B2 & C2). exists N2. split; [eapply gext_trans; eauto|]. split; [exact B2|].
    unfold conjs_good in *. cbn [forallb]. rewrite (call_good_incl _ _ _ (proj1 A2) C1), C2. reflexivity.
Qed.

Definition alt_good (N : list string) (a : ialt) : bool := conjs_good N (a_conjs a).
Definition meth_good (N : list string) (m : meth) : bool := forallb (alt_good N) (m_alts m).

Lemma emit_alt_good a is_loop is_gather N st x st' :
  alt_ok N a = true -> GInv N st -> emit_alt invalid_tbl iter_fields a is_loop is_gather st = (inl x, st') ->
  exists N', gext N st N' st' /\ GInv N' st' /\ alt_good N' x = true.
Proof.
  intros Hok HI H. unfold emit_alt in H. destruct a as [items act]. cbn [alt_items alt_action] in H.
  apply gbind_inv in H as (u0 & t0 & F0 & H).
  assert (S0 : t0 = st).
  { match type of F0 with (match ?o with _ => _ end) _ = _ => destruct o as [ac|] end;
      [destruct (aparses ac); [apply gret_spec in F0 as (_ & ->); reflexivity|discriminate]|apply gret_spec in F0 as (_ & ->); reflexivity]. }
  subst t0.
  apply gbind_inv in H as (u1 & t1 & F1 & H). pose proof (set_locals_spec _ _ _ _ F1) as S1.
  apply gbind_inv in H as (conjs & t2 & F2 & H).
  destruct (emit_items_good _ _ _ _ _ _ _ _ (alt_ok_items _ _ _ Hok) (GInv_same _ _ _ S1 HI) F2) as (N' & A & B & C).
  apply gbind_inv in H as (locals & t3 & F3 & H). apply get_locals_spec in F3. subst t3.
  apply gbind_inv in H as (final & t4 & F4 & H). apply gret_spec in H as (-> & ->).
  assert (S4 : t4 = t2).
  { repeat match type of F4 with
           | (match ?o with _ => _ end) _ = _ => destruct o
           | (if ?b then _ else _) _ = _ => destruct b
           | gret _ _ = _ => apply gret_spec in F4 as (_ & ->); reflexivity
           | gfail _ _ = _ => discriminate
           end. }
  subst t4. exists N'. split; [eapply gext_pre_same; eauto|]. split; [exact B|exact C].
Qed.

Lemma emit_alts_good is_loop is_gather : forall l N st xs st',
  forallb (alt_ok N) l = true -> GInv N st -> emit_alts invalid_tbl iter_fields l is_loop is_gather st = (inl xs, st') ->
  exists N', gext N st N' st' /\ GInv N' st' /\ forallb (alt_good N') xs = true.
Proof.
  induction l as [|a l IH]; intros N st xs st' Hok HI H; cbn [emit_alts] in H.
  - apply gret_spec in H as (-> & ->). exists N. split; [apply gext_refl|split; [exact HI|reflexivity]].
  - cbn [forallb] in Hok. apply andb_prop in Hok as [Ha Hl].
    apply gbind_inv in H as (x & t0 & F0 & H). apply gbind_inv in H as (xs0 & t1 & F1 & H). apply gret_spec in H as (-> & ->).
    destruct (emit_alt_good _ _ _ _ _ _ _ Ha HI F0) as (N1 & A1 & B1 & C1).
    assert (Hl1 : forallb (alt_ok N1) l = true).
    { rewrite forallb_forall in *. intros y Hy. eapply alt_ok_incl; [exact (proj1 A1)|]. apply Hl. exact Hy. }
    destruct (IH _ _ _ _ Hl1 B1 F1) as (N2 & A2 & B2 & C2). exists N2. split; [eapply gext_trans; eauto|]. split; [exact B2|].
    cbn [forallb]. unfold alt_good in *. rewrite (conjs_good_incl _ _ _ (proj1 A2) C1), C2. reflexivity.
Qed.
End EmitSec.

Section EmitAll.
Variable invalid_tbl : list (string * bexp).
Variable iter_fields : list (string * list string).
Variable rs0 : list rule.
Variable nullable_rules left_rec leaders : list string.
Variable item_flag : N -> bool.

Lemma flatten_ok N r : rhs_ok N (rrhs r) = true -> rhs_ok N (flatten r) = true.
Proof.
  intros H. unfold flatten. destruct (is_loop_name (rname r)); [exact H|].
  destruct (rrhs r) as [id alts]. destruct alts as [|[[|[i0 nm0 ty0 it0] [|n2 items]] [act|]] [|a2 alts]]; try exact H;
    destruct it0; try exact H.
  unfold rhs_ok in *. rewrite leafs_rhs_forall, strs_rhs_forall in H. cbn [forallb] in H.
  rewrite leafs_alt_forall, strs_alt_forall in H. cbn [forallb leafs_nitem strs_nitem leafs_item strs_item] in H.
  rewrite !andb_true_r in H. exact H.
Qed.

Lemma emit_rule_good r N st m st' : todo_ok N r -> GInv N st ->
  emit_rule invalid_tbl iter_fields rs0 nullable_rules left_rec leaders item_flag r st = (inl m, st') ->
  exists N', gext N st N' st' /\ GInv N' st' /\ meth_good N' m = true /\ m_name m = rname r.
Proof.
  intros (Hn & Hr) HI H. unfold emit_rule in H.
  apply gbind_inv in H as (u0 & t0 & F0 & H).
  assert (S0 : t0 = st).
  { destruct (is_loop_name (rname r)); [|apply gret_spec in F0 as (_ & ->); reflexivity].
    destruct (rhs_alts (flatten r)) as [|a [|a2 l]]; try discriminate. apply gret_spec in F0 as (_ & ->). reflexivity. }
  subst t0. apply gbind_inv in H as (alts & t1 & F1 & H). apply gret_spec in H as (-> & ->).
  pose proof (flatten_ok N r Hr) as Hb. destruct (flatten r) as [id body] eqn:EF. cbn [rhs_alts] in F1.
  destruct (emit_alts_good _ _ _ _ _ _ _ _ _ (rhs_ok_alts _ _ _ Hb) HI F1) as (N' & A & B & C).
  exists N'. split; [exact A|]. split; [exact B|]. split; [exact C|reflexivity].
Qed.

Lemma pop_todo_spec st y s : pop_todo st = (inl y, s) ->
  match y with
  | None => g_todo st = [] /\ s = st
  | Some r => g_todo st = r :: g_todo s /\ g_cache s = g_cache st
  end.
Proof. unfold pop_todo. destruct (g_todo st) as [|r rest] eqn:E; intros [= <- <-]; cbn; auto. Qed.

(* E: names of the methods emitted before this call *)
Lemma emit_all_good : forall fuel N E st ms st',
  GInv N st -> (forall n, In n N -> In n E \/ In n (map rname (g_todo st))) ->
  emit_all invalid_tbl iter_fields rs0 nullable_rules left_rec leaders item_flag fuel st = (inl ms, st') ->
  exists N', incl N N' /\ forallb (meth_good N') ms = true /\ (forall n, In n N' -> In n E \/ In n (map m_name ms)).
Proof.
  induction fuel as [|f IH]; intros N E st ms st' HI Hcov H; cbn [emit_all] in H; [discriminate|].
  apply gbind_inv in H as (o & t0 & F0 & H). apply pop_todo_spec in F0. destruct o as [r|].
  - destruct F0 as (Et & Ec).
    apply gbind_inv in H as (m & t1 & F1 & H). apply gbind_inv in H as (ms0 & t2 & F2 & H). apply gret_spec in H as (-> & ->).
    destruct HI as (H1 & H2). rewrite Et in H1. inversion H1 as [|? ? Hr Hrest]; subst.
    assert (HI0 : GInv N t0) by (split; [exact Hrest|rewrite Ec; exact H2]).
    destruct (emit_rule_good r N t0 m t1 Hr HI0 F1) as (N1 & A1 & B1 & C1 & D1).
    assert (Hcov1 : forall n, In n N1 -> In n (rname r :: E) \/ In n (map rname (g_todo t1))).
    { intros n Hn. destruct A1 as (X1 & X2 & X3). destruct (X2 n Hn) as [Hn0|Hn0]; [|right; exact Hn0].
      destruct (Hcov n Hn0) as [HE|HT]; [left; right; exact HE|]. rewrite Et in HT. cbn [map] in HT.
      destruct HT as [<-|HT]; [left; left; reflexivity|]. right. apply in_map_iff in HT as (r0 & E0 & Hr0). apply in_map_iff.
      exists r0. split; [exact E0|apply X3; exact Hr0]. }
    destruct (IH N1 (rname r :: E) t1 ms0 t2 B1 Hcov1 F2) as (N2 & A2 & B2 & C2).
    exists N2. split; [eapply incl_tran; [exact (proj1 A1)|exact A2]|]. split.
    + cbn [forallb]. unfold meth_good in *. rewrite B2, andb_true_r. rewrite forallb_forall in *. intros a Ha.
      unfold alt_good in *. eapply conjs_good_incl; [exact A2|]. apply C1. exact Ha.
    + intros n Hn. destruct (C2 n Hn) as [[<-|HE]|Hm]; [right; left; exact D1|left; exact HE|right; right; exact Hm].
  - destruct F0 as (Et & ->). apply gret_spec in H as (-> & ->). exists N. split; [apply incl_refl|]. split; [reflexivity|].
    intros n Hn. destruct (Hcov n Hn) as [HE|HT]; [left; exact HE|]. rewrite Et in HT. destruct HT.
Qed.
End EmitAll.

(* every rule's leaves are rules of the grammar or known token kinds; string leaves are quoted *)
Definition grammar_names_ok (g : grammar) : bool :=
  forallb (fun r => rhs_ok (map rname (rules g)) (rrhs r)) (rules g).

Lemma find_meth_name (M : ir_module) n : In n (map m_name (i_meths M)) -> is_some (find_meth M n) = true.
Proof.
  unfold find_meth. induction (i_meths M) as [|m l IH]; cbn; [intros []|]. intros [<-|H].
  - rewrite String.eqb_refl. reflexivity.
  - destruct (String.eqb (m_name m) n); [reflexivity|apply IH; exact H].
Qed.

Lemma prim_name_test K M n : prim_name n = true -> is_some (prim_test K M n) = true.
Proof.
  unfold prim_name, mem_str. cbn [existsb]. intros H.
  repeat (apply orb_true_iff in H as [H|H]; [apply String.eqb_eq in H; subst; reflexivity|]). discriminate.
Qed.

Lemma quoted_py_arg a : quoted a = true -> match py_arg a with inl _ => true | inr _ => false end = true.
Proof. destruct a as [|c a']; cbn; [discriminate|]. intros H. rewrite H. reflexivity. Qed.

Lemma call_good_ok K (M : ir_module) N c : (forall n, In n N -> In n (map m_name (i_meths M))) ->
  call_good N c = true -> call_ok K M c = true.
Proof.
  intros HN. induction c; cbn; auto.
  - intros H. apply orb_true_iff in H as [H|H]; apply orb_true_iff.
    + left. apply find_meth_name. apply HN. apply mem_str_In. exact H.
    + right. apply prim_name_test. exact H.
  - apply quoted_py_arg.
Qed.

Theorem generated_refs_ok : forall K invalid_tbl iter_fields pre suf file fb g an m,
  grammar_names_ok g = true ->
  generate invalid_tbl iter_fields pre suf file fb g an = inl m ->
  refs_ok K m = true.
Proof.
  intros K tbl itf pre suf file fb g an m Hok H. unfold generate in H.
  match type of H with (match ?e with _ => _ end) = _ => destruct e as [[ms|err] st] eqn:EA end; [|discriminate].
  injection H as <-. unfold refs_ok. cbn [i_meths].
  set (N0 := map rname (rules g)).
  assert (HI : GInv N0 {| g_counter := 0; g_todo := rules g; g_cache := []; g_keywords := []; g_soft := []; g_fresh := fb; g_locals := [] |}).
  { split; cbn; [|constructor]. apply Forall_forall. intros r Hr. split.
    - apply mem_str_In. apply in_map. exact Hr.
    - unfold grammar_names_ok in Hok. rewrite forallb_forall in Hok. apply Hok. exact Hr. }
  destruct (emit_all_good _ _ _ _ _ _ _ _ N0 [] _ _ _ HI ltac:(intros n Hn; right; exact Hn) EA) as (N' & A & B & C).
  rewrite forallb_forall in *. intros mt Hmt. specialize (B mt Hmt). unfold meth_good in B. rewrite forallb_forall in *.
  intros a Ha. specialize (B a Ha). unfold alt_good, conjs_good in B. rewrite forallb_forall in *. intros c Hc.
  eapply call_good_ok; [|exact (B c Hc)]. cbn [i_meths]. intros n Hn. destruct (C n Hn) as [[]|H]; exact H.
Qed.
