(* IrSem composed with Desugar: what a method of a generated module returns is what the reference semantics derives for
   the SOURCE grammar's rule, for every module that is in the IrSem fragment and reads back as a grammar the source
   grammar is related to (both decidable, evaluated per grammar). *)
From Coq Require Import List String NArith Bool Arith Lia.
From Pegen Require Import Base.StrUtil Base.Values Grammar.Ast Runtime.Tokenizer Sem.Peg Proofs.PegProofs
  Gen.Gen Runtime.Exec Sem.PegEval Proofs.FlatSem Proofs.IrSem Proofs.Desugar.
Import ListNotations.
Open Scope string_scope.

Definition reads_back_as (rsS : list rule) (M : ir_module) : bool :=
  ir_ok M && no_explicit M && rules_rel_b rsS (dec_module1 M) (fun _ _ => false) && forallb (fun r => plain M (rname r)) rsS.

(* the read-back side's interpretation of actions and naming of items (what Proofs/IrSem.v asks for) *)
Definition aevalP0 (aeval : string -> env -> option value) (a : alt) (vals : list value) (e : list (string * value)) (s p : nat) : option value :=
  match alt_action a with Some ac => aeval (atext ac) e | None => None end.
Definition names0 (a : alt) (k : nat) : option string := match nth_error (alt_items a) k with Some n => ni_name n | None => None end.

(* without explicit actions in plain methods the hypotheses about them are void *)
Lemma no_explicit_void M a : no_explicit M = true -> plain_alt M a -> a_explicit a = true -> False.
Proof.
  intros H (m & Hm & Hl & Hg & Ha) Hx. unfold no_explicit in H. rewrite forallb_forall in H. specialize (H m Hm).
  rewrite Hl, Hg in H. cbn [is_some orb] in H. rewrite forallb_forall in H. specialize (H a Ha). rewrite Hx in H. discriminate H.
Qed.

Theorem run_agrees_with_source K toks M aeval ex td aevalP nameS fm rsS :
  reads_back_as rsS M = true ->
  (forall xs e vs, nodup_s xs = true -> Forall2 (fun x v => env_get e x = Some v) xs vs ->
     aeval (default_text xs) e = Some (match vs with [v] => v | _ => VList vs end)) ->
  (forall e v vs, env_get e "elem" = Some v -> env_get e "seq" = Some (VList vs) -> aeval "[elem] + seq" e = Some (VList (v :: vs))) ->
  (forall s t, In t toks -> is_kind2 s = false -> expect_test K ex td s t = String.eqb (tstr t) s) ->
  (forall s t, In t toks -> is_kind2 s = true -> expect_test K ex td s t = kind2_test K M s t) ->
  forall fuel n st v st', find_rule rsS n <> None ->
  run K toks false false M aeval ex td fuel n st = (Ok v, st') ->
  exists res, peg_item K rsS toks (i_keywords M) (i_soft_keywords M) aevalP nameS (fun _ => fm) (NameLeaf n) (pos st) res /\
              agrees v st st' res.
Proof.
  intros Hrb Ha Hg Hl Hk fuel n st v st' Hn Hrun. unfold reads_back_as in Hrb.
  apply andb_prop in Hrb as [Hrb Hpl]. apply andb_prop in Hrb as [Hrb Hrel]. apply andb_prop in Hrb as [Hok Hne].
  pose proof (ir_run_agrees K toks M aeval ex td (aevalP0 aeval) names0 (fun _ => fm) Hok Ha Hg
                (fun alt ac vals env s e H => ltac:(unfold aevalP0; rewrite H; reflexivity)) (fun a k => eq_refl)
                (fun a Hp Hx => False_rect _ (no_explicit_void M a Hne Hp Hx)) (fun a Hp Hx => False_rect _ (no_explicit_void M a Hne Hp Hx))
                Hl Hk fuel n st v st' Hrun) as HS.
  destruct (find_rule rsS n) as [r|] eqn:Er; [|contradiction]. destruct (find_rule_in _ _ _ Er) as [Hin Hname].
  rewrite forallb_forall in Hpl. specialize (Hpl r Hin). rewrite Hname in Hpl. unfold plain in Hpl. unfold Spec in HS.
  destruct (find_meth M n) as [m|]; [|discriminate Hpl]. destruct (m_loop m); [discriminate Hpl|].
  destruct HS as (res & Hp & Hag). exists res. split; [|exact Hag].
  refine (proj1 (desugar_sound K rsS (dec_module1 M) toks (i_keywords M) (i_soft_keywords M) aevalP (aevalP0 aeval) nameS names0 fm
            (fun a a' => false = true) (rules_rel_sound _ _ _ Hrel) (fun a a' H => ltac:(discriminate H))) _ _ _ Hp _ _).
  apply R_core. apply C_name. intros E. rewrite Er in E. discriminate E.
Qed.

(* ... and with the packrat cache ON: by cache transparency (Proofs/CacheSim.v) the cached run returns what the uncached
   run returns whenever the latter terminates within the fuel. *)
From Pegen Require Import Proofs.FuelMono Proofs.CacheStable Proofs.CacheSim.
Theorem cached_run_agrees_with_source K toks M aeval ex td aevalP nameS fm rsS :
  reads_back_as rsS M = true -> no_left_rec M = true -> no_wi M = true ->
  (forall xs e vs, nodup_s xs = true -> Forall2 (fun x v => env_get e x = Some v) xs vs ->
     aeval (default_text xs) e = Some (match vs with [v] => v | _ => VList vs end)) ->
  (forall e v vs, env_get e "elem" = Some v -> env_get e "seq" = Some (VList vs) -> aeval "[elem] + seq" e = Some (VList (v :: vs))) ->
  (forall s t, In t toks -> is_kind2 s = false -> expect_test K ex td s t = String.eqb (tstr t) s) ->
  (forall s t, In t toks -> is_kind2 s = true -> expect_test K ex td s t = kind2_test K M s t) ->
  forall fuel n st v st', find_rule rsS n <> None -> cache st = [] ->
  fst (run K toks false false M aeval ex td fuel n st) <> OutOfFuel ->
  run K toks false true M aeval ex td fuel n st = (Ok v, st') ->
  exists res, peg_item K rsS toks (i_keywords M) (i_soft_keywords M) aevalP nameS (fun _ => fm) (NameLeaf n) (pos st) res /\
              agrees v st st' res.
Proof.
  intros Hrb Hlr Hwi Ha Hg Hl Hk fuel n st v st' Hn Hc Hd Hrun.
  assert (Hs : sim K toks M aeval ex td (invalid st) st st).
  { unfold sim. repeat split; auto. rewrite Hc. intros k r H. discriminate H. }
  destruct (cache_transparent K toks M aeval ex td Hlr (invalid st) (or_intror Hwi) fuel n st st Hs Hd) as (Ho & Hok).
  rewrite Hrun in Ho, Hok. cbn [fst snd] in Ho, Hok.
  destruct (run K toks false false M aeval ex td fuel n st) as [oU sU] eqn:EU. cbn [fst snd] in Ho, Hok. subst oU.
  destruct (Hok v eq_refl) as (Hp & _).
  destruct (run_agrees_with_source K toks M aeval ex td aevalP nameS fm rsS Hrb Ha Hg Hl Hk fuel n st v sU Hn EU) as (res & Hpi & Hag).
  exists res. split; [exact Hpi|]. unfold agrees in *. rewrite Hp. exact Hag.
Qed.

(* The third outcome: a SyntaxError raised by the parse (a forced item failed) is a forced-item error of the source grammar. *)
Theorem run_raise_agrees_with_source K toks M aeval ex td aevalP nameS fm rsS :
  reads_back_as rsS M = true ->
  (forall xs e vs, nodup_s xs = true -> Forall2 (fun x v => env_get e x = Some v) xs vs ->
     aeval (default_text xs) e = Some (match vs with [v] => v | _ => VList vs end)) ->
  (forall e v vs, env_get e "elem" = Some v -> env_get e "seq" = Some (VList vs) -> aeval "[elem] + seq" e = Some (VList (v :: vs))) ->
  (forall s t, In t toks -> is_kind2 s = false -> expect_test K ex td s t = String.eqb (tstr t) s) ->
  (forall s t, In t toks -> is_kind2 s = true -> expect_test K ex td s t = kind2_test K M s t) ->
  forall fuel n st ea t st', find_rule rsS n <> None ->
  run K toks false false M aeval ex td fuel n st = (Raise (XSyntaxError ea t), st') ->
  exists msg q, peg_item K rsS toks (i_keywords M) (i_soft_keywords M) aevalP nameS (fun _ => fm) (NameLeaf n) (pos st) (PErr msg q).
Proof.
  intros Hrb Ha Hg Hl Hk fuel n st ea t st' Hn Hrun. unfold reads_back_as in Hrb.
  apply andb_prop in Hrb as [Hrb Hpl]. apply andb_prop in Hrb as [Hrb Hrel]. apply andb_prop in Hrb as [Hok Hne].
  pose proof (ir_run_raises K toks M aeval ex td (aevalP0 aeval) names0 (fun _ => fm) Hok Ha Hg
                (fun alt ac vals env s e H => ltac:(unfold aevalP0; rewrite H; reflexivity)) (fun a k => eq_refl)
                (fun a Hp Hx => False_rect _ (no_explicit_void M a Hne Hp Hx)) (fun a Hp Hx => False_rect _ (no_explicit_void M a Hne Hp Hx))
                Hl Hk fuel n st ea t st' Hrun) as HS.
  destruct (find_rule rsS n) as [r|] eqn:Er; [|contradiction]. destruct (find_rule_in _ _ _ Er) as [Hin Hname].
  rewrite forallb_forall in Hpl. specialize (Hpl r Hin). rewrite Hname in Hpl. unfold plain in Hpl. unfold SpecR in HS.
  destruct (find_meth M n) as [m|]; [|discriminate Hpl]. destruct (m_loop m); [discriminate Hpl|].
  destruct HS as (msg & q & Hp). exists msg, q.
  refine (proj1 (desugar_sound K rsS (dec_module1 M) toks (i_keywords M) (i_soft_keywords M) aevalP (aevalP0 aeval) nameS names0 fm
            (fun a a' => false = true) (rules_rel_sound _ _ _ Hrel) (fun a a' H => ltac:(discriminate H))) _ _ _ Hp _ _).
  apply R_core. apply C_name. intros E. rewrite Er in E. discriminate E.
Qed.

Theorem cached_run_raise_agrees_with_source K toks M aeval ex td aevalP nameS fm rsS :
  reads_back_as rsS M = true -> no_left_rec M = true -> no_wi M = true ->
  (forall xs e vs, nodup_s xs = true -> Forall2 (fun x v => env_get e x = Some v) xs vs ->
     aeval (default_text xs) e = Some (match vs with [v] => v | _ => VList vs end)) ->
  (forall e v vs, env_get e "elem" = Some v -> env_get e "seq" = Some (VList vs) -> aeval "[elem] + seq" e = Some (VList (v :: vs))) ->
  (forall s t, In t toks -> is_kind2 s = false -> expect_test K ex td s t = String.eqb (tstr t) s) ->
  (forall s t, In t toks -> is_kind2 s = true -> expect_test K ex td s t = kind2_test K M s t) ->
  forall fuel n st ea t st', find_rule rsS n <> None -> cache st = [] ->
  fst (run K toks false false M aeval ex td fuel n st) <> OutOfFuel ->
  run K toks false true M aeval ex td fuel n st = (Raise (XSyntaxError ea t), st') ->
  exists msg q, peg_item K rsS toks (i_keywords M) (i_soft_keywords M) aevalP nameS (fun _ => fm) (NameLeaf n) (pos st) (PErr msg q).
Proof.
  intros Hrb Hlr Hwi Ha Hg Hl Hk fuel n st ea t st' Hn Hc Hd Hrun.
  assert (Hs : sim K toks M aeval ex td (invalid st) st st).
  { unfold sim. repeat split; auto. rewrite Hc. intros k r H. discriminate H. }
  destruct (cache_transparent K toks M aeval ex td Hlr (invalid st) (or_intror Hwi) fuel n st st Hs Hd) as (Ho & _).
  rewrite Hrun in Ho. cbn [fst] in Ho.
  destruct (run K toks false false M aeval ex td fuel n st) as [oU sU] eqn:EU. cbn [fst] in Ho. subst oU.
  exact (run_raise_agrees_with_source K toks M aeval ex td aevalP nameS fm rsS Hrb Ha Hg Hl Hk fuel n st ea t sU Hn EU).
Qed.

(* Corollary (with determinism of the reference semantics): what a rule's method returns at a position is determined by
   the grammar and the tokens -- not by the fuel, nor by the rest of the state. *)
Theorem results_determined K toks M aeval ex td rsS :
  reads_back_as rsS M = true ->
  (forall xs e vs, nodup_s xs = true -> Forall2 (fun x v => env_get e x = Some v) xs vs ->
     aeval (default_text xs) e = Some (match vs with [v] => v | _ => VList vs end)) ->
  (forall e v vs, env_get e "elem" = Some v -> env_get e "seq" = Some (VList vs) -> aeval "[elem] + seq" e = Some (VList (v :: vs))) ->
  (forall s t, In t toks -> is_kind2 s = false -> expect_test K ex td s t = String.eqb (tstr t) s) ->
  (forall s t, In t toks -> is_kind2 s = true -> expect_test K ex td s t = kind2_test K M s t) ->
  forall f1 f2 n s1 s2 v1 v2 s1' s2', find_rule rsS n <> None -> pos s1 = pos s2 ->
  run K toks false false M aeval ex td f1 n s1 = (Ok v1, s1') ->
  run K toks false false M aeval ex td f2 n s2 = (Ok v2, s2') ->
  v1 = v2 /\ pos s1' = pos s2'.
Proof.
  intros Hrb Ha Hg Hl Hk f1 f2 n s1 s2 v1 v2 s1' s2' Hn Hp R1 R2.
  destruct (run_agrees_with_source K toks M aeval ex td (fun _ _ _ _ _ => None) (fun _ _ => None) "" rsS Hrb Ha Hg Hl Hk f1 n s1 v1 s1' Hn R1) as (r1 & P1 & A1).
  destruct (run_agrees_with_source K toks M aeval ex td (fun _ _ _ _ _ => None) (fun _ _ => None) "" rsS Hrb Ha Hg Hl Hk f2 n s2 v2 s2' Hn R2) as (r2 & P2 & A2).
  rewrite Hp in P1. pose proof (peg_item_det _ _ _ _ _ _ _ _ _ _ _ P1 _ P2) as E. subst r2.
  destruct A1 as [[T1 ->]|[-> [-> Q1]]]; destruct A2 as [[T2 E2]|[-> [E2 Q2]]]; try discriminate E2.
  - injection E2 as -> ->. split; reflexivity.
  - split; [reflexivity|]. rewrite Q1, Q2. exact Hp.
Qed.


(* ---------- grammars WITH explicit actions ---------- *)
(* The reference semantics' side: an action is its text after the generator's substitutions, evaluated by the same
   evaluator in the environment of the alternative's items under the DOCUMENTED names (explicit names, default names
   of leaves, _1, _2 ... for repeats; only the names the action uses are bound) -- Sem/PegEval.v's convention. *)
Definition src_aeval (aeval : string -> env -> option value) (a : alt) (vals : list value) (e : list (string * value)) (s p : nat) : option value :=
  match alt_action a with Some ac => aeval (subst_action (atext ac)) e | None => None end.
(* ... and a cut is the local `cut` the generated method binds (it carries no value; only an action that reads `cut` could tell) *)
Fixpoint with_cut (items : list nitem) (names : list (option string)) : list (option string) :=
  match items, names with
  | n :: items', x :: names' => (if is_cut (ni_item n) then Some "cut" else x) :: with_cut items' names'
  | _, _ => names
  end.
Definition src_name_list (a : alt) : list (option string) := with_cut (alt_items a) (bound_names (alt_items a) (action_used a) []).
Definition src_names (a : alt) (k : nat) : option string := nth k (src_name_list a) None.

Definition ostr_eqb (x y : option string) : bool :=
  match x, y with Some a, Some b => String.eqb a b | None, None => true | _, _ => false end.
Lemma ostr_eqb_eq x y : ostr_eqb x y = true -> x = y.
Proof. destruct x, y; cbn; try discriminate; [intros H; apply String.eqb_eq in H; congruence|reflexivity]. Qed.
Lemma all2_ostr l : forall l', all2 ostr_eqb l l' = true -> l = l'.
Proof.
  induction l as [|x l IH]; intros [|y l'] H; cbn [all2] in H; try discriminate; [reflexivity|].
  apply andb_prop in H as [H1 H2]. rewrite (ostr_eqb_eq _ _ H1), (IH _ H2). reflexivity.
Qed.

(* two alternatives that carry actions correspond: same text after substitution, same names at every position *)
Definition act_b (a a' : alt) : bool :=
  match alt_action a, alt_action a' with
  | Some ac, Some ac' =>
      negb (String.eqb (atext ac) "") && String.eqb (subst_action (atext ac)) (atext ac') &&
      all2 ostr_eqb (src_name_list a) (map ni_name (alt_items a'))
  | _, _ => false
  end.

Lemma names0_nth a k : names0 a k = nth k (map ni_name (alt_items a)) None.
Proof.
  unfold names0. generalize (alt_items a). intros l. revert k. induction l as [|n l IH]; intros [|k]; cbn; try reflexivity. apply IH.
Qed.

Lemma act_b_sound aeval a a' : act_b a a' = true ->
  (forall vals env s e, src_aeval aeval a vals env s e = aevalP0 aeval a' vals env s e) /\ (forall k, src_names a k = names0 a' k) /\
  alt_action a <> None /\ alt_action a' <> None.
Proof.
  unfold act_b. destruct (alt_action a) as [ac|] eqn:Ea; [|discriminate]. destruct (alt_action a') as [ac'|] eqn:Ea'; [|discriminate].
  intros H. apply andb_prop in H as [H H3]. apply andb_prop in H as [H1 H2]. apply String.eqb_eq in H2. apply all2_ostr in H3.
  split; [|split; [|split; discriminate]].
  - intros vals env s e. unfold src_aeval, aevalP0. rewrite Ea, Ea', H2. reflexivity.
  - intros k. unfold src_names. rewrite names0_nth, H3. reflexivity.
Qed.

Definition reads_back_with_actions (rsS : list rule) (M : ir_module) : bool :=
  ir_ok M && rules_rel_b rsS (dec_module1 M) act_b && forallb (fun r => plain M (rname r)) rsS.

Theorem run_agrees_with_source_actions K toks M aeval ex td fm rsS :
  reads_back_with_actions rsS M = true ->
  (forall xs e vs, nodup_s xs = true -> Forall2 (fun x v => env_get e x = Some v) xs vs ->
     aeval (default_text xs) e = Some (match vs with [v] => v | _ => VList vs end)) ->
  (forall e v vs, env_get e "elem" = Some v -> env_get e "seq" = Some (VList vs) -> aeval "[elem] + seq" e = Some (VList (v :: vs))) ->
  (forall a, plain_alt M a -> a_explicit a = true -> forall e1 e0,
     (forall x, In x (conj_vars (a_conjs a)) -> env_get e1 x <> None) -> aeval (a_action a) (e1 ++ e0)%list = aeval (a_action a) e1) ->
  (forall a, plain_alt M a -> a_explicit a = true -> forall e v, aeval (a_action a) e = Some v -> truthy v = true) ->
  (forall s t, In t toks -> is_kind2 s = false -> expect_test K ex td s t = String.eqb (tstr t) s) ->
  (forall s t, In t toks -> is_kind2 s = true -> expect_test K ex td s t = kind2_test K M s t) ->
  forall fuel n st, find_rule rsS n <> None ->
  (forall v st', run K toks false false M aeval ex td fuel n st = (Ok v, st') ->
     exists res, peg_item K rsS toks (i_keywords M) (i_soft_keywords M) (src_aeval aeval) src_names (fun _ => fm) (NameLeaf n) (pos st) res /\
                 agrees v st st' res) /\
  (forall ea t st', run K toks false false M aeval ex td fuel n st = (Raise (XSyntaxError ea t), st') ->
     exists msg q, peg_item K rsS toks (i_keywords M) (i_soft_keywords M) (src_aeval aeval) src_names (fun _ => fm) (NameLeaf n) (pos st) (PErr msg q)).
Proof.
  intros Hrb Ha Hg Hst Htr Hl Hk fuel n st Hn. unfold reads_back_with_actions in Hrb.
  apply andb_prop in Hrb as [Hrb Hpl]. apply andb_prop in Hrb as [Hok Hrel].
  destruct (find_rule rsS n) as [r|] eqn:Er; [|contradiction]. destruct (find_rule_in _ _ _ Er) as [Hin Hname].
  rewrite forallb_forall in Hpl. specialize (Hpl r Hin). rewrite Hname in Hpl. unfold plain in Hpl.
  assert (HD := desugar_sound K rsS (dec_module1 M) toks (i_keywords M) (i_soft_keywords M) (src_aeval aeval) (aevalP0 aeval) src_names names0 fm
            (fun a a' => act_b a a' = true) (rules_rel_sound _ _ _ Hrel) (fun a a' H => act_b_sound aeval a a' H)).
  assert (HR : Rel rsS (dec_module1 M) (fun a a' => act_b a a' = true) (NameLeaf n) (NameLeaf n)).
  { apply R_core. apply C_name. intros E. rewrite Er in E. discriminate E. }
  split.
  - intros v st' Hrun.
    pose proof (ir_run_agrees K toks M aeval ex td (aevalP0 aeval) names0 (fun _ => fm) Hok Ha Hg
                  (fun alt ac vals env s e H => ltac:(unfold aevalP0; rewrite H; reflexivity)) (fun a k => eq_refl) Hst Htr
                  Hl Hk fuel n st v st' Hrun) as HS.
    unfold Spec in HS. destruct (find_meth M n) as [m|]; [|discriminate Hpl]. destruct (m_loop m); [discriminate Hpl|].
    destruct HS as (res & Hp & Hag). exists res. split; [|exact Hag]. exact (proj1 HD _ _ _ Hp _ HR).
  - intros ea t st' Hrun.
    pose proof (ir_run_raises K toks M aeval ex td (aevalP0 aeval) names0 (fun _ => fm) Hok Ha Hg
                  (fun alt ac vals env s e H => ltac:(unfold aevalP0; rewrite H; reflexivity)) (fun a k => eq_refl) Hst Htr
                  Hl Hk fuel n st ea t st' Hrun) as HS.
    unfold SpecR in HS. destruct (find_meth M n) as [m|]; [|discriminate Hpl]. destruct (m_loop m); [discriminate Hpl|].
    destruct HS as (msg & q & Hp). exists msg, q. exact (proj1 HD _ _ _ Hp _ HR).
Qed.

(* ---------- grammars with invalid_ rules: the FIRST pass (error mode off) ---------- *)
(* With the flag off the generated parser computes exactly what the parser without its guarded alternatives computes
   (Proofs/ExecStrip.v, C12); so whatever grammar the stripped module reads back as -- the source grammar without the
   alternatives that mention an invalid_ rule -- is the one whose reference semantics the first pass implements. *)
From Pegen Require Import Proofs.ExecStrip Proofs.ExecUnwi.
(* the module the first pass is equivalent to: guarded alternatives deleted, *_without_invalid marks removed (with the flag
   off such a method switches nothing) *)
Definition first_pass_module (M : ir_module) : ir_module := unwi_module (strip_module M).
Definition strip_rules (inv : alt -> bool) (rs : list rule) : list rule :=
  map (fun r => {| rname := rname r; rtype := rtype r;
                   rrhs := match rrhs r with Rhs id alts => Rhs id (filter (fun a => negb (inv a)) alts) end;
                   rmemo := rmemo r |}) rs.

Theorem first_pass_agrees_with_source K toks M aeval ex td fm rs' :
  reads_back_with_actions rs' (first_pass_module M) = true ->
  (forall xs e vs, nodup_s xs = true -> Forall2 (fun x v => env_get e x = Some v) xs vs ->
     aeval (default_text xs) e = Some (match vs with [v] => v | _ => VList vs end)) ->
  (forall e v vs, env_get e "elem" = Some v -> env_get e "seq" = Some (VList vs) -> aeval "[elem] + seq" e = Some (VList (v :: vs))) ->
  (forall a, plain_alt (first_pass_module M) a -> a_explicit a = true -> forall e1 e0,
     (forall x, In x (conj_vars (a_conjs a)) -> env_get e1 x <> None) -> aeval (a_action a) (e1 ++ e0)%list = aeval (a_action a) e1) ->
  (forall a, plain_alt (first_pass_module M) a -> a_explicit a = true -> forall e v, aeval (a_action a) e = Some v -> truthy v = true) ->
  (forall s t, In t toks -> is_kind2 s = false -> expect_test K ex td s t = String.eqb (tstr t) s) ->
  (forall s t, In t toks -> is_kind2 s = true -> expect_test K ex td s t = kind2_test K M s t) ->
  forall fuel n st, find_rule rs' n <> None -> invalid st = false ->
  (forall v st', run K toks false false M aeval ex td fuel n st = (Ok v, st') ->
     exists res, peg_item K rs' toks (i_keywords M) (i_soft_keywords M) (src_aeval aeval) src_names (fun _ => fm) (NameLeaf n) (pos st) res /\
                 agrees v st st' res) /\
  (forall ea t st', run K toks false false M aeval ex td fuel n st = (Raise (XSyntaxError ea t), st') ->
     exists msg q, peg_item K rs' toks (i_keywords M) (i_soft_keywords M) (src_aeval aeval) src_names (fun _ => fm) (NameLeaf n) (pos st) (PErr msg q)).
Proof.
  intros Hrb Ha Hg Hst Htr Hl Hk fuel n st Hn Hi.
  rewrite (strip_equiv K toks false false M aeval ex td fuel n st Hi).
  rewrite (unwi_equiv K toks false false (strip_module M) aeval ex td fuel n st Hi).
  exact (run_agrees_with_source_actions K toks (first_pass_module M) aeval ex td fm rs' Hrb Ha Hg Hst Htr Hl Hk fuel n st Hn).
Qed.

(* ... and what generated parsers actually run: the first pass WITH the packrat cache (modules without leaders). *)
Theorem cached_first_pass_agrees_with_source K toks M aeval ex td fm rs' :
  reads_back_with_actions rs' (first_pass_module M) = true -> no_left_rec M = true ->
  (forall xs e vs, nodup_s xs = true -> Forall2 (fun x v => env_get e x = Some v) xs vs ->
     aeval (default_text xs) e = Some (match vs with [v] => v | _ => VList vs end)) ->
  (forall e v vs, env_get e "elem" = Some v -> env_get e "seq" = Some (VList vs) -> aeval "[elem] + seq" e = Some (VList (v :: vs))) ->
  (forall a, plain_alt (first_pass_module M) a -> a_explicit a = true -> forall e1 e0,
     (forall x, In x (conj_vars (a_conjs a)) -> env_get e1 x <> None) -> aeval (a_action a) (e1 ++ e0)%list = aeval (a_action a) e1) ->
  (forall a, plain_alt (first_pass_module M) a -> a_explicit a = true -> forall e v, aeval (a_action a) e = Some v -> truthy v = true) ->
  (forall s t, In t toks -> is_kind2 s = false -> expect_test K ex td s t = String.eqb (tstr t) s) ->
  (forall s t, In t toks -> is_kind2 s = true -> expect_test K ex td s t = kind2_test K M s t) ->
  forall fuel n st, find_rule rs' n <> None -> invalid st = false -> cache st = [] ->
  fst (run K toks false false M aeval ex td fuel n st) <> OutOfFuel ->
  (forall v st', run K toks false true M aeval ex td fuel n st = (Ok v, st') ->
     exists res, peg_item K rs' toks (i_keywords M) (i_soft_keywords M) (src_aeval aeval) src_names (fun _ => fm) (NameLeaf n) (pos st) res /\
                 agrees v st st' res) /\
  (forall ea t st', run K toks false true M aeval ex td fuel n st = (Raise (XSyntaxError ea t), st') ->
     exists msg q, peg_item K rs' toks (i_keywords M) (i_soft_keywords M) (src_aeval aeval) src_names (fun _ => fm) (NameLeaf n) (pos st) (PErr msg q)).
Proof.
  intros Hrb Hlr Ha Hg Hst Htr Hl Hk fuel n st Hn Hi Hc Hd.
  assert (Hs : sim K toks M aeval ex td (invalid st) st st).
  { unfold sim. repeat split; auto. rewrite Hc. intros k r H. discriminate H. }
  destruct (cache_transparent K toks M aeval ex td Hlr (invalid st) (or_introl Hi) fuel n st st Hs Hd) as (Ho & Hok).
  destruct (first_pass_agrees_with_source K toks M aeval ex td fm rs' Hrb Ha Hg Hst Htr Hl Hk fuel n st Hn Hi) as [HOk HRaise].
  destruct (run K toks false false M aeval ex td fuel n st) as [oU sU] eqn:EU. cbn [fst snd] in Ho, Hok.
  split.
  - intros v st' Hrun. rewrite Hrun in Ho, Hok. cbn [fst snd] in Ho, Hok. subst oU. destruct (Hok v eq_refl) as (Hp & _).
    destruct (HOk v sU eq_refl) as (res & Hpi & Hag). exists res. split; [exact Hpi|]. unfold agrees in *. rewrite Hp. exact Hag.
  - intros ea t st' Hrun. rewrite Hrun in Ho. cbn [fst] in Ho. subst oU. exact (HRaise ea t sU eq_refl).
Qed.

(* ---------- the SECOND pass (error mode on) ---------- *)
(* With the flag on, a guard is true: the module behaves as the module with its guards removed (Proofs/ExecUnguard.v; modules
   without *_without_invalid methods).  So the second pass implements the reference semantics of the FULL source grammar,
   the invalid_ alternatives being ordinary alternatives. *)
From Pegen Require Import Proofs.ExecUnguard.
Theorem second_pass_agrees_with_source K toks M aeval ex td fm rs :
  reads_back_with_actions rs (unguard_module M) = true -> no_wi_methods M = true ->
  (forall xs e vs, nodup_s xs = true -> Forall2 (fun x v => env_get e x = Some v) xs vs ->
     aeval (default_text xs) e = Some (match vs with [v] => v | _ => VList vs end)) ->
  (forall e v vs, env_get e "elem" = Some v -> env_get e "seq" = Some (VList vs) -> aeval "[elem] + seq" e = Some (VList (v :: vs))) ->
  (forall a, plain_alt (unguard_module M) a -> a_explicit a = true -> forall e1 e0,
     (forall x, In x (conj_vars (a_conjs a)) -> env_get e1 x <> None) -> aeval (a_action a) (e1 ++ e0)%list = aeval (a_action a) e1) ->
  (forall a, plain_alt (unguard_module M) a -> a_explicit a = true -> forall e v, aeval (a_action a) e = Some v -> truthy v = true) ->
  (forall s t, In t toks -> is_kind2 s = false -> expect_test K ex td s t = String.eqb (tstr t) s) ->
  (forall s t, In t toks -> is_kind2 s = true -> expect_test K ex td s t = kind2_test K M s t) ->
  forall fuel n st, find_rule rs n <> None -> invalid st = true ->
  (forall v st', run K toks false false M aeval ex td fuel n st = (Ok v, st') ->
     exists res, peg_item K rs toks (i_keywords M) (i_soft_keywords M) (src_aeval aeval) src_names (fun _ => fm) (NameLeaf n) (pos st) res /\
                 agrees v st st' res) /\
  (forall ea t st', run K toks false false M aeval ex td fuel n st = (Raise (XSyntaxError ea t), st') ->
     exists msg q, peg_item K rs toks (i_keywords M) (i_soft_keywords M) (src_aeval aeval) src_names (fun _ => fm) (NameLeaf n) (pos st) (PErr msg q)).
Proof.
  intros Hrb Hnw Ha Hg Hst Htr Hl Hk fuel n st Hn Hi.
  rewrite (unguard_equiv K toks false false M aeval ex td Hnw fuel n st Hi).
  exact (run_agrees_with_source_actions K toks (unguard_module M) aeval ex td fm rs Hrb Ha Hg Hst Htr Hl Hk fuel n st Hn).
Qed.
