(* The per-item flags (NamedItem.nullable) are exact: after compute_nullables, a NamedItem of the grammar is flagged
   if and only if the pure reading of the table, with the final rule flags, says its item can match nothing.
   Upper bound: NullableProofs.InvU.  Lower bound, here: the last pass (the one that changes no rule flag) visits every
   rule once, the table-driven visitor reaches every NamedItem inside it (VisitAll), and at that moment the value it
   computes for the item is at least the pure value. *)
From Coq Require Import List String NArith Bool Arith Lia.
From Pegen Require Import Base.StrUtil Grammar.Ast Grammar.Induction Analysis.Visitor Analysis.Nullable
  Proofs.VisitorSim Proofs.NullableProofs Proofs.VisitAll.
Import ListNotations.
Open Scope string_scope.

Section NI.
Variable methods : list (string * bexp).
Variable iter_fields : list (string * list string).
Variable rs : list rule.
Hypothesis Hmono : monotone_tbl methods = true.
Hypothesis Hnodup : NoDup (map rname rs).
Hypothesis Hvok : visit_all_ok methods iter_fields = true.

Variable F0 : string -> bool.
Variable L0 : list string.

Notation nvrhs := (nv_rhs methods iter_fields rs).
Notation nvrule := (nv_rule methods iter_fields rs).
Notation nvname := (nv_name methods iter_fields rs).
Notation J' := (J methods rs F0 L0).
Notation pvi' := (pvi methods rs F0).

Definition le (st st' : nst) : Prop := forall id, memN id (n_items st) = true -> memN id (n_items st') = true.
Definition Q (n : nitem) (st : nst) : Prop := pvi' (ni_item n) = true -> memN (ni_id n) (n_items st) = true.
Lemma le_refl st : le st st. Proof. intros id H. exact H. Qed.
Lemma le_trans a b c : le a b -> le b c -> le a c. Proof. intros H1 H2 id H. apply H2, H1, H. Qed.
Lemma Q_mono n s s' : Q n s -> le s s' -> Q n s'. Proof. intros H Hl Hp. apply Hl, H, Hp. Qed.

(* every rule whose visit has returned in this pass has all its NamedItems settled *)
Definition E (st : nst) : Prop :=
  forall x r n, mem_str x (n_done st) = true -> find_rule rs x = Some r -> In n (inside_rhs (rrhs r)) -> Q n st.
Definition JI (S X0 : list string) (st : nst) : Prop := J' S X0 st /\ (n_err st = false -> E st).

Notation SimI S X0 := (Sim nst (JI S X0) Ok false).
Notation GoodI S X0 := (Good nst (JI S X0) Ok le Q).

Definition GoodLI (rec : string -> M nst) : Prop :=
  forall S X0 name r, find_rule rs name = Some r -> SimI S X0 (rec name) (F0 name).
Definition MonoRec (rec : string -> M nst) : Prop := forall name, Mono nst le (rec name).

Lemma li_nitem S X0 n m : True -> SimI S X0 m (pvi' (ni_item n)) -> SimI S X0 (sp_nitem n m) (pvi' (ni_item n)).
Proof.
  intros _ Hm st b st' HI. unfold sp_nitem. destruct (m st) as [b1 st1] eqn:E1.
  destruct (Hm _ _ _ HI E1) as (HI1 & Hok1 & Hv1).
  destruct (b1 && negb (memN (ni_id n) (n_items st1))) eqn:C; intros [= <- <-].
  - split; [|split; [exact Hok1|]].
    + destruct HI1 as [HJ HE]. split; [exact HJ|]. intros Hok x r n0 Hd Hf Hin Hp. cbn [n_items n_done] in *.
      cbn. rewrite (HE Hok x r n0 Hd Hf Hin Hp). apply orb_true_r.
    + intros Hok _. cbn. rewrite N.eqb_refl. reflexivity.
  - split; [exact HI1|]. split; [exact Hok1|]. intros Hok Hp. specialize (Hv1 Hok Hp). subst b1.
    cbn in C. apply negb_false_iff in C. exact C.
Qed.

Lemma li_leaf rec S X0 : GoodLI rec -> forall n, SimI S X0 (sp_nameleaf rs rec n) (pleaf rs F0 n).
Proof.
  intros HG' n. unfold sp_nameleaf, pleaf. destruct (find_rule rs n) as [r|] eqn:Ef.
  - eapply HG'; eauto.
  - apply sim_ret.
Qed.

Lemma li_rhs rec S X0 : GoodLI rec -> forall r, SimI S X0 (nvrhs rec r) (pvr methods rs F0 r).
Proof.
  intros HG' r.
  exact (proj1 (proj2 (sim_items nst (JI S X0) Ok false methods iter_fields sp_nitem (sp_nameleaf rs rec) (pleaf rs F0)
                         (fun _ => True) Hmono (li_leaf rec S X0 HG') (li_nitem S X0))) r
               (proj1 (proj2 (ok_rhs_true_all)) r)).
Qed.

(* coverage hypotheses of VisitAll for the two hooks *)
Lemma gi_leaf rec S X0 : GoodLI rec -> MonoRec rec -> forall n, GoodI S X0 (sp_nameleaf rs rec n) [].
Proof.
  intros HG' HM n. split; [|split].
  - eapply sim_pres. apply (li_leaf rec S X0 HG').
  - unfold sp_nameleaf. destruct (find_rule rs n); [apply HM|]. intros st b st' [= _ <-]. apply le_refl.
  - intros st b st' _ _ _ x [].
Qed.

Lemma gi_nitem S X0 n m L : True -> GoodI S X0 m L -> SimI S X0 m (pvi' (ni_item n)) -> GoodI S X0 (sp_nitem n m) (n :: L).
Proof.
  intros _ (Pm & Mm & Cm) Hs. split; [|split].
  - eapply sim_pres. apply li_nitem; [exact I|exact Hs].
  - intros st b st'. unfold sp_nitem. destruct (m st) as [b1 st1] eqn:E1.
    destruct (b1 && negb (memN (ni_id n) (n_items st1))); intros [= _ <-].
    + intros id Hid. cbn. rewrite (Mm _ _ _ E1 id Hid). apply orb_true_r.
    + exact (Mm _ _ _ E1).
  - intros st b st' HI. unfold sp_nitem. destruct (m st) as [b1 st1] eqn:E1.
    destruct (Hs _ _ _ HI E1) as (HI1 & Hok1 & Hv1).
    destruct (b1 && negb (memN (ni_id n) (n_items st1))) eqn:C; intros [= <- <-] Hok x [<-|Hx].
    + intros _. cbn. rewrite N.eqb_refl. reflexivity.
    + intros Hp. cbn. rewrite (Cm _ _ _ HI E1 Hok x Hx Hp). apply orb_true_r.
    + intros Hp. specialize (Hv1 Hok Hp). subst b1. cbn in C. apply negb_false_iff in C. exact C.
    + exact (Cm _ _ _ HI E1 Hok x Hx).
Qed.

Lemma gi_rhs rec S X0 : GoodLI rec -> MonoRec rec -> forall r, GoodI S X0 (nvrhs rec r) (inside_rhs r).
Proof.
  intros HG' HM r.
  exact (proj1 (proj2 (good_all nst (JI S X0) Ok le Q le_refl le_trans Q_mono false methods iter_fields sp_nitem
                         (sp_nameleaf rs rec) (pleaf rs F0) (fun _ => True) Hvok Hmono
                         (li_leaf rec S X0 HG') (li_nitem S X0) (gi_leaf rec S X0 HG' HM) (gi_nitem S X0))) r
               (proj1 (proj2 (ok_rhs_true_all)) r)).
Qed.

(* visiting a rule *)
Lemma li_rule rec r S X0 : GoodL methods rs F0 L0 rec -> GoodLI rec -> MonoRec rec -> find_rule rs (rname r) = Some r ->
  forall st b st', JI S X0 st -> nvrule rec r st = (b, st') ->
  JI S (rname r :: X0) st' /\ (Ok st' -> Ok st) /\ (Ok st' -> F0 (rname r) = true -> b = true) /\ le st st'.
Proof.
  intros HGL HG' HM Hf st b st' [HJ HE] Hrun.
  destruct (lo_rule methods iter_fields rs Hmono F0 L0 rec r S X0 HGL Hf st b st' HJ Hrun) as (A & B & C).
  split; [|split; [exact B|split; [exact C|]]]; revert Hrun; unfold nv_rule;
    destruct (mem_str (rname r) (n_visited st)) eqn:Vis.
  - intros [= _ <-]. split; [exact A|exact HE].
  - match goal with |- context [nv_rhs _ _ _ _ _ ?s1] => set (st1 := s1) end.
    destruct (nvrhs rec (rrhs r) st1) as [b2 st2] eqn:E2. intros [= _ <-].
    split; [exact A|]. cbn [n_err]. intros Hok.
    assert (HJI1 : JI (rname r :: S) (rname r :: X0) st1).
    { split.
      - intros Hok1. destruct (HJ Hok1) as (Ha & Hb & Hc & Hd & He). subst st1; cbn [n_rules n_visited n_done].
        repeat split; auto.
        + intros x Hx. rewrite mem_str_cons in Hx. apply orb_prop in Hx as [Hx|Hx].
          * apply String.eqb_eq in Hx. left; left; auto.
          * destruct (Hb x Hx); [left; right; auto | right; auto].
        + intros x [<-|Hx]; rewrite mem_str_cons; [rewrite String.eqb_refl; reflexivity|].
          rewrite (Hd x Hx). apply orb_true_r.
      - intros Hok1. exact (HE Hok1). }
    destruct (li_rhs rec _ _ HG' (rrhs r) _ _ _ HJI1 E2) as ([_ HE2] & Hok2 & _).
    destruct (gi_rhs rec (rname r :: S) (rname r :: X0) HG' HM (rrhs r)) as (_ & _ & Cr).
    intros x r' n Hd Hf' Hin. cbn [n_done] in Hd. rewrite mem_str_cons in Hd. apply orb_prop in Hd as [Hd|Hd].
    + apply String.eqb_eq in Hd. subst x. rewrite Hf in Hf'. injection Hf' as <-.
      exact (Cr _ _ _ HJI1 E2 Hok n Hin).
    + exact (HE2 Hok x r' n Hd Hf' Hin).
  - intros [= _ <-]. apply le_refl.
  - match goal with |- context [nv_rhs _ _ _ _ _ ?s1] => set (st1 := s1) end.
    destruct (nvrhs rec (rrhs r) st1) as [b2 st2] eqn:E2. intros [= _ <-].
    destruct (gi_rhs rec (rname r :: S) (rname r :: X0) HG' HM (rrhs r)) as (_ & Mr & _).
    intros id Hid. cbn [n_items]. exact (Mr _ _ _ E2 id Hid).
Qed.

Lemma li_name fuel : GoodLI (nvname fuel) /\ MonoRec (nvname fuel).
Proof.
  induction fuel as [|f [IH1 IH2]]; split.
  - intros S X0 name r Hf st b st' HI. cbn [nv_name]. intros [= <- <-]. split; [|split]; try (intros Hok; discriminate Hok).
    destruct HI as [HJ HE]. split; intros Hok; discriminate Hok.
  - intros name st b st'. cbn [nv_name]. intros [= _ <-]. intros id H. exact H.
  - intros S X0 name r Hf. cbn [nv_name]. rewrite Hf. destruct (find_rule_some _ _ _ Hf) as [Hin Hn]. subst name.
    intros st b st' HI Hrun.
    destruct (li_rule _ r S X0 (lo_name methods iter_fields rs Hmono F0 L0 f) IH1 IH2 Hf _ _ _ HI Hrun) as ([HJ HE] & H2 & H3 & _).
    split; [split; [eapply J_weaken; exact HJ|exact HE]|]. split; [exact H2|]. intros Hok. unfold V. exact (H3 Hok).
  - intros name st b st'. cbn [nv_name]. destruct (find_rule rs name) as [r|] eqn:Hf; [|intros [= _ <-]; apply le_refl].
    destruct (find_rule_some _ _ _ Hf) as [Hin Hn]. subst name. intros Hrun.
    (* monotonicity does not need the invariant: redo the case split *)
    revert Hrun. unfold nv_rule. destruct (mem_str (rname r) (n_visited st)); [intros [= _ <-]; apply le_refl|].
    match goal with |- context [nv_rhs _ _ _ _ _ ?s1] => set (st1 := s1) end.
    destruct (nvrhs (nvname f) (rrhs r) st1) as [b2 st2] eqn:E2. intros [= _ <-].
    destruct (gi_rhs (nvname f) [] [] IH1 IH2 (rrhs r)) as (_ & Mr & _).
    intros id Hid. cbn [n_items]. exact (Mr _ _ _ E2 id Hid).
Qed.

Lemma JI_weaken S X0 x st : JI S (x :: X0) st -> JI S X0 st.
Proof. intros [HJ HE]. split; [eapply J_weaken; exact HJ|exact HE]. Qed.

Lemma li_pass fuel : forall l X0 st, incl l rs -> JI [] X0 st ->
  JI [] (rev (map rname l) ++ X0)%list (pass_rules methods iter_fields rs fuel l st) /\
  (Ok (pass_rules methods iter_fields rs fuel l st) -> Ok st).
Proof.
  induction l as [|r l IH]; intros X0 st Hl HJ; cbn [pass_rules map rev]; [split; [exact HJ|auto]|].
  destruct (nvrule (nvname fuel) r st) as [b st'] eqn:Er. cbn [snd].
  assert (Hin : In r rs) by (apply Hl; left; reflexivity).
  destruct (li_name fuel) as [G1 G2].
  destruct (li_rule _ r [] X0 (lo_name methods iter_fields rs Hmono F0 L0 fuel) G1 G2 (find_rule_nodup _ _ Hnodup Hin) _ _ _ HJ Er) as (H1 & H2 & _).
  destruct (IH (rname r :: X0) st' (fun x Hx => Hl x (or_intror Hx)) H1) as [H3 H4].
  split; [|tauto]. rewrite <- app_assoc. exact H3.
Qed.
End NI.

(* ---------------- the stable pass settles every NamedItem ---------------- *)
Section Final.
Variable methods : list (string * bexp).
Variable iter_fields : list (string * list string).
Variable rs : list rule.
Hypothesis Hmono : monotone_tbl methods = true.
Hypothesis Hnodup : NoDup (map rname rs).
Hypothesis Hvok : visit_all_ok methods iter_fields = true.

Lemma stable_pass_items st :
  n_err (one_pass methods iter_fields rs st) = false ->
  List.length (n_rules (one_pass methods iter_fields rs st)) = List.length (n_rules st) ->
  forall r n, In r rs -> In n (inside_rhs (rrhs r)) ->
  pvi methods rs (flags_of (one_pass methods iter_fields rs st)) (ni_item n) = true ->
  memN (ni_id n) (n_items (one_pass methods iter_fields rs st)) = true.
Proof.
  intros Hok Hlen r n Hr Hn Hp. unfold one_pass in *.
  set (st0 := {| n_rules := n_rules st; n_visited := []; n_items := n_items st; n_done := []; n_err := n_err st |}) in *.
  assert (HJ0 : JI methods rs (flags_of st) (n_rules st) [] [] st0).
  { split.
    - intros _. subst st0; cbn. repeat split; auto; try (intros; discriminate); try (intros ? []). exists []. reflexivity.
    - intros _ x r0 n0 Hd. subst st0. cbn in Hd. discriminate. }
  destruct (li_pass methods iter_fields rs Hmono Hnodup Hvok (flags_of st) (n_rules st) (S (List.length rs)) rs [] st0 (incl_refl _) HJ0) as [[HJ HE] _].
  set (st1 := pass_rules methods iter_fields rs (S (List.length rs)) rs st0) in *.
  destruct (HJ Hok) as (Ha & Hb & Hc & Hd & [a He]).
  assert (a = []).
  { rewrite He, app_length in Hlen. destruct a; [reflexivity|cbn in Hlen; lia]. }
  subst a. cbn in He.
  assert (Heq : flags_of st1 = flags_of st) by (unfold flags_of; rewrite He; reflexivity).
  rewrite Heq in Hp.
  assert (Hvis : mem_str (rname r) (n_visited st1) = true).
  { apply Hd. rewrite app_nil_r. apply in_rev. rewrite rev_involutive. apply in_map. exact Hr. }
  destruct (Hb _ Hvis) as [[]|Hdn].
  exact (HE Hok (rname r) r n Hdn (find_rule_nodup _ _ Hnodup Hr) Hn Hp).
Qed.

Lemma passes_items : forall fuel st st',
  passes methods iter_fields rs fuel st = Some st' -> n_err st' = false ->
  forall r n, In r rs -> In n (inside_rhs (rrhs r)) -> pvi methods rs (flags_of st') (ni_item n) = true ->
  memN (ni_id n) (n_items st') = true.
Proof.
  induction fuel as [|f IH]; intros st st'; cbn [passes]; [discriminate|].
  destruct (Nat.eqb _ _) eqn:Eq.
  - intros [= <-] Hok. apply Nat.eqb_eq in Eq. apply stable_pass_items; assumption.
  - apply IH.
Qed.

(* NamedItems inside a rule satisfy the structural side condition *)
Lemma ok_inside okn :
  (forall i, ok_item okn i -> forall n, In n (inside_item i) -> okn n) /\
  (forall r, ok_rhs okn r -> forall n, In n (inside_rhs r) -> okn n) /\
  (forall a, ok_alt okn a -> forall n, In n (inside_alt a) -> okn n) /\
  (forall n0, ok_nitem okn n0 -> forall n, In n (inside_nitem n0) -> okn n).
Proof.
  apply grammar_ast_ind; cbn [inside_item ok_item]; try (intros; contradiction); auto.
  - intros id s e IHs IHe [H1 H2] n Hn. apply in_app_or in Hn as [Hn|Hn]; auto.
  - intros id alts HF H n Hn. rewrite inside_rhs_eq in Hn. cbn [ok_rhs] in H.
    induction HF as [|a l Ha _ IH]; cbn in Hn; [contradiction|]. destruct H as [H1 H2].
    apply in_app_or in Hn as [Hn|Hn]; [exact (Ha H1 n Hn)|exact (IH H2 Hn)].
  - intros items act HF H n Hn. rewrite inside_alt_eq in Hn. cbn [ok_alt] in H.
    induction HF as [|a l Ha _ IH]; cbn in Hn; [contradiction|]. destruct H as [H1 H2].
    apply in_app_or in Hn as [Hn|Hn]; [exact (Ha H1 n Hn)|exact (IH H2 Hn)].
  - intros id nm ty i IH H n Hn. cbn [ok_nitem] in H. destruct H as [H1 H2]. cbn [inside_nitem] in Hn.
    destruct Hn as [<-|Hn]; [exact H1|exact (IH H2 n Hn)].
Qed.

(* the flags of the NamedItems are exact *)
Theorem item_flags_exact st : ids_consistent rs ->
  compute_nullables methods iter_fields rs = Some st ->
  forall r n, In r rs -> In n (inside_rhs (rrhs r)) ->
  memN (ni_id n) (n_items st) = pvi methods rs (flags_of st) (ni_item n).
Proof.
  intros [item_of Hids] Hc r n Hr Hn.
  pose proof (nullable_prefixed methods iter_fields rs Hmono Hnodup st Hc) as Hpre.
  unfold compute_nullables in Hc. destruct (passes _ _ _ _ _) as [st0|] eqn:Ep; [|discriminate].
  destruct (n_err st0) eqn:Err; [discriminate|]. injection Hc as <-.
  destruct (memN (ni_id n) (n_items st0)) eqn:Em.
  - (* flagged: the pure value is true (upper bound, with G = the final flags) *)
    symmetry.
    assert (HI : InvU methods rs (flags_of st0) item_of st0).
    { eapply (up_passes methods iter_fields rs Hmono Hnodup (flags_of st0) Hpre item_of); [|
        |exact Ep].
      - intros r0 Hr0. exact (Hids r0 Hr0).
      - intros _. split; cbn; intros; discriminate. }
    apply (proj2 (HI Err) (ni_id n) (ni_item n) Em).
    exact (proj1 (proj2 (ok_inside _)) (rrhs r) (Hids r Hr) n Hn).
  - (* not flagged: the pure value is false, else the stable pass would have flagged it *)
    destruct (pvi methods rs (flags_of st0) (ni_item n)) eqn:Ev; [|reflexivity].
    rewrite (passes_items _ _ _ Ep Err r n Hr Hn Ev) in Em. discriminate.
Qed.
End Final.

(* ---------------- the first graph does not depend on the order of the rules ---------------- *)
From Coq Require Import Permutation.

Fixpoint in_items (f : N -> bool) (l : list nitem) : list string :=
  match l with [] => [] | n :: l' => (in_nitem f n ++ (if f (ni_id n) then in_items f l' else []))%list end.
Fixpoint in_alts (f : N -> bool) (l : list alt) : list string :=
  match l with [] => [] | a :: l' => (in_alt f a ++ in_alts f l')%list end.
Lemma in_alt_eq f items act : in_alt f (Alt items act) = in_items f items.
Proof. cbn [in_alt]. induction items as [|n l IH]; [reflexivity|]. cbn [in_items]. rewrite <- IH. reflexivity. Qed.
Lemma in_rhs_eq f id alts : in_rhs f (Rhs id alts) = in_alts f alts.
Proof. cbn [in_rhs]. induction alts as [|a l IH]; [reflexivity|]. cbn [in_alts]. rewrite <- IH. reflexivity. Qed.

(* initial names depend on the flag function only through the NamedItems inside the node *)
Definition agree (f g : N -> bool) (l : list nitem) : Prop := forall n, In n l -> f (ni_id n) = g (ni_id n).
Lemma in_ext f g :
  (forall i, (agree f g (inside_item i) -> in_item f i = in_item g i) /\
             match i with Gather _ s _ => agree f g (inside_item s) -> in_item f s = in_item g s | _ => True end) /\
  (forall r, agree f g (inside_rhs r) -> in_rhs f r = in_rhs g r) /\
  (forall a, agree f g (inside_alt a) -> in_alt f a = in_alt g a) /\
  (forall n0, agree f g (inside_nitem n0) -> in_nitem f n0 = in_nitem g n0).
Proof.
  apply grammar_ast_ind; cbn [in_item inside_item].
  - intros n. split; [reflexivity|exact I].
  - intros s. split; [reflexivity|exact I].
  - intros r IH. split; [exact IH|exact I].
  - intros i [IH _]. split; [exact IH|exact I].
  - intros id i [IH _]. split; [exact IH|exact I].
  - intros id i [IH _]. split; [exact IH|exact I].
  - intros id s e [IHs _] [IHe _]. split; [|exact IHs].
    intros H. apply IHe. intros n Hn. apply H. apply in_or_app. right. exact Hn.
  - intros i [IH _]. split; [exact IH|exact I].
  - intros i [IH _]. split; [exact IH|exact I].
  - intros i [IH _]. split; [exact IH|exact I].
  - split; [reflexivity|exact I].
  - intros r IH. split; [exact IH|exact I].
  - intros id alts HF H. rewrite !in_rhs_eq. rewrite inside_rhs_eq in H.
    induction HF as [|a l Ha _ IH]; [reflexivity|]. cbn [in_alts]. cbn [flat_map] in H. f_equal.
    + apply Ha. intros n Hn. apply H. apply in_or_app. left. exact Hn.
    + apply IH. intros n Hn. apply H. apply in_or_app. right. exact Hn.
  - intros items act HF H. rewrite !in_alt_eq. rewrite inside_alt_eq in H.
    induction HF as [|a l Ha _ IH]; [reflexivity|]. cbn [in_items]. cbn [flat_map] in H.
    assert (E1 : in_nitem f a = in_nitem g a) by (apply Ha; intros n Hn; apply H; apply in_or_app; left; exact Hn).
    assert (E2 : f (ni_id a) = g (ni_id a)).
    { apply H. apply in_or_app. left. destruct a as [id nm ty i]. left. reflexivity. }
    assert (E3 : in_items f l = in_items g l) by (apply IH; intros n Hn; apply H; apply in_or_app; right; exact Hn).
    rewrite E1, E2, E3. reflexivity.
  - intros id nm ty i [IH Hsep] H.
    assert (Ei : in_item f i = in_item g i) by (apply IH; intros n Hn; apply H; right; exact Hn).
    assert (E0 : f id = g id) by (apply (H (NItem id nm ty i)); left; reflexivity).
    destruct i as [n|raw|r|j|gid j|gid j|gid s e|j|j|j| |r]; try exact Ei.
    change (in_nitem f (NItem id nm ty (Gather gid s e))) with
      (if f id then (in_item f (Gather gid s e) ++ in_item f s)%list else in_item f (Gather gid s e)).
    change (in_nitem g (NItem id nm ty (Gather gid s e))) with
      (if g id then (in_item g (Gather gid s e) ++ in_item g s)%list else in_item g (Gather gid s e)).
    rewrite E0, Ei. rewrite Hsep; [reflexivity|].
    intros n Hn. apply H. right. change (inside_item (Gather gid s e)) with (inside_item s ++ inside_item e)%list.
    apply in_or_app. left. exact Hn.
Qed.

Section Order.
Variable methods : list (string * bexp).
Variable iter_fields : list (string * list string).
Hypothesis Hmono : monotone_tbl methods = true.
Hypothesis Hvok : visit_all_ok methods iter_fields = true.

(* for every rule, the set of rules it may invoke at its initial position -- its row of the first graph -- is the same
   whatever the order in which the rules are written *)
Theorem first_graph_order_independent rs rs' st st' :
  NoDup (map rname rs) -> Permutation rs rs' -> ids_consistent rs ->
  compute_nullables methods iter_fields rs = Some st ->
  compute_nullables methods iter_fields rs' = Some st' ->
  forall r, In r rs ->
  in_rhs (fun k => memN k (n_items st)) (rrhs r) = in_rhs (fun k => memN k (n_items st')) (rrhs r).
Proof.
  intros Hn Hp Hids Hc Hc' r Hr.
  assert (Hn' : NoDup (map rname rs')) by (eapply Permutation_NoDup; [apply Permutation_map; exact Hp|exact Hn]).
  assert (Hids' : ids_consistent rs').
  { destruct Hids as [item_of H]. exists item_of. intros r0 Hr0. apply H. eapply Permutation_in; [apply Permutation_sym; exact Hp|exact Hr0]. }
  assert (Hr' : In r rs') by (eapply Permutation_in; eauto).
  apply (proj1 (proj2 (in_ext _ _))). intros n Hin.
  rewrite (item_flags_exact methods iter_fields rs Hmono Hn Hvok st Hids Hc r n Hr Hin).
  rewrite (item_flags_exact methods iter_fields rs' Hmono Hn' Hvok st' Hids' Hc' r n Hr' Hin).
  assert (Hx : forall x, pleaf rs (flags_of st) x = pleaf rs' (flags_of st') x).
  { intros x. unfold pleaf. rewrite (find_rule_perm rs rs' x Hn Hp).
    destruct (find_rule rs' x); [|reflexivity].
    exact (nullable_order_independent methods iter_fields rs rs' st st' Hmono Hn Hp Hids Hc Hc' x). }
  unfold pvi. exact (proj1 (pv_ext methods _ _ Hx) (ni_item n)).
Qed.
End Order.
