(* C01, first fragment as a theorem: the interpreter of the generated IR implements the PEG semantics of Sem/Peg.v.

   Fragment ("flat" modules): every alternative is a sequence of plain calls -- a rule method, a token primitive
   (name(), number(), ...), an expect() of a token kind or of a literal -- bound to pairwise distinct local names, with
   the default action; no guard, cut, locations, loops; methods decorated @memoize; cache off, quiet.  (After the
   generator has turned groups, optionals, repetitions and gathers into helper rules, every alternative of a generated
   parser has this shape up to the wrappers around single calls.)

   The module is read back as a grammar ([dec_module]); the theorem says: whenever the interpreter returns -- success
   with a value, or failure -- the reference semantics derives exactly that for the grammar read back (same value, same
   end position; failure leaves the position alone).  Since the reference semantics is functional (PegProofs.det_all)
   this determines the answer.  Hypotheses are about the environment only: how the action interpreter evaluates the
   default action text (a name, or a list display of names), and that on the given token list expect() matches
   literals by text and token kinds by kind (what the C11 findings are about). *)
From Coq Require Import List String Ascii NArith ZArith Bool Arith Lia.
From Pegen Require Import Base.StrUtil Base.Values Grammar.Ast Runtime.Tokenizer Sem.Peg Gen.Gen Runtime.Exec Proofs.PegProofs.
Import ListNotations.
Open Scope string_scope.

Lemma Forall2_impl {A B} (P Q : A -> B -> Prop) l1 l2 : (forall a b, P a b -> Q a b) -> Forall2 P l1 l2 -> Forall2 Q l1 l2.
Proof. intros H. induction 1; constructor; auto. Qed.
Lemma mem_str_In' x l : mem_str x l = true <-> In x l.
Proof.
  unfold mem_str. rewrite existsb_exists. split.
  - intros (y & Hy & E). apply String.eqb_eq in E. now subst.
  - intros H. exists x. split; [exact H|apply String.eqb_refl].
Qed.

(* ---------- reading a flat module back as a grammar ---------- *)
Definition prim_kind (n : string) : option string :=
  if String.eqb n "name" then Some "NAME" else if String.eqb n "number" then Some "NUMBER"
  else if String.eqb n "string" then Some "STRING" else if String.eqb n "op" then Some "OP"
  else if String.eqb n "type_comment" then Some "TYPE_COMMENT" else if String.eqb n "soft_keyword" then Some "SOFT_KEYWORD"
  else if String.eqb n "fstring_start" then Some "FSTRING_START" else if String.eqb n "fstring_middle" then Some "FSTRING_MIDDLE"
  else if String.eqb n "fstring_end" then Some "FSTRING_END" else None.
Definition is_kind2 (s : string) : bool := mem_str s TOKS2.

Section Dec.
Variable M : ir_module.
Definition is_meth (n : string) : bool := match find_meth M n with Some _ => true | None => false end.
Definition dec_base (c : call) : item :=
  match c with
  | CMeth n => if is_meth n then NameLeaf n else match prim_kind n with Some k => NameLeaf k | None => NameLeaf n end
  | CExpect a => if is_kind2 (strip_quotes a) then NameLeaf (strip_quotes a) else StringLeaf a
  | _ => Cut
  end.
Definition dec_call (c : call) : item :=
  match c with
  | CComma c' => Opt (dec_base c')
  | CLook true _ _ c' => PosLook (dec_base c')
  | CLook false _ _ c' => NegLook (dec_base c')
  | CForced c' _ => Forced (dec_base c')
  | CTrue => Cut
  | _ => dec_base c
  end.
(* reading back conjunctions and alternatives, for any reading [dc] of calls *)
Definition gdec_conj (dc : call -> item) (c : conj) : nitem := NItem 0 (cj_var c) None (dc (cj_call c)).
Definition gdec_alt (dc : call -> item) (a : ialt) : alt := Alt (map (gdec_conj dc) (a_conjs a)) None.
Definition dec_conj : conj -> nitem := gdec_conj dec_call.
Definition dec_alt : ialt -> alt := gdec_alt dec_call.
Definition dec_meth (m : meth) : rule :=
  {| rname := m_name m; rtype := None; rrhs := Rhs 0 (map dec_alt (m_alts m)); rmemo := false |}.
Definition dec_module : list rule := map dec_meth (i_meths M).

(* ---------- the fragment ---------- *)
Definition quoted_arg (a : string) : bool :=
  match a with String c _ => Ascii.eqb c "'"%char || Ascii.eqb c """"%char | EmptyString => false end.
Definition base_call (c : call) : bool :=
  match c with
  | CMeth n => is_meth n || match prim_kind n with Some _ => true | None => false end
  | CExpect a => quoted_arg a
  | _ => false
  end.
Definition flat_call (c : call) : bool :=
  match c with
  | CComma c' | CLook _ _ _ c' | CForced c' _ => base_call c'
  | CTrue => true
  | _ => base_call c
  end.
(* lookaheads and cuts carry no value *)
Definition carries (c : call) : bool := match c with CLook _ _ _ _ | CTrue => false | _ => true end.
Definition value_vars (cs : list conj) : list string :=
  flat_map (fun c => if carries (cj_call c) then match cj_var c with Some x => [x] | None => [] end else []) cs.
Definition default_text (xs : list string) : string :=
  match xs with [x] => x | _ => "[" ++ join ", " xs ++ "]" end.
Fixpoint nodup_s (l : list string) : bool :=
  match l with [] => true | x :: l' => negb (mem_str x l') && nodup_s l' end.
Definition is_cut_call (c : call) : bool := match c with CTrue => true | _ => false end.
(* the shape of conjunctions and alternatives, for any admissible set [okc] of calls *)
Definition gconj_ok (okc : call -> bool) (c : conj) : bool :=
  okc (cj_call c) && negb (cj_notnone c) &&
  (if carries (cj_call c) then match cj_var c with Some x => negb (String.eqb x "cut") | None => false end
   else if is_cut_call (cj_call c) then match cj_var c with Some x => String.eqb x "cut" | None => false end
   else match cj_var c with None => true | Some _ => false end).
Definition galt_ok (okc : call -> bool) (a : ialt) : bool :=
  negb (a_guard a) && negb (a_locations a) && forallb (gconj_ok okc) (a_conjs a) &&
  Bool.eqb (a_has_cut a) (existsb (fun c => is_cut_call (cj_call c)) (a_conjs a)) &&
  nodup_s (value_vars (a_conjs a)) && String.eqb (a_action a) (default_text (value_vars (a_conjs a))) &&
  (* the default value must be truthy: at least one value, and a single value is not a bare optional *)
  match filter (fun c => carries (cj_call c)) (a_conjs a) with
  | [] => false
  | [c] => match cj_call c with CComma _ => false | _ => true end
  | _ => true
  end.
(* alternatives with an EXPLICIT action: a value-carrying item need not be named (the generator drops the names the
   action does not use), the action text is arbitrary *)
Definition gconj_ok2 (okc : call -> bool) (c : conj) : bool :=
  okc (cj_call c) && negb (cj_notnone c) &&
  (if carries (cj_call c) then match cj_var c with Some x => negb (String.eqb x "cut") | None => true end
   else if is_cut_call (cj_call c) then match cj_var c with Some x => String.eqb x "cut" | None => false end
   else match cj_var c with None => true | Some _ => false end).
Definition galt_ok2 (okc : call -> bool) (a : ialt) : bool :=
  if a_explicit a
  then negb (a_guard a) && negb (a_locations a) && forallb (gconj_ok2 okc) (a_conjs a) &&
       Bool.eqb (a_has_cut a) (existsb (fun c => is_cut_call (cj_call c)) (a_conjs a))
  else galt_ok okc a.
Definition mk_act (t : string) : action := {| atext := t; aused := []; aparses := true |}.
Definition gdec_alt2 (dc : call -> item) (a : ialt) : alt :=
  Alt (map (gdec_conj dc) (a_conjs a)) (if a_explicit a then Some (mk_act (a_action a)) else None).
Definition conj_vars (cs : list conj) : list string := flat_map (fun c => match cj_var c with Some x => [x] | None => [] end) cs.
Definition flat_conj : conj -> bool := gconj_ok flat_call.
Definition flat_alt : ialt -> bool := galt_ok flat_call.
Definition is_memo (d : deco) : bool := match d with DMemo => true | _ => false end.
Definition flat_meth (m : meth) : bool :=
  negb (m_loop m) && negb (m_without_invalid m) && negb (m_locations m) && is_memo (m_deco m) && forallb flat_alt (m_alts m).
(* no method shadows a token kind *)
Definition no_kind_method : bool :=
  forallb (fun k => negb (is_meth k)) (("SOFT_KEYWORD" :: TOKS1) ++ TOKS2)%list.
Definition flat_module : bool := forallb flat_meth (i_meths M) && no_kind_method.
End Dec.

Lemma truthy_default cs vs :
  match filter (fun c => carries (cj_call c)) cs with
  | [] => false | [c] => match cj_call c with CComma _ => false | _ => true end | _ => true end = true ->
  Forall2 (fun c w => truthy w = true \/ exists c0, cj_call c = CComma c0) (filter (fun c => carries (cj_call c)) cs) vs ->
  truthy (match vs with [v] => v | _ => VList vs end) = true.
Proof.
  intros Hne Hall. destruct (filter (fun c => carries (cj_call c)) cs) as [|c [|c2 l]]; [discriminate| |].
  - inversion Hall as [|? w ? vs' Hw Hr]; subst. inversion Hr; subst. destruct Hw as [Hw|[c0 Hc0]]; [exact Hw|rewrite Hc0 in Hne; discriminate].
  - inversion Hall as [|? w ? vs' Hw Hr]; subst. inversion Hr; subst. reflexivity.
Qed.


Section Sem.
Variable K : kinds.
Variable toks : list rtok.
Variable M : ir_module.
Variable aeval : string -> env -> option value.
Variable ex td : list (string * N).
(* parameters of the reference semantics that play no role for grammars without actions and forced items *)
Variable aevalP : alt -> list value -> list (string * value) -> nat -> nat -> option value.
Variable item_name : alt -> nat -> option string.
Variable forced_msg : item -> string.

Variable rs : list rule.                       (* the grammar the module is read back as *)
Hypothesis Hrs : rs = dec_module M.
Notation kw := (i_keywords M).
Notation soft := (i_soft_keywords M).
Notation pitem := (peg_item K rs toks kw soft aevalP item_name forced_msg).
Notation pseq := (peg_seq K rs toks kw soft aevalP item_name forced_msg).
Notation palts := (peg_alts K rs toks kw soft aevalP item_name forced_msg).
Notation RUN := (run K toks false false M aeval ex td).
Notation rcall := (run_call K toks false false M ex td).
Notation rconjs := (run_conjs K toks false false M ex td).
Notation ralts := (run_alts K toks false false M aeval ex td).

Hypothesis Hflat : flat_module M = true.
(* the action interpreter evaluates the default action: a name, or a list display of names *)
Hypothesis Haeval : forall xs e vs, nodup_s xs = true -> Forall2 (fun x v => env_get e x = Some v) xs vs ->
  aeval (default_text xs) e = Some (match vs with [v] => v | _ => VList vs end).
(* on this token list, expect() matches a literal by its text and a token kind by its kind *)
Definition kind2_test (s : string) (t : rtok) : bool :=
  match kind_match K kw soft s t with Some b => b | None => false end.
Hypothesis Hlit : forall s t, In t toks -> is_kind2 s = false -> expect_test K ex td s t = String.eqb (tstr t) s.
Hypothesis Hkind : forall s t, In t toks -> is_kind2 s = true -> expect_test K ex td s t = kind2_test s t.

(* what an answer of the interpreter means: success with a truthy value, or failure -- which is None and leaves the position alone *)
Definition agrees (v : value) (st st' : pstate) (res : pres) : Prop :=
  (truthy v = true /\ res = PSucc v (pos st')) \/ (v = VNone /\ res = PFail /\ pos st' = pos st).

Lemma tok_step_ext_in t1 t2 p : (forall t, In t toks -> t1 t = t2 t) -> tok_step toks t1 p = tok_step toks t2 p.
Proof.
  intros H. unfold tok_step. destruct (nth_error toks p) as [t|] eqn:E; [|reflexivity].
  rewrite (H t (nth_error_In _ _ E)). reflexivity.
Qed.

Lemma prim_tok_agrees test st v st' : prim_tok toks test st = (Ok v, st') -> agrees v st st' (tok_step toks test (pos st)).
Proof.
  unfold prim_tok, peek, tok_step. destruct (nth_error toks (pos st)) as [t|] eqn:E; [|discriminate].
  destruct (test t); intros [= <- <-]; [left|right]; cbn; auto.
Qed.

Lemma logged_inv name la f st v st' : logged name la f st = (Ok v, st') -> exists st1, f st = (Ok v, st1) /\ pos st' = pos st1.
Proof.
  unfold logged. destruct (f st) as [[w| |] st1] eqn:E; try discriminate. intros [= <- <-]. exists st1. split; reflexivity.
Qed.

Lemma memoize_off name arg body st : memoize toks false false name arg body st = body st.
Proof. reflexivity. Qed.

(* the token primitives *)
Lemma prim_corr n test : prim_test K M n = Some test ->
  exists kind, prim_kind n = Some kind /\ mem_str kind ("SOFT_KEYWORD" :: TOKS1) = true /\
               forall t, kind_match K kw soft kind t = Some (test t).
Proof.
  unfold prim_test, prim_kind.
  repeat match goal with
  | |- (if String.eqb n ?s then _ else _) = _ -> _ =>
      let E := fresh "E" in destruct (String.eqb n s) eqn:E;
      [apply String.eqb_eq in E; subst n; intros [= <-]; eexists; split; [reflexivity|split; [reflexivity|intros t; reflexivity]]|]
  end.
  intros H; discriminate H.
Qed.

Lemma find_rule_dec n m : find_meth M n = Some m -> find_rule rs n = Some (dec_meth M m).
Proof.
  rewrite Hrs. unfold find_meth, dec_module. induction (i_meths M) as [|m0 l IH]; cbn [find map find_rule]; [discriminate|].
  cbn [rname dec_meth]. destruct (String.eqb (m_name m0) n); [intros [= <-]; reflexivity|exact IH].
Qed.
Lemma find_rule_dec_none n : find_meth M n = None -> find_rule rs n = None.
Proof.
  rewrite Hrs. unfold find_meth, dec_module. induction (i_meths M) as [|m0 l IH]; cbn [find map find_rule]; [reflexivity|].
  cbn [rname dec_meth]. destruct (String.eqb (m_name m0) n); [discriminate|exact IH].
Qed.
Lemma find_meth_in n m : find_meth M n = Some m -> In m (i_meths M).
Proof. unfold find_meth. intros H. apply find_some in H. exact (proj1 H). Qed.

Lemma kind_not_meth k : mem_str k (("SOFT_KEYWORD" :: TOKS1) ++ TOKS2)%list = true -> find_meth M k = None.
Proof.
  intros Hk. pose proof Hflat as H. unfold flat_module in H. apply andb_prop in H as [_ H]. unfold no_kind_method in H.
  rewrite forallb_forall in H. unfold mem_str in Hk. apply existsb_exists in Hk as (x & Hx & E). apply String.eqb_eq in E. subst x.
  specialize (H k Hx). unfold is_meth in H. destruct (find_meth M k); [discriminate|reflexivity].
Qed.

Lemma meth_flat m : In m (i_meths M) -> flat_meth M m = true.
Proof.
  intros Hin. pose proof Hflat as H. unfold flat_module in H. apply andb_prop in H as [H _]. rewrite forallb_forall in H. exact (H m Hin).
Qed.

Section Step.
Variable rec : string -> pstate -> R.
(* the callee agrees with the reference semantics *)
Hypothesis Hrec : forall n st v st', find_meth M n <> None -> rec n st = (Ok v, st') ->
  exists res, pitem (NameLeaf n) (pos st) res /\ agrees v st st' res.

(* a plain call: a rule method, a token primitive, an expect() *)
Lemma base_agrees c st v st' : base_call M c = true -> rcall rec c st = (Ok v, st') ->
  exists res, pitem (dec_base M c) (pos st) res /\ agrees v st st' res.
Proof.
  intros Hf H. destruct c as [n|a| | | |]; try discriminate; cbn [run_call] in H.
  - cbn [dec_base]. unfold is_meth. destruct (find_meth M n) as [m|] eqn:Em.
    + apply (Hrec n st v st'); [congruence|exact H].
    + destruct (prim_test K M n) as [test|] eqn:Ep; [|discriminate].
      destruct (prim_corr n test Ep) as (kind & Ek & Hmem & Hkm). rewrite Ek.
      apply logged_inv in H as (st1 & H & Hp). rewrite memoize_off in H.
      exists (tok_step toks test (pos st)). split.
      * apply P_token; [|exact Hkm]. apply find_rule_dec_none. apply kind_not_meth.
        unfold mem_str in *. rewrite existsb_app. rewrite Hmem. reflexivity.
      * pose proof (prim_tok_agrees _ _ _ _ H) as A. unfold agrees in *. rewrite Hp. exact A.
  - cbn [base_call] in Hf. unfold py_arg in H. destruct a as [|c a']; [discriminate|]. cbn [quoted_arg] in Hf. rewrite Hf in H.
    set (raw := String c a') in *. set (s := strip_quotes raw) in *.
    apply logged_inv in H as (st1 & H & Hp). rewrite memoize_off in H.
    pose proof (prim_tok_agrees _ _ _ _ H) as A. cbn [dec_base]. fold raw. fold s.
    destruct (is_kind2 s) eqn:Ek.
    + exists (tok_step toks (kind2_test s) (pos st)). split.
      * apply P_token.
        -- apply find_rule_dec_none. apply kind_not_meth. unfold is_kind2 in Ek. unfold mem_str in *. rewrite existsb_app, Ek. apply orb_true_r.
        -- intros t. unfold kind2_test. unfold is_kind2, TOKS2, mem_str in Ek. cbn [existsb] in Ek.
           repeat (apply orb_prop in Ek as [Ek|Ek]; [apply String.eqb_eq in Ek; rewrite Ek; reflexivity|]). discriminate.
      * rewrite <- (tok_step_ext_in (expect_test K ex td s) (kind2_test s) (pos st) (fun t Ht => Hkind s t Ht Ek)).
        unfold agrees in *. rewrite Hp. exact A.
    + exists (tok_step toks (fun t => String.eqb (tstr t) (strip_quotes raw)) (pos st)). split; [apply P_lit|].
      assert (Eq : tok_step toks (expect_test K ex td s) (pos st) =
                   tok_step toks (fun t => String.eqb (tstr t) (strip_quotes raw)) (pos st)).
      { apply tok_step_ext_in. intros t Ht. exact (Hlit s t Ht Ek). }
      rewrite <- Eq. unfold agrees in *. rewrite Hp. exact A.
Qed.

(* a call with its wrapper: what is tested, what is bound, what the grammar item yields *)
Definition bound_of (c : call) (w : value) : value := match c, w with CComma _, VTuple [x] => x | _, _ => w end.

Lemma call_sem c st w st' : flat_call M c = true -> rcall rec c st = (Ok w, st') ->
  exists res, pitem (dec_call M c) (pos st) res /\
    ((truthy w = true /\ res = PSucc (bound_of c w) (pos st')) \/ (truthy w = false /\ res = PFail)).
Proof.
  intros Hf H. destruct c as [n|a|c'|pos0 hd tl c'| |c' msg].
  - destruct (base_agrees _ _ _ _ Hf H) as (res & Hp & [[A B]|[A [B C]]]); exists res; (split; [exact Hp|]); [left|right; subst w]; auto.
  - destruct (base_agrees _ _ _ _ Hf H) as (res & Hp & [[A B]|[A [B C]]]); exists res; (split; [exact Hp|]); [left|right; subst w]; auto.
  - (* optional *)
    cbn [flat_call] in Hf. cbn [run_call] in H. unfold bind_r in H.
    destruct (rcall rec c' st) as [[v| |] st1] eqn:Ec; try discriminate. injection H as <- <-.
    destruct (base_agrees _ _ _ _ Hf Ec) as (res & Hp & [[A B]|[A [B C]]]); subst res.
    + exists (PSucc v (pos st1)). split; [cbn [dec_call]; apply P_opt_some; exact Hp|]. left. split; reflexivity.
    + subst v. exists (PSucc VNone (pos st)). split; [cbn [dec_call]; apply P_opt_none; exact Hp|]. left. rewrite C. split; reflexivity.
  - (* lookahead *)
    cbn [flat_call] in Hf. cbn [run_call] in H.
    assert (Hnf : match c' with CForced _ _ => False | _ => True end) by (destruct c'; try discriminate; exact I).
    destruct c' as [n|a| | | |]; try discriminate; clear Hnf.
    all: apply logged_inv in H as (st2 & H & Hp); unfold bind_r in H.
    all: match type of H with (match ?r with _ => _ end) = _ => destruct r as [[v| |] st1] eqn:Ec; try discriminate end.
    all: injection H as <- <-; cbn [pos with_pos] in Hp.
    all: destruct (base_agrees _ _ _ _ Hf Ec) as (res & Hpi & [[A B]|[A [B C]]]); subst res.
    all: destruct pos0; cbn [dec_call bound_of].
    all: try (rewrite A).
    + exists (PSucc v (pos st)). split; [eapply P_pos_ok; exact Hpi|]. left. rewrite Hp. auto.
    + exists PFail. split; [eapply P_neg_fail; exact Hpi|]. right. auto.
    + subst v. exists PFail. split; [apply P_pos_fail; exact Hpi|]. right. auto.
    + subst v. exists (PSucc VTrue (pos st)). split; [apply P_neg_ok; exact Hpi|]. left. rewrite Hp. auto.
    + exists (PSucc v (pos st)). split; [eapply P_pos_ok; exact Hpi|]. left. rewrite Hp. auto.
    + exists PFail. split; [eapply P_neg_fail; exact Hpi|]. right. auto.
    + subst v. exists PFail. split; [apply P_pos_fail; exact Hpi|]. right. auto.
    + subst v. exists (PSucc VTrue (pos st)). split; [apply P_neg_ok; exact Hpi|]. left. rewrite Hp. auto.
  - (* cut *) cbn [run_call] in H. injection H as <- <-. exists (PSucc VTrue (pos st)). split; [apply P_cut|]. left. auto.
  - (* forced *)
    cbn [flat_call] in Hf. cbn [run_call] in H. unfold bind_r in H.
    destruct (rcall rec c' st) as [[v| |] st1] eqn:Ec; try discriminate.
    destruct (base_agrees _ _ _ _ Hf Ec) as (res & Hp & [[A B]|[A [B C]]]); subst res.
    + assert (w = v /\ st' = st1) as [-> ->] by (destruct v; try discriminate A; injection H as <- <-; auto).
      exists (PSucc v (pos st1)). split; [cbn [dec_call]; apply P_forced_ok; exact Hp|]. left. auto.
    + subst v. destruct (diagnose toks st1); discriminate.
Qed.

Lemma carries_dec c : flat_call M c = true ->
  carries c = negb (is_lookahead (dec_call M c) || is_cut (dec_call M c)).
Proof.
  destruct c as [n|a|c'|p0 hd tl c'| |c' msg]; intros Hf; cbn [carries dec_call]; try reflexivity.
  - cbn [dec_base]. destruct (is_meth M n); [reflexivity|]. destruct (prim_kind n); reflexivity.
  - cbn [dec_base]. destruct (is_kind2 (strip_quotes a)); reflexivity.
  - destruct p0; reflexivity.
Qed.

(* ---- generic part: any admissible set of calls [okc] with its reading [dc] ---- *)
Section Generic.
Variable okc : call -> bool.
Variable dc : call -> item.
Hypothesis Hcs : forall c st w st', okc c = true -> rcall rec c st = (Ok w, st') ->
  exists res, pitem (dc c) (pos st) res /\
    ((truthy w = true /\ res = PSucc (bound_of c w) (pos st')) \/ (truthy w = false /\ res = PFail)).
Hypothesis Hcar0 : forall c, okc c = true -> carries c = negb (is_lookahead (dc c) || is_cut (dc c)).
Hypothesis Hcutc : forall c, okc c = true -> is_cut (dc c) = is_cut_call c.

Definition env_cut (e : env) : bool := match env_get e "cut" with Some c => truthy c | None => false end.
(* the bindings a conjunction makes, in order *)
Definition binding (c : conj) (w : value) : list (string * value) :=
  match cj_var c with Some x => [(x, bound_of (cj_call c) w)] | None => [] end.

(* the conjunction of one alternative *)
Lemma gconjs_agree : forall cs e st v e' st', forallb (gconj_ok okc) cs = true -> rconjs rec cs e st = (Ok v, e', st') ->
  forall a k vals envP cut0, env_cut e = cut0 ->
  exists bs cutf, e' = (rev bs ++ e)%list /\ env_cut e' = cutf /\
    (cutf = true -> cut0 = true \/ existsb (fun c => is_cut_call (cj_call c)) cs = true) /\
    (truthy v = true -> exists vs envP', pseq a k (map (gdec_conj dc) cs) (pos st) vals envP cut0 (SSucc (vals ++ vs) envP' (pos st')) /\
                        filter (fun b => negb (String.eqb (fst b) "cut")) bs = combine (value_vars cs) vs /\
                        List.length (value_vars cs) = List.length vs /\
                        List.length vs = List.length (filter (fun c => carries (cj_call c)) cs) /\
                        Forall2 (fun c w => truthy w = true \/ exists c0, cj_call c = CComma c0)
                                (filter (fun c => carries (cj_call c)) cs) vs) /\
    (truthy v = false -> pseq a k (map (gdec_conj dc) cs) (pos st) vals envP cut0 (if cutf then SCutFail else SFail)).
Proof.
  induction cs as [|c cs IH]; intros e st v e' st' Hf H a k vals envP cut0 Hc0.
  - cbn [run_conjs] in H. injection H as <- <- <-. exists [], cut0. split; [reflexivity|]. split; [exact Hc0|].
    split; [intros Hc; left; exact Hc|]. split; [|discriminate]. intros _. exists [], envP. cbn [map]. rewrite app_nil_r.
    split; [apply PQ_nil|]. split; [reflexivity|]. split; [reflexivity|]. split; [reflexivity|constructor].
  - cbn [forallb] in Hf. apply andb_prop in Hf as [Hc Hcs1]. unfold gconj_ok in Hc. apply andb_prop in Hc as [Hc Hv].
    apply andb_prop in Hc as [Hcall Hnn]. apply negb_true_iff in Hnn. cbn [run_conjs] in H.
    destruct (rcall rec (cj_call c) st) as [[w| |] st1] eqn:Ec; try discriminate.
    destruct (Hcs (cj_call c) st w st1 Hcall Ec) as (res & Hp & Ha).
    change (match cj_call c, w with CComma _, VTuple [w0] => w0 | _, _ => w end) with (bound_of (cj_call c) w) in H.
    rewrite Hnn in H. cbn [map].
    set (e1 := match cj_var c with Some x => (x, bound_of (cj_call c) w) :: e | None => e end) in *.
    assert (He1 : e1 = (rev (binding c w) ++ e)%list) by (unfold e1, binding; destruct (cj_var c); reflexivity).
    set (cut1 := cut0 || is_cut (dc (cj_call c))).
    assert (Hcut1 : env_cut e1 = cut1).
    { unfold e1, cut1. destruct (carries (cj_call c)) eqn:Ecar.
      - assert (is_cut (dc (cj_call c)) = false) as ->.
        { pose proof (Hcar0 (cj_call c) Hcall) as Hcar. rewrite Ecar in Hcar. symmetry in Hcar. apply negb_true_iff in Hcar.
          apply orb_false_iff in Hcar. tauto. }
        rewrite orb_false_r. destruct (cj_var c) as [x|]; [|exact Hc0]. apply negb_true_iff in Hv. unfold env_cut. cbn [env_get].
        rewrite String.eqb_sym in Hv. rewrite Hv. exact Hc0.
      - rewrite (Hcutc (cj_call c) Hcall). destruct (cj_call c) eqn:Ecc; try discriminate Ecar.
        + (* lookahead: nothing bound *) cbn [is_cut_call] in Hv. destruct (cj_var c); [discriminate|].
          cbn [is_cut_call]. rewrite orb_false_r. exact Hc0.
        + (* cut *) cbn [is_cut_call] in Hv. destruct (cj_var c) as [x|]; [|discriminate]. apply String.eqb_eq in Hv. subst x.
          cbn [is_cut_call]. rewrite orb_true_r. cbn [run_call] in Ec. injection Ec as <- <-. reflexivity. }
    destruct (truthy w) eqn:Tw.
    + destruct Ha as [[_ ->]|[Hc1 _]]; [|congruence].
      destruct (IH _ _ _ _ _ Hcs1 H a (S k)
                  (if is_lookahead (dc (cj_call c)) || is_cut (dc (cj_call c)) then vals else (vals ++ [bound_of (cj_call c) w])%list)
                  (if is_lookahead (dc (cj_call c)) then envP else bind_name item_name a k (bound_of (cj_call c) w) envP)
                  cut1 Hcut1) as (bs & cutf & He & Hcf & Hbs & IH1 & IH2).
      exists (binding c w ++ bs)%list, cutf. split; [rewrite He, He1, rev_app_distr, <- app_assoc; reflexivity|]. split; [exact Hcf|].
      split; [|split].
      * intros Hc. destruct (Hbs Hc) as [H1|H1]; [|right; cbn [existsb]; rewrite H1; apply orb_true_r].
        unfold cut1 in H1. apply orb_prop in H1 as [H1|H1]; [left; exact H1|right]. cbn [existsb].
        rewrite (Hcutc (cj_call c) Hcall) in H1. rewrite H1. reflexivity.
      * intros Tv. destruct (IH1 Tv) as (vs & envP' & Hseq & Hf2 & Hlv & Hl & Hall).
        destruct (carries (cj_call c)) eqn:Ecar.
        -- assert (Hnl : is_lookahead (dc (cj_call c)) || is_cut (dc (cj_call c)) = false).
           { pose proof (Hcar0 (cj_call c) Hcall) as Hcar. rewrite Ecar in Hcar. symmetry in Hcar. apply negb_true_iff in Hcar. exact Hcar. }
           rewrite Hnl in Hseq. destruct (cj_var c) as [x|] eqn:Ex; [|discriminate].
           exists (bound_of (cj_call c) w :: vs), envP'. split; [|split; [|split; [|split]]].
           ++ eapply PQ_step; [exact Hp|]. cbn [ni_item gdec_conj]. rewrite Hnl. apply orb_false_iff in Hnl as [Hl0 Hc2].
              unfold cut1 in Hseq. rewrite Hl0 in *. rewrite <- app_assoc in Hseq. exact Hseq.
           ++ rewrite filter_app. unfold binding. rewrite Ex. cbn [filter fst]. apply negb_true_iff in Hv. rewrite Hv. cbn [negb app].
              unfold value_vars. cbn [flat_map]. rewrite Ecar, Ex. cbn [app combine]. fold (value_vars cs). rewrite Hf2. reflexivity.
           ++ unfold value_vars. cbn [flat_map]. rewrite Ecar, Ex. cbn [app List.length]. fold (value_vars cs). rewrite Hlv. reflexivity.
           ++ cbn [filter]. rewrite Ecar. cbn. rewrite Hl. reflexivity.
           ++ cbn [filter]. rewrite Ecar. constructor; [|exact Hall].
              destruct (cj_call c) eqn:Ecc; try (left; exact Tw); try discriminate Ecar. right. eexists; reflexivity.
        -- assert (Hnl : is_lookahead (dc (cj_call c)) || is_cut (dc (cj_call c)) = true).
           { pose proof (Hcar0 (cj_call c) Hcall) as Hcar. rewrite Ecar in Hcar. symmetry in Hcar. apply negb_false_iff in Hcar. exact Hcar. }
           rewrite Hnl in Hseq. exists vs, envP'. split; [|split; [|split; [|split]]].
           ++ eapply PQ_step; [exact Hp|]. cbn [ni_item gdec_conj]. rewrite Hnl. fold cut1. exact Hseq.
           ++ rewrite filter_app. unfold value_vars. cbn [flat_map]. rewrite Ecar. cbn [app]. fold (value_vars cs). rewrite Hf2.
              unfold binding. destruct (cj_call c) eqn:Ecc; try discriminate Ecar; cbn [is_cut_call] in Hv.
              ** destruct (cj_var c); [discriminate|reflexivity].
              ** destruct (cj_var c) as [x|]; [|discriminate]. apply String.eqb_eq in Hv. subst x. reflexivity.
           ++ unfold value_vars. cbn [flat_map]. rewrite Ecar. cbn [app]. exact Hlv.
           ++ cbn [filter]. rewrite Ecar. exact Hl.
           ++ cbn [filter]. rewrite Ecar. exact Hall.
      * intros Tv. eapply PQ_step; [exact Hp|]. cbn [ni_item gdec_conj]. fold cut1. exact (IH2 Tv).
    + injection H as <- <- <-. exists (binding c w), cut1. split; [exact He1|]. split; [exact Hcut1|]. split; [|split; [discriminate|]].
      * intros Hc. unfold cut1 in Hc. apply orb_prop in Hc as [H1|H1]; [left; exact H1|right]. cbn [existsb].
        rewrite (Hcutc (cj_call c) Hcall) in H1. rewrite H1. reflexivity.
      * intros _. destruct Ha as [[Hc1 _]|[_ ->]]; [congruence|].
        (* the failing item is not a cut, so the flag is the one before it *)
        assert (Hnc : is_cut (dc (cj_call c)) = false).
        { rewrite (Hcutc (cj_call c) Hcall). destruct (cj_call c) eqn:Ecc; try reflexivity.
          cbn [run_call] in Ec. injection Ec as <- <-. discriminate Tw. }
        unfold cut1. rewrite Hnc, orb_false_r.
        apply (PQ_fail K rs toks kw soft aevalP item_name forced_msg a k (gdec_conj dc c) (map (gdec_conj dc) cs) (pos st) vals envP cut0). exact Hp.
Qed.

(* ... and when a conjunction raises SyntaxError (a forced item failed), the sequence errs *)
Hypothesis HcsR : forall c st ea t st', okc c = true -> rcall rec c st = (Raise (XSyntaxError ea t), st') ->
  exists m q, pitem (dc c) (pos st) (PErr m q).

Lemma gconjs_raises : forall cs e st ea t e' st', forallb (gconj_ok okc) cs = true ->
  rconjs rec cs e st = (Raise (XSyntaxError ea t), e', st') ->
  forall a k vals envP cut0, exists m q, pseq a k (map (gdec_conj dc) cs) (pos st) vals envP cut0 (SErr m q).
Proof.
  induction cs as [|c cs IH]; intros e st ea t e' st' Hf H a k vals envP cut0.
  - cbn [run_conjs] in H. discriminate H.
  - cbn [forallb] in Hf. apply andb_prop in Hf as [Hc Hcs1]. unfold gconj_ok in Hc. apply andb_prop in Hc as [Hc Hv].
    apply andb_prop in Hc as [Hcall Hnn]. apply negb_true_iff in Hnn. cbn [run_conjs] in H. cbn [map].
    destruct (rcall rec (cj_call c) st) as [[w|x| ] st1] eqn:Ec.
    + destruct (Hcs (cj_call c) st w st1 Hcall Ec) as (res & Hp & Ha). rewrite Hnn in H.
      destruct (truthy w) eqn:Tw; [|discriminate H].
      destruct Ha as [[_ ->]|[Hc1 _]]; [|congruence].
      destruct (IH _ _ _ _ _ _ Hcs1 H a (S k)
                  (if is_lookahead (dc (cj_call c)) || is_cut (dc (cj_call c)) then vals else (vals ++ [bound_of (cj_call c) w])%list)
                  (if is_lookahead (dc (cj_call c)) then envP else bind_name item_name a k (bound_of (cj_call c) w) envP)
                  (cut0 || is_cut (dc (cj_call c)))) as (m & q & Hs).
      exists m, q. eapply PQ_step; [exact Hp|]. cbn [ni_item gdec_conj]. exact Hs.
    + injection H as -> <- <-. destruct (HcsR _ _ _ _ _ Hcall Ec) as (m & q & Hp). exists m, q.
      apply (PQ_err K rs toks kw soft aevalP item_name forced_msg a k (gdec_conj dc c) (map (gdec_conj dc) cs) (pos st) vals envP cut0 m q). exact Hp.
    + discriminate H.
Qed.

(* looking up a name other than "cut" ignores the bindings of "cut" *)
Lemma env_get_skip_cut x : x <> "cut" -> forall bs e,
  env_get (rev bs ++ e)%list x = env_get (rev (filter (fun b => negb (String.eqb (fst b) "cut")) bs) ++ e)%list x.
Proof.
  intros Hx. induction bs as [|[y w] bs IH]; intros e; [reflexivity|]. cbn [rev filter fst].
  rewrite <- app_assoc. cbn [app]. rewrite IH. destruct (String.eqb y "cut") eqn:E; cbn [negb].
  - apply String.eqb_eq in E. subst y.
    (* the binding of "cut" sits below the others: skipping it does not change the lookup of x *)
    generalize (rev (filter (fun b => negb (String.eqb (fst b) "cut")) bs)). intros l. induction l as [|[z u] l IHl]; cbn [app env_get].
    + destruct (String.eqb x "cut") eqn:E2; [apply String.eqb_eq in E2; contradiction|reflexivity].
    + destruct (String.eqb x z); [reflexivity|exact IHl].
  - cbn [rev]. rewrite <- app_assoc. reflexivity.
Qed.

Lemma env_get_bound : forall xs vs e, nodup_s xs = true -> List.length xs = List.length vs ->
  Forall2 (fun x v => env_get (rev (combine xs vs) ++ e)%list x = Some v) xs vs.
Proof.
  induction xs as [|x xs IH]; intros vs e Hn Hl; destruct vs as [|v vs]; try discriminate; [constructor|].
  cbn [nodup_s] in Hn. apply andb_prop in Hn as [Hx Hn]. apply negb_true_iff in Hx. cbn in Hl. injection Hl as Hl.
  cbn [combine rev]. rewrite <- app_assoc. cbn [app]. constructor.
  - assert (Hskip : forall l e0, (forall y w, In (y, w) l -> y <> x) -> env_get (l ++ (x, v) :: e0)%list x = Some v).
    { induction l as [|[y w] l IHl]; intros e0 Hy; cbn [app env_get]; [rewrite String.eqb_refl; reflexivity|].
      destruct (String.eqb x y) eqn:E; [apply String.eqb_eq in E; exfalso; apply (Hy y w (or_introl eq_refl)); symmetry; exact E|].
      apply IHl. intros y0 w0 Hin. apply (Hy y0 w0). right. exact Hin. }
    apply Hskip. intros y w Hin ->. apply in_rev in Hin. apply in_combine_l in Hin. apply mem_str_In' in Hin. congruence.
  - exact (IH vs ((x, v) :: e) Hn Hl).
Qed.

Lemma value_vars_not_cut cs : forallb (gconj_ok okc) cs = true -> ~ In "cut" (value_vars cs).
Proof.
  induction cs as [|c cs IH]; intros Hf; [intros []|]. cbn [forallb] in Hf. apply andb_prop in Hf as [Hc Hcs2].
  unfold value_vars. cbn [flat_map]. intros Hin. apply in_app_or in Hin as [Hin|Hin]; [|exact (IH Hcs2 Hin)].
  unfold gconj_ok in Hc. apply andb_prop in Hc as [_ Hv]. destruct (carries (cj_call c)); [|destruct Hin].
  destruct (cj_var c) as [x|]; [|destruct Hin]. destruct Hin as [Hx|[]]. subst x. discriminate Hv.
Qed.

(* the alternatives of one method *)
Lemma galts_agree m mark prev : m_without_invalid m = false ->
  forall alts e0 st v st', forallb (galt_ok okc) alts = true -> pos st = mark -> env_cut e0 = false ->
  ralts rec m mark None prev alts e0 st = (Ok v, st') ->
  exists res, palts (map (gdec_alt dc) alts) mark res /\
              ((truthy v = true /\ res = PSucc v (pos st')) \/ (v = VNone /\ res = PFail /\ pos st' = mark)).
Proof.
  intros Hwi. induction alts as [|a alts IH]; intros e0 st v st' Hf Hpos He0 H.
  - cbn [run_alts] in H. rewrite Hwi in H. injection H as <- <-. exists PFail. split; [apply PA_nil|]. right. auto.
  - cbn [forallb] in Hf. apply andb_prop in Hf as [Ha Hal]. unfold galt_ok in Ha.
    apply andb_prop in Ha as [Ha Hne]. apply andb_prop in Ha as [Ha Hact]. apply andb_prop in Ha as [Ha Hnd].
    apply andb_prop in Ha as [Ha Hhc]. apply andb_prop in Ha as [Ha Hcs0]. apply andb_prop in Ha as [Hg Hloc].
    apply negb_true_iff in Hg. apply negb_true_iff in Hloc. apply String.eqb_eq in Hact. apply Bool.eqb_prop in Hhc.
    cbn [run_alts] in H. rewrite Hg in H. cbn [andb] in H.
    destruct (rconjs rec (a_conjs a) e0 st) as [[[v1| |] e] st1] eqn:Ec; try discriminate.
    destruct (gconjs_agree _ _ _ _ _ _ Hcs0 Ec (gdec_alt dc a) 0 [] [] false He0) as (bs & cutf & He & Hcf & Hbs & C1 & C2). cbn [map].
    destruct (truthy v1) eqn:T1.
    + destruct (C1 eq_refl) as (vs & envP' & Hseq & Hfil & Hlv & Hl & Hall). rewrite Hloc in H. cbn [andb] in H. rewrite Hact in H.
      assert (Hev : aeval (default_text (value_vars (a_conjs a))) e = Some (match vs with [w] => w | _ => VList vs end)).
      { apply Haeval; [exact Hnd|]. rewrite He.
        pose proof (env_get_bound (value_vars (a_conjs a)) vs e0 Hnd Hlv) as HB. rewrite <- Hfil in HB.
        assert (Hnc := value_vars_not_cut _ Hcs0).
        clear -HB Hnc. induction HB as [|x w xs ws Hx _ IHB]; [constructor|]. constructor.
        - rewrite env_get_skip_cut; [exact Hx|]. intros ->. apply Hnc. left. reflexivity.
        - apply IHB. intros Hin. apply Hnc. right. exact Hin. }
      rewrite Hev, Hwi in H. injection H as <- <-.
      exists (PSucc (match vs with [w] => w | _ => VList vs end) (pos st1)). split.
      * rewrite <- Hpos. eapply PA_ok; [exact Hseq|]. reflexivity.
      * left. split; [exact (truthy_default _ _ Hne Hall)|reflexivity].
    + specialize (C2 eq_refl). destruct cutf.
      * (* failed after a cut: the whole rule fails *)
        assert (Hhas : a_has_cut a = true) by (rewrite Hhc; destruct (Hbs eq_refl) as [X|X]; [discriminate X|exact X]).
        rewrite Hhas in H. cbn [andb] in H. unfold env_cut in Hcf. rewrite Hcf in H. rewrite Hwi in H. injection H as <- <-.
        exists PFail. split; [rewrite <- Hpos; eapply PA_cut; exact C2|]. right. auto.
      * unfold env_cut in Hcf. rewrite Hcf in H. rewrite andb_false_r in H.
        destruct (IH e (with_pos st1 mark) v st' Hal eq_refl Hcf H) as (res & Hp & Hr).
        exists res. split; [|exact Hr]. rewrite <- Hpos in *. eapply PA_next; [exact C2|exact Hp].
Qed.
Lemma galts_raises m mark prev : m_without_invalid m = false ->
  forall alts e0 st ea t st', forallb (galt_ok okc) alts = true -> pos st = mark -> env_cut e0 = false ->
  ralts rec m mark None prev alts e0 st = (Raise (XSyntaxError ea t), st') ->
  exists msg q, palts (map (gdec_alt dc) alts) mark (PErr msg q).
Proof.
  intros Hwi. induction alts as [|a alts IH]; intros e0 st ea t st' Hf Hpos He0 H.
  - cbn [run_alts] in H. discriminate H.
  - cbn [forallb] in Hf. apply andb_prop in Hf as [Ha Hal]. unfold galt_ok in Ha.
    apply andb_prop in Ha as [Ha Hne]. apply andb_prop in Ha as [Ha Hact]. apply andb_prop in Ha as [Ha Hnd].
    apply andb_prop in Ha as [Ha Hhc]. apply andb_prop in Ha as [Ha Hcs0]. apply andb_prop in Ha as [Hg Hloc].
    apply negb_true_iff in Hg. apply negb_true_iff in Hloc. apply Bool.eqb_prop in Hhc.
    cbn [run_alts] in H. rewrite Hg in H. cbn [andb] in H. cbn [map].
    destruct (rconjs rec (a_conjs a) e0 st) as [[[v1|x| ] e] st1] eqn:Ec.
    + destruct (gconjs_agree _ _ _ _ _ _ Hcs0 Ec (gdec_alt dc a) 0 [] [] false He0) as (bs & cutf & He & Hcf & Hbs & C1 & C2).
      destruct (truthy v1) eqn:T1.
      * rewrite Hloc in H. cbn [andb] in H. destruct (aeval (a_action a) e); discriminate H.
      * specialize (C2 eq_refl). destruct cutf.
        -- assert (Hhas : a_has_cut a = true) by (rewrite Hhc; destruct (Hbs eq_refl) as [X|X]; [discriminate X|exact X]).
           rewrite Hhas in H. cbn [andb] in H. unfold env_cut in Hcf. rewrite Hcf in H. discriminate H.
        -- unfold env_cut in Hcf. rewrite Hcf in H. rewrite andb_false_r in H.
           destruct (IH e (with_pos st1 mark) ea t st' Hal eq_refl Hcf H) as (msg & q & Hp).
           exists msg, q. rewrite <- Hpos in *. eapply PA_next; [exact C2|exact Hp].
    + injection H as -> <-. destruct (gconjs_raises _ _ _ _ _ _ _ Hcs0 Ec (gdec_alt dc a) 0 [] [] false) as (msg & q & Hs).
      exists msg, q. rewrite <- Hpos. eapply PA_err. exact Hs.
    + discriminate H.
Qed.
(* ---------- alternatives with explicit actions ---------- *)
Lemma conj_ok_weaken c : gconj_ok okc c = true -> gconj_ok2 okc c = true.
Proof.
  unfold gconj_ok, gconj_ok2. intros H. apply andb_prop in H as [H Hv]. rewrite H. cbn [andb].
  destruct (carries (cj_call c)); [|exact Hv]. destruct (cj_var c); [exact Hv|discriminate Hv].
Qed.

Lemma env_get_in_app l : forall x w (e : env), In (x, w) l -> env_get (l ++ e)%list x <> None.
Proof.
  induction l as [|[y u] l IH]; intros x w e Hin; [destruct Hin|]. cbn [app env_get].
  destruct (String.eqb x y) eqn:E; [discriminate|]. destruct Hin as [Hin|Hin]; [injection Hin as -> ->; rewrite String.eqb_refl in E; discriminate E|].
  exact (IH x w e Hin).
Qed.

(* the PEG environment follows the interpreter's: the names of the items are the variables of the conjunctions *)
Lemma gconjs_agree2 : forall cs e st v e' st', forallb (gconj_ok2 okc) cs = true -> rconjs rec cs e st = (Ok v, e', st') ->
  forall a k vals envP cut0, env_cut e = cut0 ->
  (forall j c, nth_error cs j = Some c -> item_name a (k + j) = cj_var c) ->
  exists bs cutf, e' = (rev bs ++ e)%list /\ env_cut e' = cutf /\
    (cutf = true -> cut0 = true \/ existsb (fun c => is_cut_call (cj_call c)) cs = true) /\
    (truthy v = true -> map fst bs = conj_vars cs /\
        exists vs, pseq a k (map (gdec_conj dc) cs) (pos st) vals envP cut0 (SSucc (vals ++ vs) (rev bs ++ envP)%list (pos st'))) /\
    (truthy v = false -> pseq a k (map (gdec_conj dc) cs) (pos st) vals envP cut0 (if cutf then SCutFail else SFail)).
Proof.
  induction cs as [|c cs IH]; intros e st v e' st' Hf H a k vals envP cut0 Hc0 Hnm.
  - cbn [run_conjs] in H. injection H as <- <- <-. exists [], cut0. split; [reflexivity|]. split; [exact Hc0|].
    split; [intros Hc; left; exact Hc|]. split; [|discriminate]. intros _. split; [reflexivity|]. exists []. cbn [map rev app].
    rewrite app_nil_r. apply PQ_nil.
  - cbn [forallb] in Hf. apply andb_prop in Hf as [Hc Hcs1]. unfold gconj_ok2 in Hc. apply andb_prop in Hc as [Hc Hv].
    apply andb_prop in Hc as [Hcall Hnn]. apply negb_true_iff in Hnn. cbn [run_conjs] in H.
    destruct (rcall rec (cj_call c) st) as [[w| |] st1] eqn:Ec; try discriminate.
    destruct (Hcs (cj_call c) st w st1 Hcall Ec) as (res & Hp & Ha).
    change (match cj_call c, w with CComma _, VTuple [w0] => w0 | _, _ => w end) with (bound_of (cj_call c) w) in H.
    rewrite Hnn in H. cbn [map].
    set (e1 := match cj_var c with Some x => (x, bound_of (cj_call c) w) :: e | None => e end) in *.
    assert (He1 : e1 = (rev (binding c w) ++ e)%list) by (unfold e1, binding; destruct (cj_var c); reflexivity).
    set (cut1 := cut0 || is_cut (dc (cj_call c))).
    assert (Hname : item_name a k = cj_var c) by (rewrite <- (Nat.add_0_r k); apply Hnm; reflexivity).
    assert (Hcut1 : env_cut e1 = cut1).
    { unfold e1, cut1. destruct (carries (cj_call c)) eqn:Ecar.
      - assert (is_cut (dc (cj_call c)) = false) as ->.
        { pose proof (Hcar0 (cj_call c) Hcall) as Hcar. rewrite Ecar in Hcar. symmetry in Hcar. apply negb_true_iff in Hcar.
          apply orb_false_iff in Hcar. tauto. }
        rewrite orb_false_r. destruct (cj_var c) as [x|]; [|exact Hc0]. apply negb_true_iff in Hv. unfold env_cut. cbn [env_get].
        rewrite String.eqb_sym in Hv. rewrite Hv. exact Hc0.
      - rewrite (Hcutc (cj_call c) Hcall). destruct (cj_call c) eqn:Ecc; try discriminate Ecar.
        + cbn [is_cut_call] in Hv. destruct (cj_var c); [discriminate|]. cbn [is_cut_call]. rewrite orb_false_r. exact Hc0.
        + cbn [is_cut_call] in Hv. destruct (cj_var c) as [x|]; [|discriminate]. apply String.eqb_eq in Hv. subst x.
          cbn [is_cut_call]. rewrite orb_true_r. cbn [run_call] in Ec. injection Ec as <- <-. reflexivity. }
    (* the PEG environment after this item *)
    assert (HenvP : (if is_lookahead (dc (cj_call c)) then envP else bind_name item_name a k (bound_of (cj_call c) w) envP)
                    = (rev (binding c w) ++ envP)%list).
    { unfold bind_name, binding. rewrite Hname. destruct (is_lookahead (dc (cj_call c))) eqn:El.
      - (* a lookahead binds nothing on either side *)
        assert (Ecar : carries (cj_call c) = false).
        { rewrite (Hcar0 (cj_call c) Hcall). rewrite El. reflexivity. }
        rewrite Ecar in Hv. destruct (cj_call c) eqn:Ecc; try discriminate Ecar.
        + cbn [is_cut_call] in Hv. destruct (cj_var c); [discriminate|reflexivity].
        + exfalso. pose proof (Hcutc CTrue Hcall) as Hx. cbn [is_cut_call] in Hx. destruct (dc CTrue); discriminate.
      - destruct (cj_var c); reflexivity. }
    destruct (truthy w) eqn:Tw.
    + destruct Ha as [[_ ->]|[Hc1 _]]; [|congruence].
      assert (Hnm' : forall j c0, nth_error cs j = Some c0 -> item_name a (S k + j) = cj_var c0).
      { intros j c0 Hj. replace (S k + j) with (k + S j) by lia. apply Hnm. exact Hj. }
      destruct (IH _ _ _ _ _ Hcs1 H a (S k)
                  (if is_lookahead (dc (cj_call c)) || is_cut (dc (cj_call c)) then vals else (vals ++ [bound_of (cj_call c) w])%list)
                  (rev (binding c w) ++ envP)%list
                  cut1 Hcut1 Hnm') as (bs & cutf & He & Hcf & Hbs & IH1 & IH2).
      exists (binding c w ++ bs)%list, cutf. split; [rewrite He, He1, rev_app_distr, <- app_assoc; reflexivity|]. split; [exact Hcf|].
      split; [|split].
      * intros Hc. destruct (Hbs Hc) as [H1|H1]; [|right; cbn [existsb]; rewrite H1; apply orb_true_r].
        unfold cut1 in H1. apply orb_prop in H1 as [H1|H1]; [left; exact H1|right]. cbn [existsb].
        rewrite (Hcutc (cj_call c) Hcall) in H1. rewrite H1. reflexivity.
      * intros Tv. destruct (IH1 Tv) as (Hfst & vs & Hseq). split.
        -- rewrite map_app, Hfst. unfold conj_vars, binding. cbn [flat_map]. destruct (cj_var c); reflexivity.
        -- destruct (is_lookahead (dc (cj_call c)) || is_cut (dc (cj_call c))) eqn:Hnl.
           ++ exists vs. eapply PQ_step; [exact Hp|]. cbn [ni_item gdec_conj]. rewrite Hnl, HenvP. fold cut1.
              rewrite rev_app_distr, <- app_assoc. exact Hseq.
           ++ exists (bound_of (cj_call c) w :: vs). eapply PQ_step; [exact Hp|]. cbn [ni_item gdec_conj]. rewrite Hnl, HenvP. fold cut1.
              rewrite rev_app_distr, <- !app_assoc. rewrite <- app_assoc in Hseq. exact Hseq.
      * intros Tv. eapply PQ_step; [exact Hp|]. cbn [ni_item gdec_conj]. rewrite HenvP. fold cut1. exact (IH2 Tv).
    + injection H as <- <- <-. exists (binding c w), cut1. split; [exact He1|]. split; [exact Hcut1|]. split; [|split; [discriminate|]].
      * intros Hc. unfold cut1 in Hc. apply orb_prop in Hc as [H1|H1]; [left; exact H1|right]. cbn [existsb].
        rewrite (Hcutc (cj_call c) Hcall) in H1. rewrite H1. reflexivity.
      * intros _. destruct Ha as [[Hc1 _]|[_ ->]]; [congruence|].
        assert (Hnc : is_cut (dc (cj_call c)) = false).
        { rewrite (Hcutc (cj_call c) Hcall). destruct (cj_call c) eqn:Ecc; try reflexivity.
          cbn [run_call] in Ec. injection Ec as <- <-. discriminate Tw. }
        unfold cut1. rewrite Hnc, orb_false_r.
        apply (PQ_fail K rs toks kw soft aevalP item_name forced_msg a k (gdec_conj dc c) (map (gdec_conj dc) cs) (pos st) vals envP cut0). exact Hp.
Qed.

Variable OKA : ialt -> Prop.                (* the alternatives the hypotheses on explicit actions are about *)
(* the reference semantics evaluates an explicit action as the interpreter does: its text, in the environment of the
   alternative's named items *)
Hypothesis HactP : forall alt ac vals env s e, alt_action alt = Some ac -> aevalP alt vals env s e = aeval (atext ac) env.
Hypothesis Hnmi : forall a k, item_name a k = match nth_error (alt_items a) k with Some n => ni_name n | None => None end.
(* what earlier alternatives of the same method left bound does not matter to an action whose alternative bound its names *)
Hypothesis Hstale : forall a, OKA a -> a_explicit a = true -> forall e1 e0,
  (forall x, In x (conj_vars (a_conjs a)) -> env_get e1 x <> None) -> aeval (a_action a) (e1 ++ e0)%list = aeval (a_action a) e1.
(* the recorded C05 exclusion: an explicit action never yields a falsy value *)
Hypothesis Htruthy : forall a, OKA a -> a_explicit a = true -> forall e v, aeval (a_action a) e = Some v -> truthy v = true.

Lemma names_premise a : forall j c, nth_error (a_conjs a) j = Some c -> item_name (gdec_alt2 dc a) (0 + j) = cj_var c.
Proof.
  intros j c Hj. cbn [Nat.add]. rewrite Hnmi. unfold gdec_alt2. cbn [alt_items]. rewrite nth_error_map, Hj. reflexivity.
Qed.
Lemma bound_all bs xs : map fst bs = xs -> forall x, In x xs -> env_get (rev bs) x <> None.
Proof.
  intros <- x Hin. apply in_map_iff in Hin as ([y w] & <- & Hin). cbn [fst].
  rewrite <- (app_nil_r (rev bs)). apply (env_get_in_app (rev bs) y w []). apply -> in_rev. exact Hin.
Qed.

Lemma galts_agree2 m mark prev : m_without_invalid m = false ->
  forall alts e0 st v st', forallb (galt_ok2 okc) alts = true -> Forall OKA alts -> pos st = mark -> env_cut e0 = false ->
  ralts rec m mark None prev alts e0 st = (Ok v, st') ->
  exists res, palts (map (gdec_alt2 dc) alts) mark res /\
              ((truthy v = true /\ res = PSucc v (pos st')) \/ (v = VNone /\ res = PFail /\ pos st' = mark)).
Proof.
  intros Hwi. induction alts as [|a alts IH]; intros e0 st v st' Hf HOK Hpos He0 H.
  - cbn [run_alts] in H. rewrite Hwi in H. injection H as <- <-. exists PFail. split; [apply PA_nil|]. right. auto.
  - cbn [forallb] in Hf. apply andb_prop in Hf as [Ha Hal]. pose proof (Forall_inv HOK) as HOKa. pose proof (Forall_inv_tail HOK) as HOKl. unfold galt_ok2 in Ha.
    destruct (a_explicit a) eqn:Ex.
    + (* an explicit action *)
      apply andb_prop in Ha as [Ha Hhc]. apply andb_prop in Ha as [Ha Hcs0]. apply andb_prop in Ha as [Hg Hloc].
      apply negb_true_iff in Hg. apply negb_true_iff in Hloc. apply Bool.eqb_prop in Hhc.
      cbn [run_alts] in H. rewrite Hg in H. cbn [andb] in H.
      destruct (rconjs rec (a_conjs a) e0 st) as [[[v1| |] e] st1] eqn:Ec; try discriminate.
      destruct (gconjs_agree2 _ _ _ _ _ _ Hcs0 Ec (gdec_alt2 dc a) 0 [] [] false He0 (names_premise a)) as (bs & cutf & He & Hcf & Hbs & C1 & C2).
      cbn [map].
      destruct (truthy v1) eqn:T1.
      * destruct (C1 eq_refl) as (Hfst & vs & Hseq). rewrite Hloc in H. cbn [andb] in H. rewrite He in H.
        rewrite (Hstale a HOKa Ex (rev bs) e0 (bound_all bs _ Hfst)) in H.
        destruct (aeval (a_action a) (rev bs)) as [v2|] eqn:Ev; [|discriminate H]. rewrite Hwi in H. injection H as <- <-.
        exists (PSucc v2 (pos st1)). split; [|left; split; [exact (Htruthy a HOKa Ex _ _ Ev)|reflexivity]].
        rewrite <- Hpos. eapply PA_ok; [exact Hseq|]. unfold alt_value, gdec_alt2. cbn [alt_action]. rewrite Ex.
        rewrite (HactP _ (mk_act (a_action a))); [|reflexivity]. cbn [atext mk_act].
        rewrite app_nil_r. exact Ev.
      * specialize (C2 eq_refl). destruct cutf.
        -- assert (Hhas : a_has_cut a = true) by (rewrite Hhc; destruct (Hbs eq_refl) as [X|X]; [discriminate X|exact X]).
           rewrite Hhas in H. cbn [andb] in H. unfold env_cut in Hcf. rewrite Hcf in H. rewrite Hwi in H. injection H as <- <-.
           exists PFail. split; [rewrite <- Hpos; eapply PA_cut; exact C2|]. right. auto.
        -- unfold env_cut in Hcf. rewrite Hcf in H. rewrite andb_false_r in H.
           destruct (IH e (with_pos st1 mark) v st' Hal HOKl eq_refl Hcf H) as (res & Hp & Hr).
           exists res. split; [|exact Hr]. rewrite <- Hpos in *. eapply PA_next; [exact C2|exact Hp].
    + (* the default action: as in galts_agree *)
      assert (Ed : gdec_alt2 dc a = gdec_alt dc a) by (unfold gdec_alt2, gdec_alt; rewrite Ex; reflexivity).
      unfold galt_ok in Ha.
      apply andb_prop in Ha as [Ha Hne]. apply andb_prop in Ha as [Ha Hact]. apply andb_prop in Ha as [Ha Hnd].
      apply andb_prop in Ha as [Ha Hhc]. apply andb_prop in Ha as [Ha Hcs0]. apply andb_prop in Ha as [Hg Hloc].
      apply negb_true_iff in Hg. apply negb_true_iff in Hloc. apply String.eqb_eq in Hact. apply Bool.eqb_prop in Hhc.
      cbn [run_alts] in H. rewrite Hg in H. cbn [andb] in H.
      destruct (rconjs rec (a_conjs a) e0 st) as [[[v1| |] e] st1] eqn:Ec; try discriminate.
      destruct (gconjs_agree _ _ _ _ _ _ Hcs0 Ec (gdec_alt dc a) 0 [] [] false He0) as (bs & cutf & He & Hcf & Hbs & C1 & C2). cbn [map].
      rewrite Ed.
      destruct (truthy v1) eqn:T1.
      * destruct (C1 eq_refl) as (vs & envP' & Hseq & Hfil & Hlv & Hl & Hall). rewrite Hloc in H. cbn [andb] in H. rewrite Hact in H.
        assert (Hev : aeval (default_text (value_vars (a_conjs a))) e = Some (match vs with [w] => w | _ => VList vs end)).
        { apply Haeval; [exact Hnd|]. rewrite He.
          pose proof (env_get_bound (value_vars (a_conjs a)) vs e0 Hnd Hlv) as HB. rewrite <- Hfil in HB.
          assert (Hnc := value_vars_not_cut _ Hcs0).
          clear -HB Hnc. induction HB as [|x w xs ws Hx _ IHB]; [constructor|]. constructor.
          - rewrite env_get_skip_cut; [exact Hx|]. intros ->. apply Hnc. left. reflexivity.
          - apply IHB. intros Hin. apply Hnc. right. exact Hin. }
        rewrite Hev, Hwi in H. injection H as <- <-.
        exists (PSucc (match vs with [w] => w | _ => VList vs end) (pos st1)). split.
        -- rewrite <- Hpos. eapply PA_ok; [exact Hseq|]. reflexivity.
        -- left. split; [exact (truthy_default _ _ Hne Hall)|reflexivity].
      * specialize (C2 eq_refl). destruct cutf.
        -- assert (Hhas : a_has_cut a = true) by (rewrite Hhc; destruct (Hbs eq_refl) as [X|X]; [discriminate X|exact X]).
           rewrite Hhas in H. cbn [andb] in H. unfold env_cut in Hcf. rewrite Hcf in H. rewrite Hwi in H. injection H as <- <-.
           exists PFail. split; [rewrite <- Hpos; eapply PA_cut; exact C2|]. right. auto.
        -- unfold env_cut in Hcf. rewrite Hcf in H. rewrite andb_false_r in H.
           destruct (IH e (with_pos st1 mark) v st' Hal HOKl eq_refl Hcf H) as (res & Hp & Hr).
           exists res. split; [|exact Hr]. rewrite <- Hpos in *. eapply PA_next; [exact C2|exact Hp].
Qed.

Lemma gconjs_raises2 : forall cs e st ea t e' st', forallb (gconj_ok2 okc) cs = true ->
  rconjs rec cs e st = (Raise (XSyntaxError ea t), e', st') ->
  forall a k vals envP cut0, exists m q, pseq a k (map (gdec_conj dc) cs) (pos st) vals envP cut0 (SErr m q).
Proof.
  induction cs as [|c cs IH]; intros e st ea t e' st' Hf H a k vals envP cut0.
  - cbn [run_conjs] in H. discriminate H.
  - cbn [forallb] in Hf. apply andb_prop in Hf as [Hc Hcs1]. unfold gconj_ok2 in Hc. apply andb_prop in Hc as [Hc Hv].
    apply andb_prop in Hc as [Hcall Hnn]. apply negb_true_iff in Hnn. cbn [run_conjs] in H. cbn [map].
    destruct (rcall rec (cj_call c) st) as [[w|x| ] st1] eqn:Ec.
    + destruct (Hcs (cj_call c) st w st1 Hcall Ec) as (res & Hp & Ha). rewrite Hnn in H.
      destruct (truthy w) eqn:Tw; [|discriminate H].
      destruct Ha as [[_ ->]|[Hc1 _]]; [|congruence].
      destruct (IH _ _ _ _ _ _ Hcs1 H a (S k)
                  (if is_lookahead (dc (cj_call c)) || is_cut (dc (cj_call c)) then vals else (vals ++ [bound_of (cj_call c) w])%list)
                  (if is_lookahead (dc (cj_call c)) then envP else bind_name item_name a k (bound_of (cj_call c) w) envP)
                  (cut0 || is_cut (dc (cj_call c)))) as (m & q & Hs).
      exists m, q. eapply PQ_step; [exact Hp|]. cbn [ni_item gdec_conj]. exact Hs.
    + injection H as -> <- <-. destruct (HcsR _ _ _ _ _ Hcall Ec) as (m & q & Hp). exists m, q.
      apply (PQ_err K rs toks kw soft aevalP item_name forced_msg a k (gdec_conj dc c) (map (gdec_conj dc) cs) (pos st) vals envP cut0 m q). exact Hp.
    + discriminate H.
Qed.

Lemma galts_raises2 m mark prev : m_without_invalid m = false ->
  forall alts e0 st ea t st', forallb (galt_ok2 okc) alts = true -> pos st = mark -> env_cut e0 = false ->
  ralts rec m mark None prev alts e0 st = (Raise (XSyntaxError ea t), st') ->
  exists msg q, palts (map (gdec_alt2 dc) alts) mark (PErr msg q).
Proof.
  intros Hwi. induction alts as [|a alts IH]; intros e0 st ea t st' Hf Hpos He0 H.
  - cbn [run_alts] in H. discriminate H.
  - cbn [forallb] in Hf. apply andb_prop in Hf as [Ha Hal]. unfold galt_ok2 in Ha.
    (* both kinds of alternative: their conjunctions are admissible in the weaker sense *)
    assert (Hparts : a_guard a = false /\ a_locations a = false /\ forallb (gconj_ok2 okc) (a_conjs a) = true /\
                     a_has_cut a = existsb (fun c => is_cut_call (cj_call c)) (a_conjs a)).
    { destruct (a_explicit a).
      - apply andb_prop in Ha as [Ha Hhc]. apply andb_prop in Ha as [Ha Hcs0]. apply andb_prop in Ha as [Hg Hloc].
        apply negb_true_iff in Hg. apply negb_true_iff in Hloc. apply Bool.eqb_prop in Hhc. auto.
      - unfold galt_ok in Ha.
        apply andb_prop in Ha as [Ha Hne]. apply andb_prop in Ha as [Ha Hact]. apply andb_prop in Ha as [Ha Hnd].
        apply andb_prop in Ha as [Ha Hhc]. apply andb_prop in Ha as [Ha Hcs0]. apply andb_prop in Ha as [Hg Hloc].
        apply negb_true_iff in Hg. apply negb_true_iff in Hloc. apply Bool.eqb_prop in Hhc.
        repeat split; auto. rewrite forallb_forall in *. intros c Hc. apply conj_ok_weaken. exact (Hcs0 c Hc). }
    destruct Hparts as (Hg & Hloc & Hcs0 & Hhc).
    cbn [run_alts] in H. rewrite Hg in H. cbn [andb] in H. cbn [map].
    destruct (rconjs rec (a_conjs a) e0 st) as [[[v1|x| ] e] st1] eqn:Ec.
    + destruct (gconjs_agree2 _ _ _ _ _ _ Hcs0 Ec (gdec_alt2 dc a) 0 [] [] false He0 (names_premise a)) as (bs & cutf & He & Hcf & Hbs & C1 & C2).
      destruct (truthy v1) eqn:T1.
      * rewrite Hloc in H. cbn [andb] in H. destruct (aeval (a_action a) e); discriminate H.
      * specialize (C2 eq_refl). destruct cutf.
        -- assert (Hhas : a_has_cut a = true) by (rewrite Hhc; destruct (Hbs eq_refl) as [X|X]; [discriminate X|exact X]).
           rewrite Hhas in H. cbn [andb] in H. unfold env_cut in Hcf. rewrite Hcf in H. discriminate H.
        -- unfold env_cut in Hcf. rewrite Hcf in H. rewrite andb_false_r in H.
           destruct (IH e (with_pos st1 mark) ea t st' Hal eq_refl Hcf H) as (msg & q & Hp).
           exists msg, q. rewrite <- Hpos in *. eapply PA_next; [exact C2|exact Hp].
    + injection H as -> <-. destruct (gconjs_raises2 _ _ _ _ _ _ _ Hcs0 Ec (gdec_alt2 dc a) 0 [] [] false) as (msg & q & Hs).
      exists msg, q. rewrite <- Hpos. eapply PA_err. exact Hs.
    + discriminate H.
Qed.
End Generic.

Lemma cut_dec c : flat_call M c = true -> is_cut (dec_call M c) = is_cut_call c.
Proof.
  destruct c as [n|a|c'|p0 hd tl c'| |c' msg]; intros Hf; cbn [dec_call is_cut_call dec_base is_cut]; try reflexivity.
  - destruct (is_meth M n); [reflexivity|]. destruct (prim_kind n); reflexivity.
  - destruct (is_kind2 (strip_quotes a)); reflexivity.
  - destruct p0; reflexivity.
Qed.

(* the flat instance *)
Definition conjs_agree := gconjs_agree (flat_call M) (dec_call M) call_sem carries_dec cut_dec.
Definition alts_agree := galts_agree (flat_call M) (dec_call M) call_sem carries_dec cut_dec.
End Step.

(* ---------- the theorem ---------- *)
Theorem flat_run_agrees : forall fuel n st v st', find_meth M n <> None ->
  RUN fuel n st = (Ok v, st') ->
  exists res, pitem (NameLeaf n) (pos st) res /\ agrees v st st' res.
Proof.
  induction fuel as [|f IH]; intros n st v st' Hn H; [discriminate|].
  cbn [run] in H. unfold run_meth in H. destruct (find_meth M n) as [m|] eqn:Em; [|congruence].
  pose proof (meth_flat m (find_meth_in n m Em)) as Hm. unfold flat_meth in Hm.
  apply andb_prop in Hm as [Hm Hal]. apply andb_prop in Hm as [Hm Hd]. apply andb_prop in Hm as [Hm Hl].
  apply andb_prop in Hm as [Hlp Hwi]. apply negb_true_iff in Hlp. apply negb_true_iff in Hwi. apply negb_true_iff in Hl.
  apply logged_inv in H as (st1 & H & Hp). destruct (m_deco m); try discriminate. rewrite memoize_off in H.
  unfold run_body in H. rewrite Hwi, Hl, Hlp in H.
  destruct (alts_agree (RUN f) (fun n0 st0 v0 st0' Hn0 H0 => IH n0 st0 v0 st0' Hn0 H0) m (pos st) (invalid st) Hwi
              (m_alts m) [] st v st1 Hal eq_refl eq_refl H) as (res & Hpa & Hr).
  exists res. split.
  - eapply P_rule; [exact (find_rule_dec n m Em)|]. cbn [rrhs dec_meth rhs_alts]. exact Hpa.
  - unfold agrees. rewrite Hp. destruct Hr as [[A B]|[A [B C]]]; [left; auto|right; auto].
Qed.
End Sem.

Definition flat_run_agrees' K toks M aeval ex td aevalP item_name forced_msg :=
  flat_run_agrees K toks M aeval ex td aevalP item_name forced_msg (dec_module M) eq_refl.
