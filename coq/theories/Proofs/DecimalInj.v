(* Decimal rendering is injective below 10^40 (the fuel of N_to_string): distinct helper numbers give distinct names. *)
From Coq Require Import List String Ascii NArith Bool Arith Lia.
From Pegen Require Import Base.StrUtil.
Import ListNotations.

Local Open Scope string_scope.

Lemma app_assoc_s (a b c : string) : (a ++ b) ++ c = a ++ (b ++ c).
Proof. induction a as [|x a IH]; cbn; [reflexivity|rewrite IH; reflexivity]. Qed.

Lemma snoc_inj (s1 s2 : string) (c1 c2 : ascii) : s1 ++ String c1 "" = s2 ++ String c2 "" -> s1 = s2 /\ c1 = c2.
Proof.
  revert s2. induction s1 as [|x s1 IH]; intros [|y s2]; cbn; intros H.
  - injection H as ->. split; reflexivity.
  - injection H as _ H. destruct s2; discriminate.
  - injection H as _ H. destruct s1; discriminate.
  - injection H as -> H. destruct (IH _ H) as [-> ->]. split; reflexivity.
Qed.

Lemma append_inj_l (p a b : string) : p ++ a = p ++ b -> a = b.
Proof. induction p as [|x p IH]; cbn; [auto|]. intros [= H]. exact (IH H). Qed.

Local Open Scope N_scope.

Lemma digit_char_inj a b : a < 10 -> b < 10 -> digit_char a = digit_char b -> a = b.
Proof.
  intros Ha Hb H. unfold digit_char in H.
  assert (E : N_of_ascii (ascii_of_N (48 + a)) = N_of_ascii (ascii_of_N (48 + b))) by (rewrite H; reflexivity).
  rewrite !N_ascii_embedding in E by lia. lia.
Qed.

Lemma render_app : forall fuel n acc, N_to_string_fuel fuel n acc = (N_to_string_fuel fuel n "" ++ acc)%string.
Proof.
  induction fuel as [|f IH]; intros n acc; cbn [N_to_string_fuel]; [reflexivity|].
  destruct (N.ltb n 10); [reflexivity|].
  rewrite (IH (n / 10) (String (digit_char (n mod 10)) acc)), (IH (n / 10) (String (digit_char (n mod 10)) "")).
  rewrite app_assoc_s. reflexivity.
Qed.

Lemma render_S f n : N_to_string_fuel (S f) n "" =
  if N.ltb n 10 then String (digit_char (n mod 10)) ""
  else (N_to_string_fuel f (n / 10) "" ++ String (digit_char (n mod 10)) "")%string.
Proof. cbn [N_to_string_fuel]. destruct (N.ltb n 10); [reflexivity|apply render_app]. Qed.

Lemma render_nonempty f n : N_to_string_fuel (S f) n "" <> ""%string.
Proof.
  rewrite render_S. destruct (N.ltb n 10); [discriminate|].
  destruct (N_to_string_fuel f (n / 10) ""); discriminate.
Qed.

Lemma pow10_S f : 10 ^ N.of_nat (S f) = 10 * 10 ^ N.of_nat f.
Proof. rewrite Nat2N.inj_succ, N.pow_succ_r'. reflexivity. Qed.

Lemma render_inj : forall f n m, n < 10 ^ N.of_nat f -> m < 10 ^ N.of_nat f ->
  N_to_string_fuel f n "" = N_to_string_fuel f m "" -> n = m.
Proof.
  induction f as [|f IH]; intros n m Hn Hm H.
  - cbn in Hn, Hm. lia.
  - rewrite pow10_S in Hn, Hm. rewrite !render_S in H.
    assert (Hdn : n mod 10 < 10) by (apply N.mod_lt; lia). assert (Hdm : m mod 10 < 10) by (apply N.mod_lt; lia).
    destruct (N.ltb_spec n 10) as [Ln|Ln]; destruct (N.ltb_spec m 10) as [Lm|Lm].
    + injection H as H. apply digit_char_inj in H; [|assumption|assumption]. rewrite !N.mod_small in H by assumption. exact H.
    + exfalso. change (String (digit_char (n mod 10)) "") with ("" ++ String (digit_char (n mod 10)) "")%string in H.
      apply snoc_inj in H as [H _]. destruct f as [|f]; [cbn in Hm; lia|]. symmetry in H. exact (render_nonempty _ _ H).
    + exfalso. change (String (digit_char (m mod 10)) "") with ("" ++ String (digit_char (m mod 10)) "")%string in H.
      apply snoc_inj in H as [H _]. destruct f as [|f]; [cbn in Hn; lia|]. exact (render_nonempty _ _ H).
    + apply snoc_inj in H as [H1 H2]. apply digit_char_inj in H2; [|assumption|assumption].
      assert (E : n / 10 = m / 10).
      { apply IH; [apply N.div_lt_upper_bound; lia|apply N.div_lt_upper_bound; lia|exact H1]. }
      rewrite (N.div_mod n 10), (N.div_mod m 10) by lia. rewrite E, H2. reflexivity.
Qed.

Definition small (k : nat) : Prop := N.of_nat k < 10 ^ 40.

Theorem nat_to_string_inj j k : small j -> small k -> nat_to_string j = nat_to_string k -> j = k.
Proof.
  unfold small, nat_to_string, N_to_string. intros Hj Hk H. apply Nat2N.inj.
  apply (render_inj 40); [exact Hj|exact Hk|exact H].
Qed.
