(* Semantic soundness of the nullable analysis: whatever the reference semantics can match
   without consuming input is nullable under every assignment closed under the equations. *)
From Coq Require Import List String NArith Bool Arith Lia.
From Pegen Require Import Base.StrUtil Base.Values Grammar.Ast Grammar.Induction Runtime.Tokenizer Sem.Peg
  Analysis.Visitor Proofs.VisitorSim Proofs.PegProofs Proofs.NullableProofs Proofs.InvalidProofs.
Import ListNotations.
Open Scope string_scope.

Section NS.
Variable tbl : list (string * bexp).

(* decidable conditions on the extracted NullableVisitor table: what each construct's equation
   must at least grant *)
Definition always_true (cls field : string) : bool :=
  pdispatch tbl cls [(field, PB true)] false && pdispatch tbl cls [(field, PB false)] false.
Definition passes (cls field : string) : bool := pdispatch tbl cls [(field, PB true)] false.
Definition is_all (cls field : string) : bool :=
  match assoc_s ("visit_" ++ cls) tbl with
  | Some (BAllLazy f) | Some (BAllEager f) => String.eqb f field
  | _ => false
  end.
Definition special (cls : string) : bool :=
  match assoc_s ("visit_" ++ cls) tbl with Some (BSpecial _) => true | _ => false end.
Definition nul_tbl_ok : bool :=
  always_true "Opt" "node" && always_true "Repeat0" "node" && always_true "PositiveLookahead" "node" &&
  always_true "NegativeLookahead" "node" && pdispatch tbl "Cut" [] false &&
  passes "Forced" "node" && passes "Group" "rhs" && passes "Repeat1" "node" &&
  pdispatch tbl "Gather" [("separator", PB true); ("node", PB true)] false &&
  pdispatch tbl "Gather" [("separator", PB false); ("node", PB true)] false &&
  is_any tbl "Rhs" "alts" && is_all "Alt" "items" && special "NamedItem" && special "NameLeaf".
Hypothesis Hok : nul_tbl_ok = true.

Variable K : kinds.
Variable rs : list rule.
Variable toks : list rtok.
Variable keywords soft_keywords : list string.
Variable aeval : alt -> list value -> list (string * value) -> nat -> nat -> option value.
Variable item_name : alt -> nat -> option string.
Variable forced_msg : item -> string.
Variable F : string -> bool.
Hypothesis HF : prefixed tbl rs F.

Notation pitem := (peg_item K rs toks keywords soft_keywords aeval item_name forced_msg).
Notation pstar := (peg_star K rs toks keywords soft_keywords aeval item_name forced_msg).
Notation psep := (peg_sep K rs toks keywords soft_keywords aeval item_name forced_msg).
Notation pseq := (peg_seq K rs toks keywords soft_keywords aeval item_name forced_msg).
Notation palts := (peg_alts K rs toks keywords soft_keywords aeval item_name forced_msg).
Notation nvi := (pv_item tbl (pleaf rs F)).
Notation nvn := (pv_nitem tbl (pleaf rs F)).
Notation nva := (pv_alt tbl (pleaf rs F)).
Notation mono := (mono_all K rs toks keywords soft_keywords aeval item_name forced_msg).

Lemma all_spec cls field bs : is_all cls field = true ->
  pdispatch tbl cls [(field, PL bs)] false = forallb (fun b => b) bs.
Proof.
  unfold is_all, pdispatch. destruct (assoc_s ("visit_" ++ cls) tbl) as [e|]; [|discriminate].
  destruct e; try discriminate; intros H; apply String.eqb_eq in H; subst; cbn; rewrite String.eqb_refl; reflexivity.
Qed.

Lemma always_spec cls field b : always_true cls field = true -> pdispatch tbl cls [(field, PB b)] false = true.
Proof. unfold always_true. intros H. apply andb_prop in H as [H1 H2]. destruct b; assumption. Qed.

Lemma special_spec cls en sp : special cls = true -> pdispatch tbl cls en sp = sp.
Proof. unfold special, pdispatch. destruct (assoc_s ("visit_" ++ cls) tbl) as [e|]; [|discriminate]. destruct e; try discriminate. reflexivity. Qed.

Lemma tok_step_consumes test p v p' : tok_step toks test p = PSucc v p' -> p' = S p.
Proof. unfold tok_step. destruct (nth_error toks p); [destruct (test r)|]; intros [= _ <-] || discriminate; reflexivity. Qed.

Theorem nullable_sem :
  (forall i p r, pitem i p r -> forall v, r = PSucc v p -> nvi i = true) /\
  (forall i p r, pstar i p r -> forall v vs, r = inl (v :: vs, p) -> nvi i = true) /\
  (forall s e p r, psep s e p r -> True) /\
  (forall a k ns p vals env cut r, pseq a k ns p vals env cut r -> forall vals' env', r = SSucc vals' env' p ->
     forallb (fun b => b) (map nvn ns) = true) /\
  (forall alts p r, palts alts p r -> forall v, r = PSucc v p -> existsb (fun b => b) (map nva alts) = true).
Proof.
  unfold nul_tbl_ok in Hok. do 13 (apply andb_prop in Hok as [Hok ?Hc]).
  apply peg_mutind; intros; subst; try discriminate; auto.
  all: try (match goal with Ht : tok_step _ _ _ = PSucc _ _ |- _ => apply tok_step_consumes in Ht; lia end).
  all: try (match goal with |- nvi (Opt ?i) = true => rewrite (pv_item_eq _ _ (Opt i)); apply always_spec; assumption end).
  all: try (match goal with |- nvi (Repeat0 ?id ?i) = true => rewrite (pv_item_eq _ _ (Repeat0 id i)); apply always_spec; assumption end).
  all: try (match goal with |- nvi (PosLook ?i) = true => rewrite (pv_item_eq _ _ (PosLook i)); apply always_spec; assumption end).
  all: try (match goal with |- nvi (NegLook ?i) = true => rewrite (pv_item_eq _ _ (NegLook i)); apply always_spec; assumption end).
  all: try (match goal with |- nvi Cut = true => rewrite pv_item_eq; assumption end).
  (* use the induction hypotheses whose premise is an equation that holds by reflexivity *)
  all: repeat match goal with
       | IH : forall v, PSucc ?a ?p = PSucc v ?p -> _ |- _ => specialize (IH _ eq_refl)
       | IH : forall vals' env', SSucc ?a ?b ?p = SSucc vals' env' ?p -> _ |- _ => specialize (IH _ _ eq_refl)
       end.
  - (* rule reference *)
    rewrite pv_item_eq, (special_spec "NameLeaf" _ _ Hc). unfold pleaf. rewrite H.
    apply (HF n r H). unfold pvr. destruct (rrhs r) as [id alts]. rewrite pv_rhs_eq, (any_spec tbl "Rhs" "alts" _ Hc2). exact H1.
  - (* group *)
    rewrite (pv_item_eq _ _ (Group r)). destruct r as [id alts]. rewrite pv_rhs_eq, (any_spec tbl "Rhs" "alts" _ Hc2).
    cbn [rhs_alts] in *. rewrite H0. exact Hc6.
  - (* [ alts ] *)
    rewrite (pv_item_eq _ _ (RhsItem r)). destruct r as [id alts]. rewrite pv_rhs_eq, (any_spec tbl "Rhs" "alts" _ Hc2).
    cbn [rhs_alts] in *. exact H0.
  - (* x+ *)
    rewrite (pv_item_eq _ _ (Repeat1 id i)).
    destruct res as [[[|w ws] q]|[m q]]; try discriminate. injection H1 as ? ?; subst.
    rewrite (H0 _ _ eq_refl). exact Hc5.
  - (* s.e+ *)
    rewrite (pv_item_eq _ _ (Gather id s e)).
    destruct res as [[ws q]|[m q]]; try discriminate. injection H3 as ? ?; subst.
    assert (p1 = p).
    { pose proof (proj1 mono _ _ _ H _ _ eq_refl). pose proof (proj1 (proj2 (proj2 mono)) _ _ _ _ H1 _ _ eq_refl). lia. }
    subst p1. rewrite (H0 _ eq_refl). destruct (nvi s); assumption.
  - (* && *)
    injection H1 as ? ?; subst. rewrite (pv_item_eq _ _ (Forced i)), (H0 _ eq_refl). exact Hc7.
  - (* repetition: first iteration did not consume *)
    destruct res as [[ws q]|[m q]]; try discriminate. injection H3 as ? ? ?; subst.
    assert (p1 = p).
    { pose proof (proj1 mono _ _ _ H _ _ eq_refl). pose proof (proj1 (proj2 mono) _ _ _ H1 _ _ eq_refl). lia. }
    subst p1. exact (H0 _ eq_refl).
  - (* sequence: failing item *) destruct cut; discriminate.
  - (* sequence: step *)
    assert (p1 = p).
    { pose proof (proj1 mono _ _ _ H _ _ eq_refl). pose proof (proj1 (proj2 (proj2 (proj2 mono))) _ _ _ _ _ _ _ _ H1 _ _ _ eq_refl). lia. }
    subst p1. cbn [map forallb]. rewrite (H2 _ _ eq_refl), andb_true_r.
    destruct n as [id nm ty it]. rewrite pv_nitem_eq, (special_spec "NamedItem" _ _ Hc0). cbn [ni_item] in *. exact (H0 _ eq_refl).
  - (* alternatives: this one matched *)
    match goal with E : PSucc _ _ = PSucc _ _ |- _ => injection E as ? ?; subst end.
    cbn [map existsb]. destruct a as [items act]. rewrite pv_alt_eq, (all_spec "Alt" "items" _ Hc1).
    cbn [alt_items] in *. rewrite (H0 _ _ eq_refl). reflexivity.
  - (* alternatives: a later one matched *)
    cbn [map existsb]. rewrite H2. apply orb_true_r.
Qed.
End NS.
