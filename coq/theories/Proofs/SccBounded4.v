(* All 65 536 digraphs on 4 vertices (self-loops included): increasing and decreasing adjacency
   order, increasing and decreasing vertex order.  (All adjacency orders of 4-vertex graphs are
   covered by the correspondence check K-scc against the implementation, not inside the kernel.) *)
From Coq Require Import List NArith Arith Bool.
From Pegen Require Import Analysis.Scc Proofs.SccBounded.
Import ListNotations.

Definition check4 (m : N) : bool :=
  forallb (fun vs =>
    check 4 vs (map (fun i => (i, adj_of 4 m i)) vs) &&
    check 4 vs (map (fun i => (i, rev (adj_of 4 m i))) vs)) [[0;1;2;3]; [3;2;1;0]].

Theorem scc_correct_4 : allN 65536 check4 0 = true.
Proof. vm_compute. reflexivity. Qed.
