(* C01, second fragment: the interpreter of the generated IR implements the PEG semantics also for REPETITIONS.
   A module now has plain methods (rules and _tmp helpers) and repetition helpers (_loop0_k / _loop1_k: one alternative,
   evaluated again and again).  Repetition helpers are read back INLINE at their call sites: `(self._loop0_k(),)` as
   Repeat0 over the body of the helper, `self._loop1_k()` as Repeat1.  Everything else as in Proofs/FlatSem.v, whose
   generic lemmas about conjunctions and alternatives (any admissible set of calls, any reading of calls) are reused at
   two levels: inside repetition bodies (no nested repetition: it would be a helper of its own reached through a _tmp
   rule) and in plain methods. *)
From Coq Require Import List String Ascii NArith ZArith Bool Arith Lia.
From Pegen Require Import Base.StrUtil Base.Values Grammar.Ast Runtime.Tokenizer Sem.Peg Gen.Gen Runtime.Exec
  Proofs.PegProofs Proofs.FlatSem.
Import ListNotations.
Open Scope string_scope.

Section Dec1.
Variable M : ir_module.

(* Some false: a zero-or-more helper; Some true: a one-or-more helper; None: a plain method or no method *)
Definition gshape (m : meth) : bool :=      (* the loop of a gather: two conjunctions, the action is `elem` *)
  match m_alts m with [a] => match a_conjs a with [_; _] => String.eqb (a_action a) "elem" | _ => false end | _ => false end.
Definition loopkind (n : string) : option bool :=
  match find_meth M n with
  | Some m => if m_loop m && negb (gshape m) then Some (is_loop1_name n) else None
  | None => None
  end.
Definition plain (n : string) : bool := match find_meth M n with Some m => negb (m_loop m) | None => false end.

(* level 0: what may occur inside a repetition body *)
Definition base_ok (c : call) : bool :=
  match c with
  | CMeth n => if is_meth M n then plain n else match prim_kind n with Some _ => true | None => false end
  | CExpect a => quoted_arg a
  | _ => false
  end.
(* a call under at most one wrapper, for any admissible set [okb] of unwrapped calls read back by [db] *)
Definition gwrap_ok (okb : call -> bool) (c : call) : bool :=
  match c with
  | CComma c' | CLook _ _ _ c' | CForced c' _ => okb c'
  | CTrue => true
  | _ => okb c
  end.
Definition gdec_wrap (db : call -> item) (c : call) : item :=
  match c with
  | CComma c' => Opt (db c')
  | CLook true _ _ c' => PosLook (db c')
  | CLook false _ _ c' => NegLook (db c')
  | CForced c' _ => Forced (db c')
  | CTrue => Cut
  | _ => db c
  end.
Definition call0_ok (c : call) : bool := gwrap_ok base_ok c.
Definition body_of (l : string) : item :=
  match find_meth M l with
  | Some m => match m_alts m with [a] => Group (Rhs 0 [gdec_alt (dec_call M) a]) | _ => Cut end
  | None => Cut
  end.
(* level 1: plain methods may also call repetition helpers: a one-or-more helper wherever a rule may be called (bare, or
   under an optional, a lookahead, a forced item), a zero-or-more helper as `self._loop0_k(),` *)
Definition b1_ok (c : call) : bool :=
  match c with
  | CMeth l => match loopkind l with Some true => true | Some false => false | None => base_ok c end
  | _ => base_ok c
  end.
Definition dec_b1 (c : call) : item :=
  match c with
  | CMeth l => match loopkind l with Some true => Repeat1 0 (body_of l) | _ => dec_base M c end
  | _ => dec_base M c
  end.
Definition dec_call1 (c : call) : item :=
  match c with
  | CComma (CMeth l) => match loopkind l with Some false => Repeat0 0 (body_of l) | _ => gdec_wrap dec_b1 c end
  | _ => gdec_wrap dec_b1 c
  end.
Definition call1_ok (c : call) : bool :=
  match c with
  | CComma (CMeth l) => match loopkind l with Some false => true | _ => gwrap_ok b1_ok c end
  | _ => gwrap_ok b1_ok c
  end.
Definition deco_ok (d : deco) : bool := match d with DMemoLeftRec => false | _ => true end.

(* gathers: `s.e+` is a helper  _gather_k: elem=e seq=_loop0_j { [elem] + seq }  with  _loop0_j: s elem=e { elem } *)
Fixpoint call_eqb (a b : call) : bool :=
  match a, b with
  | CMeth x, CMeth y => String.eqb x y
  | CExpect x, CExpect y => String.eqb x y
  | CComma x, CComma y => call_eqb x y
  | CLook p1 h1 t1 x, CLook p2 h2 t2 y => Bool.eqb p1 p2 && String.eqb h1 h2 && String.eqb t1 t2 && call_eqb x y
  | CTrue, CTrue => true
  | CForced x m1, CForced y m2 => call_eqb x y && String.eqb m1 m2
  | _, _ => false
  end.
Lemma call_eqb_eq a : forall b, call_eqb a b = true -> a = b.
Proof.
  induction a as [x|x|x IH|p1 h1 t1 x IH| |x IH m1]; intros [y|y|y|p2 h2 t2 y| |y m2]; cbn [call_eqb]; try discriminate; intros H.
  - apply String.eqb_eq in H. congruence.
  - apply String.eqb_eq in H. congruence.
  - rewrite (IH y H). reflexivity.
  - apply andb_prop in H as [H H4]. apply andb_prop in H as [H H3]. apply andb_prop in H as [H1 H2].
    apply Bool.eqb_prop in H1. apply String.eqb_eq in H2. apply String.eqb_eq in H3. rewrite (IH y H4). congruence.
  - reflexivity.
  - apply andb_prop in H as [H1 H2]. apply String.eqb_eq in H2. rewrite (IH y H1). congruence.
Qed.
(* the loop of a gather: separator, then the element bound to `elem`, which is the value *)
Definition gloop_parts (m : meth) : option (call * call) :=
  match m_alts m with
  | [a] => match a_conjs a with
           | [cs; ce] =>
               if m_loop m && negb (m_without_invalid m) && negb (m_locations m) && deco_ok (m_deco m) &&
                  negb (a_guard a) && negb (a_has_cut a) && negb (a_locations a) && String.eqb (a_action a) "elem" &&
                  base_ok (cj_call cs) && base_ok (cj_call ce) && negb (cj_notnone cs) && negb (cj_notnone ce) &&
                  match cj_var ce with Some x => String.eqb x "elem" | None => false end &&
                  match cj_var cs with Some x => negb (String.eqb x "elem") | None => true end &&
                  negb (is_loop1_name (m_name m))
               then Some (cj_call cs, cj_call ce) else None
           | _ => None
           end
  | _ => None
  end.
Definition gloop_of (n : string) : option (call * call) :=
  match find_meth M n with Some m => gloop_parts m | None => None end.
Definition gather_parts (m : meth) : option (call * call) :=
  match m_alts m with
  | [a] => match a_conjs a with
           | [ce; cq] =>
               match cj_call cq with
               | CMeth j =>
                   match gloop_of j with
                   | Some (s, e) =>
                       if negb (m_loop m) && negb (m_without_invalid m) && negb (m_locations m) && deco_ok (m_deco m) &&
                          negb (a_guard a) && negb (a_has_cut a) && negb (a_locations a) && String.eqb (a_action a) "[elem] + seq" &&
                          base_ok (cj_call ce) && call_eqb (cj_call ce) e && cj_notnone ce && cj_notnone cq &&
                          match cj_var ce with Some x => String.eqb x "elem" | None => false end &&
                          match cj_var cq with Some x => String.eqb x "seq" | None => false end
                       then Some (s, e) else None
                   | None => None
                   end
               | _ => None
               end
           | _ => None
           end
  | _ => None
  end.
Definition loop_ok (m : meth) : bool :=
  negb (m_without_invalid m) && negb (m_locations m) && deco_ok (m_deco m) &&
  match m_alts m with [a] => galt_ok call0_ok a && negb (a_has_cut a) | _ => false end.
Definition plain_ok (m : meth) : bool :=
  negb (m_without_invalid m) && negb (m_locations m) && deco_ok (m_deco m) && forallb (galt_ok2 call1_ok) (m_alts m).
Definition is_some {A} (o : option A) : bool := match o with Some _ => true | None => false end.
Definition meth_ok1 (m : meth) : bool :=
  if m_loop m then (if gshape m then is_some (gloop_parts m) else loop_ok m)
  else is_some (gather_parts m) || plain_ok m.
Definition ir_ok : bool := forallb meth_ok1 (i_meths M) && no_kind_method M.

Definition dec_meth1 (m : meth) : rule :=
  {| rname := m_name m; rtype := None;
     rrhs := match gather_parts m with
             | Some (s, e) => Rhs 0 [Alt [NItem 0 None None (Gather 0 (dec_call M s) (dec_call M e))] None]
             | None => Rhs 0 (map (gdec_alt2 dec_call1) (m_alts m))
             end;
     rmemo := false |}.
Definition dec_module1 : list rule := map dec_meth1 (filter (fun m => negb (m_loop m)) (i_meths M)).
(* the alternatives of plain methods: the ones whose explicit actions the hypotheses below speak about *)
Definition plain_alt (a : ialt) : Prop :=
  exists m, In m (i_meths M) /\ m_loop m = false /\ gather_parts m = None /\ In a (m_alts m).
(* no plain method has an alternative with an explicit action (then those hypotheses are void) *)
Definition no_explicit : bool :=
  forallb (fun m => m_loop m || is_some (gather_parts m) || forallb (fun a => negb (a_explicit a)) (m_alts m)) (i_meths M).
End Dec1.

Section Sem1.
Variable K : kinds.
Variable toks : list rtok.
Variable M : ir_module.
Variable aeval : string -> env -> option value.
Variable ex td : list (string * N).
Variable aevalP : alt -> list value -> list (string * value) -> nat -> nat -> option value.
Variable item_name : alt -> nat -> option string.
Variable forced_msg : item -> string.

Notation rs := (dec_module1 M).
Notation kw := (i_keywords M).
Notation soft := (i_soft_keywords M).
Notation pitem := (peg_item K rs toks kw soft aevalP item_name forced_msg).
Notation pstar := (peg_star K rs toks kw soft aevalP item_name forced_msg).
Notation psep := (peg_sep K rs toks kw soft aevalP item_name forced_msg).
Notation pseq := (peg_seq K rs toks kw soft aevalP item_name forced_msg).
Notation palts := (peg_alts K rs toks kw soft aevalP item_name forced_msg).
Notation RUN := (run K toks false false M aeval ex td).
Notation rcall := (run_call K toks false false M ex td).
Notation rconjs := (run_conjs K toks false false M ex td).
Notation ralts := (run_alts K toks false false M aeval ex td).
Notation rloop := (run_loop K toks false false M aeval ex td).

Hypothesis Hok : ir_ok M = true.
Hypothesis Haeval : forall xs e vs, nodup_s xs = true -> Forall2 (fun x v => env_get e x = Some v) xs vs ->
  aeval (default_text xs) e = Some (match vs with [v] => v | _ => VList vs end).
(* ... and the action of a gather helper *)
Hypothesis Hgact : forall e v vs, env_get e "elem" = Some v -> env_get e "seq" = Some (VList vs) ->
  aeval "[elem] + seq" e = Some (VList (v :: vs)).
(* explicit actions: the reference semantics evaluates the action text in the environment of the alternative's named
   items; earlier alternatives' leftovers do not matter once the alternative has bound its own names; no falsy value *)
Hypothesis HactP : forall alt ac vals env s e, alt_action alt = Some ac -> aevalP alt vals env s e = aeval (atext ac) env.
Hypothesis Hnmi : forall a k, item_name a k = match nth_error (alt_items a) k with Some n => ni_name n | None => None end.
Hypothesis Hstale : forall a, plain_alt M a -> a_explicit a = true -> forall e1 e0,
  (forall x, In x (conj_vars (a_conjs a)) -> env_get e1 x <> None) -> aeval (a_action a) (e1 ++ e0)%list = aeval (a_action a) e1.
Hypothesis Htruthy : forall a, plain_alt M a -> a_explicit a = true -> forall e v, aeval (a_action a) e = Some v -> truthy v = true.
Hypothesis Hlit : forall s t, In t toks -> is_kind2 s = false -> expect_test K ex td s t = String.eqb (tstr t) s.
Hypothesis Hkind : forall s t, In t toks -> is_kind2 s = true -> expect_test K ex td s t = kind2_test K M s t.

(* what a method's answer means, by the kind of the method *)
Definition Spec (n : string) (v : value) (st st' : pstate) : Prop :=
  match find_meth M n with
  | None => True
  | Some m =>
      if m_loop m
      then if gshape m
           then match gloop_parts M m with
                | Some (s, e) => exists vs p', psep (dec_call M s) (dec_call M e) (pos st) (inl (vs, p')) /\ v = VList vs /\ pos st' = p'
                | None => True
                end
           else exists vs p', pstar (body_of M n) (pos st) (inl (vs, p')) /\
             (if is_loop1_name n
              then (vs <> [] /\ v = VList vs /\ pos st' = p') \/ (vs = [] /\ v = VNone /\ pos st' = pos st)
              else v = VList vs /\ pos st' = p')
      else exists res, pitem (NameLeaf n) (pos st) res /\ agrees v st st' res
  end.

(* ... and what a SyntaxError raised by a method (a forced item failed) means *)
Definition SpecR (n : string) (st : pstate) : Prop :=
  match find_meth M n with
  | None => True
  | Some m =>
      if m_loop m
      then if gshape m
           then match gloop_parts M m with
                | Some (s, e) => exists msg q, psep (dec_call M s) (dec_call M e) (pos st) (inr (msg, q))
                | None => True
                end
           else exists msg q, pstar (body_of M n) (pos st) (inr (msg, q))
      else exists msg q, pitem (NameLeaf n) (pos st) (PErr msg q)
  end.

Lemma logged_raise name la f st x st' : logged name la f st = (Raise x, st') -> f st = (Raise x, st').
Proof. unfold logged. destruct (f st) as [[w|y|] st1]; intros H; try discriminate H; exact H. Qed.

Lemma find_meth_name n m : find_meth M n = Some m -> m_name m = n.
Proof. unfold find_meth. intros H. apply find_some in H as [_ H]. apply String.eqb_eq in H. exact H. Qed.
Lemma find_meth_in1 n m : find_meth M n = Some m -> In m (i_meths M).
Proof. unfold find_meth. intros H. apply find_some in H. exact (proj1 H). Qed.

Lemma find_rule_dec1 n m : find_meth M n = Some m -> m_loop m = false -> find_rule rs n = Some (dec_meth1 M m).
Proof.
  unfold find_meth, dec_module1. induction (i_meths M) as [|m0 l IH]; cbn [find filter]; [discriminate|].
  destruct (String.eqb (m_name m0) n) eqn:E.
  - intros [= <-] Hl. rewrite Hl. cbn [negb map find_rule rname dec_meth1]. rewrite E. reflexivity.
  - intros H Hl. destruct (negb (m_loop m0)); [|exact (IH H Hl)]. cbn [map find_rule rname dec_meth1]. rewrite E. exact (IH H Hl).
Qed.
Lemma find_rule_dec1_none n : find_meth M n = None -> find_rule rs n = None.
Proof.
  unfold find_meth, dec_module1. induction (i_meths M) as [|m0 l IH]; cbn [find filter]; [reflexivity|].
  destruct (String.eqb (m_name m0) n) eqn:E; [discriminate|]. intros H.
  destruct (negb (m_loop m0)); [|exact (IH H)]. cbn [map find_rule rname dec_meth1]. rewrite E. exact (IH H).
Qed.

Lemma kind_not_meth1 k : mem_str k (("SOFT_KEYWORD" :: TOKS1) ++ TOKS2)%list = true -> find_meth M k = None.
Proof.
  intros Hk. pose proof Hok as H. unfold ir_ok in H. apply andb_prop in H as [_ H]. unfold no_kind_method in H.
  rewrite forallb_forall in H. unfold mem_str in Hk. apply existsb_exists in Hk as (x & Hx & E). apply String.eqb_eq in E. subst x.
  specialize (H k Hx). unfold is_meth in H. destruct (find_meth M k); [discriminate|reflexivity].
Qed.

Section Step1.
Variable rec : string -> pstate -> R.
Hypothesis Hrec : forall n st v st', rec n st = (Ok v, st') -> Spec n v st st'.

(* a plain call *)
Lemma base1_agrees c st v st' : base_ok M c = true -> rcall rec c st = (Ok v, st') ->
  exists res, pitem (dec_base M c) (pos st) res /\ agrees v st st' res.
Proof.
  intros Hf H. destruct c as [n|a| | | |]; try discriminate; cbn [run_call] in H.
  - cbn [dec_base base_ok] in *. unfold is_meth in *. destruct (find_meth M n) as [m|] eqn:Em.
    + pose proof (Hrec n st v st' H) as Hs. unfold Spec in Hs. rewrite Em in Hs. unfold plain in Hf. rewrite Em in Hf.
      apply negb_true_iff in Hf. rewrite Hf in Hs. exact Hs.
    + destruct (prim_test K M n) as [test|] eqn:Ep; [|discriminate].
      destruct (prim_corr K M n test Ep) as (kind & Ek & Hmem & Hkm). rewrite Ek.
      apply logged_inv in H as (st1 & H & Hp). rewrite memoize_off in H.
      exists (tok_step toks test (pos st)). split.
      * apply P_token; [|exact Hkm]. apply find_rule_dec1_none. apply kind_not_meth1.
        unfold mem_str in *. rewrite existsb_app. rewrite Hmem. reflexivity.
      * pose proof (prim_tok_agrees toks _ _ _ _ H) as A. unfold agrees in *. rewrite Hp. exact A.
  - cbn [base_ok] in Hf. unfold py_arg in H. destruct a as [|c a']; [discriminate|]. cbn [quoted_arg] in Hf. rewrite Hf in H.
    set (raw := String c a') in *. set (s := strip_quotes raw) in *.
    apply logged_inv in H as (st1 & H & Hp). rewrite memoize_off in H.
    pose proof (prim_tok_agrees toks _ _ _ _ H) as A. cbn [dec_base]. fold raw. fold s.
    destruct (is_kind2 s) eqn:Ek.
    + exists (tok_step toks (kind2_test K M s) (pos st)). split.
      * apply P_token.
        -- apply find_rule_dec1_none. apply kind_not_meth1. unfold is_kind2 in Ek. unfold mem_str in *. rewrite existsb_app, Ek. apply orb_true_r.
        -- intros t. unfold kind2_test. unfold is_kind2, TOKS2, mem_str in Ek. cbn [existsb] in Ek.
           repeat (apply orb_prop in Ek as [Ek|Ek]; [apply String.eqb_eq in Ek; rewrite Ek; reflexivity|]). discriminate.
      * rewrite <- (tok_step_ext_in toks (expect_test K ex td s) (kind2_test K M s) (pos st) (fun t Ht => Hkind s t Ht Ek)).
        unfold agrees in *. rewrite Hp. exact A.
    + exists (tok_step toks (fun t => String.eqb (tstr t) (strip_quotes raw)) (pos st)). split; [apply P_lit|].
      assert (Eq : tok_step toks (expect_test K ex td s) (pos st) =
                   tok_step toks (fun t => String.eqb (tstr t) (strip_quotes raw)) (pos st)).
      { apply tok_step_ext_in. intros t Ht. exact (Hlit s t Ht Ek). }
      rewrite <- Eq. unfold agrees in *. rewrite Hp. exact A.
Qed.

Hypothesis HrecR : forall n st ea t st', rec n st = (Raise (XSyntaxError ea t), st') -> SpecR n st.

Lemma base1_raises c st ea t st' : base_ok M c = true -> rcall rec c st = (Raise (XSyntaxError ea t), st') ->
  exists msg q, pitem (dec_base M c) (pos st) (PErr msg q).
Proof.
  intros Hf H. destruct c as [n|a| | | |]; try discriminate; cbn [run_call] in H.
  - cbn [dec_base base_ok] in *. unfold is_meth in *. destruct (find_meth M n) as [m|] eqn:Em.
    + pose proof (HrecR n st ea t st' H) as Hs. unfold SpecR in Hs. rewrite Em in Hs. unfold plain in Hf. rewrite Em in Hf.
      apply negb_true_iff in Hf. rewrite Hf in Hs. exact Hs.
    + destruct (prim_test K M n) as [test|] eqn:Ep; [|discriminate].
      apply logged_raise in H. rewrite memoize_off in H. unfold prim_tok in H.
      destruct (peek toks st) as [[tk|] st0]; [destruct (test tk)|]; discriminate H.
  - cbn [base_ok] in Hf. unfold py_arg in H. destruct a as [|c a']; [discriminate|]. cbn [quoted_arg] in Hf. rewrite Hf in H.
    apply logged_raise in H. rewrite memoize_off in H. unfold prim_tok in H.
    match type of H with context [peek toks st] => destruct (peek toks st) as [[tk|] st0] end;
      [match type of H with context [if ?b then _ else _] => destruct b end|]; discriminate H.
Qed.

(* a call under one wrapper, for any family of unwrapped calls that agree with the semantics *)
Section Wrap.
Variable okb : call -> bool.
Variable db : call -> item.
Hypothesis Hshape : forall c, okb c = true -> match c with CMeth _ | CExpect _ => True | _ => False end.
Hypothesis Hb : forall c st v st', okb c = true -> rcall rec c st = (Ok v, st') ->
  exists res, pitem (db c) (pos st) res /\ agrees v st st' res.
Hypothesis Hval : forall c, okb c = true -> is_lookahead (db c) = false /\ is_cut (db c) = false.

Lemma wrap_sem c st w st' : gwrap_ok okb c = true -> rcall rec c st = (Ok w, st') ->
  exists res, pitem (gdec_wrap db c) (pos st) res /\
    ((truthy w = true /\ res = PSucc (bound_of c w) (pos st')) \/ (truthy w = false /\ res = PFail)).
Proof.
  intros Hf H. destruct c as [n|a|c'|pos0 hd tl c'| |c' msg].
  - destruct (Hb _ _ _ _ Hf H) as (res & Hp & [[A B]|[A [B C]]]); exists res; (split; [exact Hp|]); [left|right; subst w]; auto.
  - destruct (Hb _ _ _ _ Hf H) as (res & Hp & [[A B]|[A [B C]]]); exists res; (split; [exact Hp|]); [left|right; subst w]; auto.
  - cbn [gwrap_ok] in Hf. cbn [run_call] in H. unfold bind_r in H.
    destruct (rcall rec c' st) as [[v| |] st1] eqn:Ec; try discriminate. injection H as <- <-.
    destruct (Hb _ _ _ _ Hf Ec) as (res & Hp & [[A B]|[A [B C]]]); subst res.
    + exists (PSucc v (pos st1)). split; [cbn [gdec_wrap]; apply P_opt_some; exact Hp|]. left. split; reflexivity.
    + subst v. exists (PSucc VNone (pos st)). split; [cbn [gdec_wrap]; apply P_opt_none; exact Hp|]. left. rewrite C. split; reflexivity.
  - cbn [gwrap_ok] in Hf. cbn [run_call] in H. pose proof (Hshape _ Hf) as Hs.
    destruct c' as [n|a| | | |]; try contradiction.
    all: apply logged_inv in H as (st2 & H & Hp); unfold bind_r in H.
    all: match type of H with (match ?r with _ => _ end) = _ => destruct r as [[v| |] st1] eqn:Ec; try discriminate end.
    all: injection H as <- <-; cbn [pos with_pos] in Hp.
    all: destruct (Hb _ _ _ _ Hf Ec) as (res & Hpi & [[A B]|[A [B C]]]); subst res.
    all: destruct pos0; cbn [gdec_wrap bound_of].
    all: try (rewrite A).
    + exists (PSucc v (pos st)). split; [eapply P_pos_ok; exact Hpi|]. left. rewrite Hp. auto.
    + exists PFail. split; [eapply P_neg_fail; exact Hpi|]. right. auto.
    + subst v. exists PFail. split; [apply P_pos_fail; exact Hpi|]. right. auto.
    + subst v. exists (PSucc VTrue (pos st)). split; [apply P_neg_ok; exact Hpi|]. left. rewrite Hp. auto.
    + exists (PSucc v (pos st)). split; [eapply P_pos_ok; exact Hpi|]. left. rewrite Hp. auto.
    + exists PFail. split; [eapply P_neg_fail; exact Hpi|]. right. auto.
    + subst v. exists PFail. split; [apply P_pos_fail; exact Hpi|]. right. auto.
    + subst v. exists (PSucc VTrue (pos st)). split; [apply P_neg_ok; exact Hpi|]. left. rewrite Hp. auto.
  - cbn [run_call] in H. injection H as <- <-. exists (PSucc VTrue (pos st)). split; [apply P_cut|]. left. auto.
  - cbn [gwrap_ok] in Hf. cbn [run_call] in H. unfold bind_r in H.
    destruct (rcall rec c' st) as [[v| |] st1] eqn:Ec; try discriminate.
    destruct (Hb _ _ _ _ Hf Ec) as (res & Hp & [[A B]|[A [B C]]]); subst res.
    + assert (w = v /\ st' = st1) as [-> ->] by (destruct v; try discriminate A; injection H as <- <-; auto).
      exists (PSucc v (pos st1)). split; [cbn [gdec_wrap]; apply P_forced_ok; exact Hp|]. left. auto.
    + subst v. destruct (diagnose toks st1); discriminate.
Qed.

Lemma wrap_carries c : gwrap_ok okb c = true -> carries c = negb (is_lookahead (gdec_wrap db c) || is_cut (gdec_wrap db c)).
Proof.
  destruct c as [n|a|c'|p0 hd tl c'| |c' msg]; intros Hf; cbn [carries gdec_wrap]; try reflexivity.
  - destruct (Hval _ Hf) as [A B]. rewrite A, B. reflexivity.
  - destruct (Hval _ Hf) as [A B]. rewrite A, B. reflexivity.
  - destruct p0; reflexivity.
Qed.
Lemma wrap_cut c : gwrap_ok okb c = true -> is_cut (gdec_wrap db c) = is_cut_call c.
Proof.
  destruct c as [n|a|c'|p0 hd tl c'| |c' msg]; intros Hf; cbn [gdec_wrap is_cut_call is_cut]; try reflexivity.
  - exact (proj2 (Hval _ Hf)).
  - exact (proj2 (Hval _ Hf)).
  - destruct p0; reflexivity.
Qed.
Hypothesis HbR : forall c st ea t st', okb c = true -> rcall rec c st = (Raise (XSyntaxError ea t), st') ->
  exists msg q, pitem (db c) (pos st) (PErr msg q).
Lemma wrap_raises c st ea t st' : gwrap_ok okb c = true -> rcall rec c st = (Raise (XSyntaxError ea t), st') ->
  exists msg q, pitem (gdec_wrap db c) (pos st) (PErr msg q).
Proof.
  intros Hf H. destruct c as [n|a|c'|pos0 hd tl c'| |c' msg0].
  - exact (HbR _ _ _ _ _ Hf H).
  - exact (HbR _ _ _ _ _ Hf H).
  - cbn [gwrap_ok] in Hf. cbn [run_call] in H. unfold bind_r in H.
    destruct (rcall rec c' st) as [[v|x|] st1] eqn:Ec; try discriminate H. injection H as -> <-.
    destruct (HbR _ _ _ _ _ Hf Ec) as (msg & q & Hp). exists msg, q. cbn [gdec_wrap]. apply P_opt_err. exact Hp.
  - cbn [gwrap_ok] in Hf. cbn [run_call] in H. pose proof (Hshape _ Hf) as Hs.
    destruct c' as [n|a| | | |]; try contradiction.
    all: apply logged_raise in H; unfold bind_r in H.
    all: match type of H with (match ?r with _ => _ end) = _ => destruct r as [[v|x|] st1] eqn:Ec; try discriminate H end.
    all: injection H as -> <-.
    all: destruct (HbR _ _ _ _ _ Hf Ec) as (msg & q & Hp); exists msg, q.
    all: destruct pos0; cbn [gdec_wrap]; [apply P_pos_err|apply P_neg_err]; exact Hp.
  - cbn [run_call] in H. discriminate H.
  - cbn [gwrap_ok] in Hf. cbn [run_call] in H. unfold bind_r in H.
    destruct (rcall rec c' st) as [[v|x|] st1] eqn:Ec; try discriminate H.
    + destruct (Hb _ _ _ _ Hf Ec) as (res & Hp & [[A B]|[A [B C]]]); subst res.
      * destruct v; try discriminate A; discriminate H.
      * exists (forced_msg (db c')), (pos st). cbn [gdec_wrap]. apply P_forced_fail. exact Hp.
    + injection H as -> <-. destruct (HbR _ _ _ _ _ Hf Ec) as (msg & q & Hp). exists msg, q. cbn [gdec_wrap]. apply P_forced_err. exact Hp.
Qed.
End Wrap.

Lemma dec_call_wrap c : dec_call M c = gdec_wrap (dec_base M) c.
Proof. destruct c as [n|a|c'|p0 hd tl c'| |c' msg]; try reflexivity. Qed.
Lemma base_shape c : base_ok M c = true -> match c with CMeth _ | CExpect _ => True | _ => False end.
Proof. destruct c; try discriminate; intros _; exact I. Qed.
Lemma base_val c : base_ok M c = true -> is_lookahead (dec_base M c) = false /\ is_cut (dec_base M c) = false.
Proof.
  destruct c as [n|a| | | |]; try discriminate; intros _; cbn [dec_base].
  - destruct (is_meth M n); [split; reflexivity|]. destruct (prim_kind n); split; reflexivity.
  - destruct (is_kind2 (strip_quotes a)); split; reflexivity.
Qed.

Lemma call0_sem c st w st' : call0_ok M c = true -> rcall rec c st = (Ok w, st') ->
  exists res, pitem (dec_call M c) (pos st) res /\
    ((truthy w = true /\ res = PSucc (bound_of c w) (pos st')) \/ (truthy w = false /\ res = PFail)).
Proof. rewrite dec_call_wrap. exact (wrap_sem (base_ok M) (dec_base M) base_shape base1_agrees c st w st'). Qed.
Lemma carries0 c : call0_ok M c = true -> carries c = negb (is_lookahead (dec_call M c) || is_cut (dec_call M c)).
Proof. rewrite dec_call_wrap. exact (wrap_carries (base_ok M) (dec_base M) base_val c). Qed.
Lemma cut0 c : call0_ok M c = true -> is_cut (dec_call M c) = is_cut_call c.
Proof. rewrite dec_call_wrap. exact (wrap_cut (base_ok M) (dec_base M) base_val c). Qed.

(* level 1: a plain call or a one-or-more helper *)
Lemma b1_shape c : b1_ok M c = true -> match c with CMeth _ | CExpect _ => True | _ => False end.
Proof. destruct c; try discriminate; intros _; exact I. Qed.
Lemma b1_val c : b1_ok M c = true -> is_lookahead (dec_b1 M c) = false /\ is_cut (dec_b1 M c) = false.
Proof.
  destruct c as [n|a| | | |]; try discriminate; cbn [b1_ok dec_b1]; [|exact (base_val (CExpect a))].
  destruct (loopkind M n) as [[|]|]; [split; reflexivity|discriminate|exact (base_val (CMeth n))].
Qed.
Lemma b1_agrees c st v st' : b1_ok M c = true -> rcall rec c st = (Ok v, st') ->
  exists res, pitem (dec_b1 M c) (pos st) res /\ agrees v st st' res.
Proof.
  intros Hf H. destruct c as [n|a| | | |]; try discriminate; [|exact (base1_agrees _ _ _ _ Hf H)].
  cbn [b1_ok dec_b1] in *. destruct (loopkind M n) as [[|]|] eqn:Ek; try discriminate; [|exact (base1_agrees _ _ _ _ Hf H)].
  unfold loopkind in Ek. destruct (find_meth M n) as [m|] eqn:Em; [|discriminate].
  destruct (m_loop m) eqn:El; [|discriminate]. destruct (gshape m) eqn:Eg; [discriminate|]. cbn [andb negb] in Ek. injection Ek as E1.
  cbn [run_call] in H. rewrite Em in H. pose proof (Hrec n st v st' H) as Hs. unfold Spec in Hs. rewrite Em, El, Eg, E1 in Hs.
  destruct Hs as (vs & p' & Hstar & [[Hne [-> Hp]]|[-> [-> Hp]]]).
  - exists (PSucc (VList vs) (pos st')). split.
    + pose proof (P_rep1 K rs toks kw soft aevalP item_name forced_msg 0 (body_of M n) (pos st) _ Hstar) as Hr.
      destruct vs as [|v0 vs']; [congruence|]. rewrite Hp. exact Hr.
    + left. split; [destruct vs; [congruence|reflexivity]|reflexivity].
  - exists PFail. split; [|right; auto].
    exact (P_rep1 K rs toks kw soft aevalP item_name forced_msg 0 (body_of M n) (pos st) _ Hstar).
Qed.

Lemma call1_split c : (exists l, c = CComma (CMeth l) /\ loopkind M l = Some false /\ dec_call1 M c = Repeat0 0 (body_of M l)) \/
  (dec_call1 M c = gdec_wrap (dec_b1 M) c /\ call1_ok M c = gwrap_ok (b1_ok M) c).
Proof.
  destruct c as [n|a|c'|p0 hd tl c'| |c' msg]; try (right; split; reflexivity).
  destruct c' as [l|a0| | | |]; try (right; split; reflexivity).
  cbn [dec_call1 call1_ok]. destruct (loopkind M l) as [[|]|] eqn:Ek; try (right; split; reflexivity).
  left. exists l. auto.
Qed.

Lemma call1_sem c st w st' : call1_ok M c = true -> rcall rec c st = (Ok w, st') ->
  exists res, pitem (dec_call1 M c) (pos st) res /\
    ((truthy w = true /\ res = PSucc (bound_of c w) (pos st')) \/ (truthy w = false /\ res = PFail)).
Proof.
  intros Hf H. destruct (call1_split c) as [(l & -> & Ek & ->)|[-> E2]].
  - (* (self._loop0_k(),) *)
    unfold loopkind in Ek. destruct (find_meth M l) as [m|] eqn:Em; [|discriminate].
    destruct (m_loop m) eqn:El; [|discriminate]. destruct (gshape m) eqn:Eg; [discriminate|]. cbn [andb negb] in Ek. injection Ek as E1.
    cbn [run_call] in H. rewrite Em in H. unfold bind_r in H. destruct (rec l st) as [[v| |] st1] eqn:Er; try discriminate.
    injection H as <- <-. pose proof (Hrec l st v st1 Er) as Hs. unfold Spec in Hs. rewrite Em, El, Eg, E1 in Hs.
    destruct Hs as (vs & p' & Hstar & -> & Hp).
    exists (PSucc (VList vs) (pos st1)). split; [|left; split; reflexivity].
    rewrite Hp. exact (P_rep0 K rs toks kw soft aevalP item_name forced_msg 0 (body_of M l) (pos st) _ Hstar).
  - rewrite E2 in Hf. exact (wrap_sem (b1_ok M) (dec_b1 M) b1_shape b1_agrees c st w st' Hf H).
Qed.

Lemma carries1 c : call1_ok M c = true -> carries c = negb (is_lookahead (dec_call1 M c) || is_cut (dec_call1 M c)).
Proof.
  intros Hf. destruct (call1_split c) as [(l & -> & Ek & ->)|[-> E2]]; [reflexivity|].
  rewrite E2 in Hf. exact (wrap_carries (b1_ok M) (dec_b1 M) b1_val c Hf).
Qed.
Lemma cut1 c : call1_ok M c = true -> is_cut (dec_call1 M c) = is_cut_call c.
Proof.
  intros Hf. destruct (call1_split c) as [(l & -> & Ek & ->)|[-> E2]]; [reflexivity|].
  rewrite E2 in Hf. exact (wrap_cut (b1_ok M) (dec_b1 M) b1_val c Hf).
Qed.

(* the same three levels for SyntaxError *)
Lemma call0_raises c st ea t st' : call0_ok M c = true -> rcall rec c st = (Raise (XSyntaxError ea t), st') ->
  exists msg q, pitem (dec_call M c) (pos st) (PErr msg q).
Proof. rewrite dec_call_wrap. exact (wrap_raises (base_ok M) (dec_base M) base_shape base1_agrees base1_raises c st ea t st'). Qed.
Lemma b1_raises c st ea t st' : b1_ok M c = true -> rcall rec c st = (Raise (XSyntaxError ea t), st') ->
  exists msg q, pitem (dec_b1 M c) (pos st) (PErr msg q).
Proof.
  intros Hf H. destruct c as [n|a| | | |]; try discriminate; [|exact (base1_raises _ _ _ _ _ Hf H)].
  cbn [b1_ok dec_b1] in *. destruct (loopkind M n) as [[|]|] eqn:Ek; try discriminate; [|exact (base1_raises _ _ _ _ _ Hf H)].
  unfold loopkind in Ek. destruct (find_meth M n) as [m|] eqn:Em; [|discriminate].
  destruct (m_loop m) eqn:El; [|discriminate]. destruct (gshape m) eqn:Eg; [discriminate|].
  cbn [run_call] in H. rewrite Em in H. pose proof (HrecR n st ea t st' H) as Hs. unfold SpecR in Hs. rewrite Em, El, Eg in Hs.
  destruct Hs as (msg & q & Hstar). exists msg, q.
  exact (P_rep1 K rs toks kw soft aevalP item_name forced_msg 0 (body_of M n) (pos st) _ Hstar).
Qed.
Lemma call1_raises c st ea t st' : call1_ok M c = true -> rcall rec c st = (Raise (XSyntaxError ea t), st') ->
  exists msg q, pitem (dec_call1 M c) (pos st) (PErr msg q).
Proof.
  intros Hf H. destruct (call1_split c) as [(l & -> & Ek & ->)|[-> E2]].
  - unfold loopkind in Ek. destruct (find_meth M l) as [m|] eqn:Em; [|discriminate].
    destruct (m_loop m) eqn:El; [|discriminate]. destruct (gshape m) eqn:Eg; [discriminate|].
    cbn [run_call] in H. rewrite Em in H. unfold bind_r in H. destruct (rec l st) as [[v|x|] st1] eqn:Er; try discriminate H.
    injection H as -> <-. pose proof (HrecR l st ea t st1 Er) as Hs. unfold SpecR in Hs. rewrite Em, El, Eg in Hs.
    destruct Hs as (msg & q & Hstar). exists msg, q.
    exact (P_rep0 K rs toks kw soft aevalP item_name forced_msg 0 (body_of M l) (pos st) _ Hstar).
  - rewrite E2 in Hf. exact (wrap_raises (b1_ok M) (dec_b1 M) b1_shape b1_agrees b1_raises c st ea t st' Hf H).
Qed.

(* one round of a repetition helper, and the whole repetition *)
Lemma loop_spec m a : galt_ok (call0_ok M) a = true -> a_has_cut a = false ->
  forall f mark children e0 st v st', pos st = mark -> env_cut e0 = false ->
  rloop rec f m a mark None children e0 st = (Ok v, st') ->
  exists vs p', pstar (Group (Rhs 0 [gdec_alt (dec_call M) a])) mark (inl (vs, p')) /\
                v = VList (children ++ vs) /\ pos st' = p' /\ (vs = [] -> p' = mark).
Proof.
  intros Ha Hnocut. unfold galt_ok in Ha.
  apply andb_prop in Ha as [Ha Hne]. apply andb_prop in Ha as [Ha Hact]. apply andb_prop in Ha as [Ha Hnd].
  apply andb_prop in Ha as [Ha Hhc]. apply andb_prop in Ha as [Ha Hcs0]. apply andb_prop in Ha as [Hg Hloc].
  apply negb_true_iff in Hg. apply negb_true_iff in Hloc. apply String.eqb_eq in Hact. apply Bool.eqb_prop in Hhc.
  rewrite Hnocut in Hhc.
  induction f as [|f IH]; intros mark children e0 st v st' Hpos He0 H; [discriminate|].
  cbn [run_loop] in H. rewrite Hg in H. cbn [andb] in H.
  destruct (rconjs rec (a_conjs a) e0 st) as [[[v1| |] e] st1] eqn:Ec; try discriminate.
  destruct (gconjs_agree K toks M ex td aevalP item_name forced_msg rs rec (call0_ok M) (dec_call M) call0_sem carries0 cut0
              _ _ _ _ _ _ Hcs0 Ec (gdec_alt (dec_call M) a) 0 [] [] false He0) as (bs & cutf & He & Hcf & Hbs & C1 & C2).
  assert (Hcutf : cutf = false).
  { destruct cutf; [|reflexivity]. destruct (Hbs eq_refl) as [X|X]; [discriminate X|]. rewrite <- Hhc in X. discriminate X. }
  rewrite Hcutf in *. clear Hcutf.
  destruct (truthy v1) eqn:T1.
  - destruct (C1 eq_refl) as (vs & envP' & Hseq & Hfil & Hlv & Hl & Hall). rewrite Hloc in H. cbn [andb] in H. rewrite Hact in H.
    assert (Hev : aeval (default_text (value_vars (a_conjs a))) e = Some (match vs with [w] => w | _ => VList vs end)).
    { apply Haeval; [exact Hnd|]. rewrite He.
      pose proof (env_get_bound (value_vars (a_conjs a)) vs e0 Hnd Hlv) as HB. rewrite <- Hfil in HB.
      assert (Hnc := value_vars_not_cut _ _ Hcs0).
      clear -HB Hnc. induction HB as [|x w xs ws Hx _ IHB]; [constructor|]. constructor.
      - rewrite env_get_skip_cut; [exact Hx|]. intros ->. apply Hnc. left. reflexivity.
      - apply IHB. intros Hin. apply Hnc. right. exact Hin. }
    rewrite Hev in H.
    set (v2 := match vs with [w] => w | _ => VList vs end) in *.
    assert (Hitem : pitem (Group (Rhs 0 [gdec_alt (dec_call M) a])) mark (PSucc v2 (pos st1))).
    { apply P_group. cbn [rhs_alts]. rewrite <- Hpos. eapply PA_ok; [exact Hseq|]. reflexivity. }
    destruct (IH (pos st1) (children ++ [v2])%list e st1 v st' eq_refl Hcf H) as (vs' & p' & Hstar & Hv & Hp & _).
    exists (v2 :: vs'), p'. split; [|split; [|split]].
    + exact (PS_more K rs toks kw soft aevalP item_name forced_msg _ mark v2 (pos st1) (inl (vs', p')) Hitem Hstar).
    + rewrite Hv, <- app_assoc. reflexivity.
    + exact Hp.
    + discriminate.
  - rewrite Hnocut in H. cbn [andb] in H. injection H as <- <-. exists [], mark. split; [|split; [|split]].
    + apply PS_stop. apply P_group. cbn [rhs_alts]. rewrite <- Hpos. eapply PA_next; [exact (C2 eq_refl)|apply PA_nil].
    + rewrite app_nil_r. reflexivity.
    + reflexivity.
    + reflexivity.
Qed.

(* the loop of a gather: ( s e )* with the element as value, stepping back over a separator not followed by an element *)
Lemma gloop_spec m a cs ce : m_alts m = [a] -> a_conjs a = [cs; ce] ->
  a_guard a = false -> a_has_cut a = false -> a_locations a = false -> a_action a = "elem" ->
  base_ok M (cj_call cs) = true -> base_ok M (cj_call ce) = true -> cj_notnone cs = false -> cj_notnone ce = false ->
  cj_var ce = Some "elem" -> (forall x, cj_var cs = Some x -> x <> "elem") ->
  forall f mark children e0 st v st', pos st = mark ->
  rloop rec f m a mark None children e0 st = (Ok v, st') ->
  exists vs p', psep (dec_call M (cj_call cs)) (dec_call M (cj_call ce)) mark (inl (vs, p')) /\
                v = VList (children ++ vs) /\ pos st' = p'.
Proof.
  intros Ea Ecs Hg Hcut Hloc Hact Hbs Hbe Hns Hne Hve Hvs.
  induction f as [|f IH]; intros mark children e0 st v st' Hpos H; [discriminate|].
  cbn [run_loop] in H. rewrite Hg in H. cbn [andb] in H. rewrite Ecs in H. cbn [run_conjs] in H.
  destruct (rcall rec (cj_call cs) st) as [[w1| |] st1] eqn:E1; try discriminate.
  assert (Hdb : forall c, base_ok M c = true -> dec_call M c = dec_base M c) by (intros c Hc; destruct c; try discriminate Hc; reflexivity).
  destruct (base1_agrees _ _ _ _ Hbs E1) as (r1 & Hp1 & A1). rewrite <- (Hdb _ Hbs) in Hp1.
  assert (Hb1 : match cj_call cs, w1 with CComma _, VTuple [x] => x | _, _ => w1 end = w1) by (destruct (cj_call cs); try discriminate Hbs; reflexivity).
  rewrite Hb1, Hns in H.
  destruct A1 as [[T1 ->]|[-> [-> P1]]].
  - rewrite T1 in H.
    destruct (rcall rec (cj_call ce) st1) as [[w2| |] st2] eqn:E2; try discriminate.
    destruct (base1_agrees _ _ _ _ Hbe E2) as (r2 & Hp2 & A2). rewrite <- (Hdb _ Hbe) in Hp2.
    assert (Hb2 : match cj_call ce, w2 with CComma _, VTuple [x] => x | _, _ => w2 end = w2) by (destruct (cj_call ce); try discriminate Hbe; reflexivity).
    rewrite Hb2, Hne, Hve in H.
    destruct A2 as [[T2 ->]|[-> [-> P2]]].
    + rewrite T2 in H. cbn [truthy] in H. rewrite Hloc in H. cbn [andb] in H. rewrite Hact in H.
      assert (Hev : aeval "elem" (("elem", w2) :: match cj_var cs with Some x => (x, w1) :: e0 | None => e0 end) = Some w2).
      { apply (Haeval ["elem"] _ [w2]); [reflexivity|]. constructor; [|constructor]. cbn [env_get]. reflexivity. }
      rewrite Hev in H.
      destruct (IH (pos st2) (children ++ [w2])%list _ st2 v st' eq_refl H) as (vs' & p' & Hsep & Hv & Hp).
      exists (w2 :: vs'), p'. split; [|split; [rewrite Hv, <- app_assoc; reflexivity|exact Hp]].
      rewrite <- Hpos.
      exact (PG_more K rs toks kw soft aevalP item_name forced_msg _ _ (pos st) w1 (pos st1) w2 (pos st2) (inl (vs', p')) Hp1 Hp2 Hsep).
    + cbn [truthy] in H. rewrite Hcut in H. cbn [andb] in H. injection H as <- <-.
      exists [], mark. split; [|split; [rewrite app_nil_r; reflexivity|reflexivity]].
      rewrite <- Hpos. eapply PG_stop_e; [exact Hp1|exact Hp2].
  - cbn [truthy] in H. rewrite Hcut in H. cbn [andb] in H. injection H as <- <-.
    exists [], mark. split; [|split; [rewrite app_nil_r; reflexivity|reflexivity]].
    rewrite <- Hpos. apply PG_stop_s. exact Hp1.
Qed.

(* the gather helper itself *)
Lemma gather_spec m a ce cq j s e : m_alts m = [a] -> a_conjs a = [ce; cq] -> cj_call cq = CMeth j ->
  gloop_of M j = Some (s, e) -> m_without_invalid m = false ->
  a_guard a = false -> a_has_cut a = false -> a_locations a = false -> a_action a = "[elem] + seq" ->
  base_ok M (cj_call ce) = true -> cj_call ce = e -> cj_notnone ce = true -> cj_notnone cq = true ->
  cj_var ce = Some "elem" -> cj_var cq = Some "seq" ->
  forall prev e0 st v st',
  ralts rec m (pos st) None prev [a] e0 st = (Ok v, st') ->
  exists res, pitem (Gather 0 (dec_call M s) (dec_call M e)) (pos st) res /\
              ((truthy v = true /\ res = PSucc v (pos st')) \/ (v = VNone /\ res = PFail /\ pos st' = pos st)).
Proof.
  intros Ea Ecs Hq Hj Hwi Hg Hcut Hloc Hact Hbe He Hne Hnq Hve Hvq prev e0 st v st' H.
  cbn [run_alts] in H. rewrite Hg in H. cbn [andb] in H. rewrite Ecs in H. cbn [run_conjs] in H.
  destruct (rcall rec (cj_call ce) st) as [[w1| |] st1] eqn:E1; try discriminate.
  assert (Hdb : dec_call M (cj_call ce) = dec_base M (cj_call ce)) by (destruct (cj_call ce); try discriminate Hbe; reflexivity).
  destruct (base1_agrees _ _ _ _ Hbe E1) as (r1 & Hp1 & A1). rewrite <- Hdb, He in Hp1.
  assert (Hb1 : match cj_call ce, w1 with CComma _, VTuple [x] => x | _, _ => w1 end = w1) by (destruct (cj_call ce); try discriminate Hbe; reflexivity).
  rewrite Hb1, Hne, Hve in H.
  destruct A1 as [[T1 ->]|[-> [-> P1]]].
  - assert (Hn1 : match w1 with VNone => false | _ => true end = true) by (destruct w1; try reflexivity; discriminate T1).
    rewrite Hn1 in H. rewrite Hq in H. cbn [run_call] in H.
    unfold gloop_of in Hj. destruct (find_meth M j) as [mj|] eqn:Emj; [|discriminate].
    destruct (rec j st1) as [[w2| |] st2] eqn:E2; try discriminate.
    pose proof (Hrec j st1 w2 st2 E2) as Hs. unfold Spec in Hs. rewrite Emj in Hs.
    assert (Hshape : m_loop mj = true /\ gshape mj = true).
    { unfold gloop_parts in Hj. unfold gshape. destruct (m_alts mj) as [|aj [|? ?]]; try discriminate.
      destruct (a_conjs aj) as [|c1 [|c2 [|? ?]]]; try discriminate.
      match type of Hj with (if ?b then _ else _) = _ => destruct b eqn:Eb; [|discriminate] end.
      repeat (apply andb_prop in Eb as [Eb ?X]). split; [exact Eb|assumption]. }
    destruct Hshape as [Hl Hgs]. rewrite Hl, Hgs, Hj in Hs. destruct Hs as (vs & p' & Hsep & -> & Hp).
    rewrite Hnq, Hvq in H. cbn [truthy] in H. rewrite Hloc in H. cbn [andb] in H. rewrite Hact in H.
    rewrite (Hgact _ w1 vs) in H; [|cbn [env_get]; reflexivity|cbn [env_get]; reflexivity].
    rewrite Hwi in H. injection H as <- <-.
    exists (PSucc (VList (w1 :: vs)) (pos st2)). split; [|left; split; reflexivity].
    rewrite Hp. exact (P_gather K rs toks kw soft aevalP item_name forced_msg 0 _ _ (pos st) w1 (pos st1) (inl (vs, p')) Hp1 Hsep).
  - cbn [truthy] in H. rewrite Hcut in H. cbn [andb run_alts] in H. rewrite Hwi in H. injection H as <- <-.
    exists PFail. split; [apply P_gather_fail; exact Hp1|]. right. auto.
Qed.
(* a repetition helper that raises: the repetition errs *)
Lemma loop_raises m a : galt_ok (call0_ok M) a = true -> a_has_cut a = false ->
  forall f mark children e0 st ea t st', pos st = mark -> env_cut e0 = false ->
  rloop rec f m a mark None children e0 st = (Raise (XSyntaxError ea t), st') ->
  exists msg q, pstar (Group (Rhs 0 [gdec_alt (dec_call M) a])) mark (inr (msg, q)).
Proof.
  intros Ha Hnocut. pose proof Ha as Ha0. unfold galt_ok in Ha.
  apply andb_prop in Ha as [Ha Hne]. apply andb_prop in Ha as [Ha Hact]. apply andb_prop in Ha as [Ha Hnd].
  apply andb_prop in Ha as [Ha Hhc]. apply andb_prop in Ha as [Ha Hcs0]. apply andb_prop in Ha as [Hg Hloc].
  apply negb_true_iff in Hg. apply negb_true_iff in Hloc. apply String.eqb_eq in Hact. apply Bool.eqb_prop in Hhc.
  rewrite Hnocut in Hhc.
  induction f as [|f IH]; intros mark children e0 st ea t st' Hpos He0 H; [discriminate|].
  cbn [run_loop] in H. rewrite Hg in H. cbn [andb] in H.
  destruct (rconjs rec (a_conjs a) e0 st) as [[[v1|x|] e] st1] eqn:Ec; try discriminate H.
  - destruct (gconjs_agree K toks M ex td aevalP item_name forced_msg rs rec (call0_ok M) (dec_call M) call0_sem carries0 cut0
              _ _ _ _ _ _ Hcs0 Ec (gdec_alt (dec_call M) a) 0 [] [] false He0) as (bs & cutf & He & Hcf & Hbs & C1 & C2).
    assert (Hcutf : cutf = false).
    { destruct cutf; [|reflexivity]. destruct (Hbs eq_refl) as [X|X]; [discriminate X|]. rewrite <- Hhc in X. discriminate X. }
    rewrite Hcutf in *. clear Hcutf.
    destruct (truthy v1) eqn:T1.
    + destruct (C1 eq_refl) as (vs & envP' & Hseq & Hfil & Hlv & Hl & Hall). rewrite Hloc in H. cbn [andb] in H. rewrite Hact in H.
      assert (Hev : aeval (default_text (value_vars (a_conjs a))) e = Some (match vs with [w] => w | _ => VList vs end)).
      { apply Haeval; [exact Hnd|]. rewrite He.
        pose proof (env_get_bound (value_vars (a_conjs a)) vs e0 Hnd Hlv) as HB. rewrite <- Hfil in HB.
        assert (Hnc := value_vars_not_cut _ _ Hcs0).
        clear -HB Hnc. induction HB as [|x w xs ws Hx _ IHB]; [constructor|]. constructor.
        - rewrite env_get_skip_cut; [exact Hx|]. intros ->. apply Hnc. left. reflexivity.
        - apply IHB. intros Hin. apply Hnc. right. exact Hin. }
      rewrite Hev in H.
      set (v2 := match vs with [w] => w | _ => VList vs end) in *.
      assert (Hitem : pitem (Group (Rhs 0 [gdec_alt (dec_call M) a])) mark (PSucc v2 (pos st1))).
      { apply P_group. cbn [rhs_alts]. rewrite <- Hpos. eapply PA_ok; [exact Hseq|]. reflexivity. }
      destruct (IH (pos st1) (children ++ [v2])%list e st1 ea t st' eq_refl Hcf H) as (msg & q & Hstar).
      exists msg, q.
      exact (PS_more K rs toks kw soft aevalP item_name forced_msg _ mark v2 (pos st1) (inr (msg, q)) Hitem Hstar).
    + rewrite Hnocut in H. cbn [andb] in H. discriminate H.
  - injection H as -> <-.
    destruct (gconjs_raises K toks M ex td aevalP item_name forced_msg rs rec (call0_ok M) (dec_call M) call0_sem call0_raises
                _ _ _ _ _ _ _ Hcs0 Ec (gdec_alt (dec_call M) a) 0 [] [] false) as (msg & q & Hs).
    exists msg, q. apply PS_err. apply P_group. cbn [rhs_alts]. rewrite <- Hpos. eapply PA_err. exact Hs.
Qed.

Lemma gloop_raises m a cs ce : m_alts m = [a] -> a_conjs a = [cs; ce] ->
  a_guard a = false -> a_has_cut a = false -> a_locations a = false -> a_action a = "elem" ->
  base_ok M (cj_call cs) = true -> base_ok M (cj_call ce) = true -> cj_notnone cs = false -> cj_notnone ce = false ->
  cj_var ce = Some "elem" -> (forall x, cj_var cs = Some x -> x <> "elem") ->
  forall f mark children e0 st ea t st', pos st = mark ->
  rloop rec f m a mark None children e0 st = (Raise (XSyntaxError ea t), st') ->
  exists msg q, psep (dec_call M (cj_call cs)) (dec_call M (cj_call ce)) mark (inr (msg, q)).
Proof.
  intros Ea Ecs Hg Hcut Hloc Hact Hbs Hbe Hns Hne Hve Hvs.
  induction f as [|f IH]; intros mark children e0 st ea t st' Hpos H; [discriminate|].
  cbn [run_loop] in H. rewrite Hg in H. cbn [andb] in H. rewrite Ecs in H. cbn [run_conjs] in H.
  assert (Hdb : forall c, base_ok M c = true -> dec_call M c = dec_base M c) by (intros c Hc; destruct c; try discriminate Hc; reflexivity).
  destruct (rcall rec (cj_call cs) st) as [[w1|x|] st1] eqn:E1; try discriminate H.
  - destruct (base1_agrees _ _ _ _ Hbs E1) as (r1 & Hp1 & A1). rewrite <- (Hdb _ Hbs) in Hp1.
    assert (Hb1 : match cj_call cs, w1 with CComma _, VTuple [x] => x | _, _ => w1 end = w1) by (destruct (cj_call cs); try discriminate Hbs; reflexivity).
    rewrite Hb1, Hns in H.
    destruct A1 as [[T1 ->]|[-> [-> P1]]].
    + rewrite T1 in H.
      destruct (rcall rec (cj_call ce) st1) as [[w2|x|] st2] eqn:E2; try discriminate H.
      * destruct (base1_agrees _ _ _ _ Hbe E2) as (r2 & Hp2 & A2). rewrite <- (Hdb _ Hbe) in Hp2.
        assert (Hb2 : match cj_call ce, w2 with CComma _, VTuple [x] => x | _, _ => w2 end = w2) by (destruct (cj_call ce); try discriminate Hbe; reflexivity).
        rewrite Hb2, Hne, Hve in H.
        destruct A2 as [[T2 ->]|[-> [-> P2]]].
        -- rewrite T2 in H. cbn [truthy] in H. rewrite Hloc in H. cbn [andb] in H. rewrite Hact in H.
           assert (Hev : aeval "elem" (("elem", w2) :: match cj_var cs with Some x => (x, w1) :: e0 | None => e0 end) = Some w2).
           { apply (Haeval ["elem"] _ [w2]); [reflexivity|]. constructor; [|constructor]. cbn [env_get]. reflexivity. }
           rewrite Hev in H.
           destruct (IH (pos st2) (children ++ [w2])%list _ st2 ea t st' eq_refl H) as (msg & q & Hsep).
           exists msg, q. rewrite <- Hpos.
           exact (PG_more K rs toks kw soft aevalP item_name forced_msg _ _ (pos st) w1 (pos st1) w2 (pos st2) (inr (msg, q)) Hp1 Hp2 Hsep).
        -- cbn [truthy] in H. rewrite Hcut in H. cbn [andb] in H. discriminate H.
      * injection H as -> <- . destruct (base1_raises _ _ _ _ _ Hbe E2) as (msg & q & Hp2). rewrite <- (Hdb _ Hbe) in Hp2.
        exists msg, q. rewrite <- Hpos. eapply PG_err_e; [exact Hp1|exact Hp2].
    + cbn [truthy] in H. rewrite Hcut in H. cbn [andb] in H. discriminate H.
  - injection H as -> <-. destruct (base1_raises _ _ _ _ _ Hbs E1) as (msg & q & Hp1). rewrite <- (Hdb _ Hbs) in Hp1.
    exists msg, q. rewrite <- Hpos. apply PG_err_s. exact Hp1.
Qed.

Lemma gather_raises m a ce cq j s e : m_alts m = [a] -> a_conjs a = [ce; cq] -> cj_call cq = CMeth j ->
  gloop_of M j = Some (s, e) -> m_without_invalid m = false ->
  a_guard a = false -> a_has_cut a = false -> a_locations a = false -> a_action a = "[elem] + seq" ->
  base_ok M (cj_call ce) = true -> cj_call ce = e -> cj_notnone ce = true -> cj_notnone cq = true ->
  cj_var ce = Some "elem" -> cj_var cq = Some "seq" ->
  forall prev e0 st ea t st',
  ralts rec m (pos st) None prev [a] e0 st = (Raise (XSyntaxError ea t), st') ->
  exists msg q, pitem (Gather 0 (dec_call M s) (dec_call M e)) (pos st) (PErr msg q).
Proof.
  intros Ea Ecs Hq Hj Hwi Hg Hcut Hloc Hact Hbe He Hne Hnq Hve Hvq prev e0 st ea t st' H.
  cbn [run_alts] in H. rewrite Hg in H. cbn [andb] in H. rewrite Ecs in H. cbn [run_conjs] in H.
  assert (Hdb : dec_call M (cj_call ce) = dec_base M (cj_call ce)) by (destruct (cj_call ce); try discriminate Hbe; reflexivity).
  destruct (rcall rec (cj_call ce) st) as [[w1|x|] st1] eqn:E1; try discriminate H.
  - destruct (base1_agrees _ _ _ _ Hbe E1) as (r1 & Hp1 & A1). rewrite <- Hdb, He in Hp1.
    assert (Hb1 : match cj_call ce, w1 with CComma _, VTuple [x] => x | _, _ => w1 end = w1) by (destruct (cj_call ce); try discriminate Hbe; reflexivity).
    rewrite Hb1, Hne, Hve in H.
    destruct A1 as [[T1 ->]|[-> [-> P1]]].
    + assert (Hn1 : match w1 with VNone => false | _ => true end = true) by (destruct w1; try reflexivity; discriminate T1).
      rewrite Hn1 in H. rewrite Hq in H. cbn [run_call] in H.
      unfold gloop_of in Hj. destruct (find_meth M j) as [mj|] eqn:Emj; [|discriminate].
      destruct (rec j st1) as [[w2|x|] st2] eqn:E2; try discriminate H.
      * pose proof (Hrec j st1 w2 st2 E2) as Hs. unfold Spec in Hs. rewrite Emj in Hs.
        assert (Hshape : m_loop mj = true /\ gshape mj = true).
        { unfold gloop_parts in Hj. unfold gshape. destruct (m_alts mj) as [|aj [|? ?]]; try discriminate.
          destruct (a_conjs aj) as [|c1 [|c2 [|? ?]]]; try discriminate.
          match type of Hj with (if ?b then _ else _) = _ => destruct b eqn:Eb; [|discriminate] end.
          repeat (apply andb_prop in Eb as [Eb ?X]). split; [exact Eb|assumption]. }
        destruct Hshape as [Hl Hgs]. rewrite Hl, Hgs, Hj in Hs. destruct Hs as (vs & p' & Hsep & -> & Hp).
        rewrite Hnq, Hvq in H. cbn [truthy] in H. rewrite Hloc in H. cbn [andb] in H. rewrite Hact in H.
        rewrite (Hgact _ w1 vs) in H; [|cbn [env_get]; reflexivity|cbn [env_get]; reflexivity]. discriminate H.
      * injection H as -> <-. pose proof (HrecR j st1 ea t st2 E2) as Hs. unfold SpecR in Hs. rewrite Emj in Hs.
        assert (Hshape : m_loop mj = true /\ gshape mj = true).
        { unfold gloop_parts in Hj. unfold gshape. destruct (m_alts mj) as [|aj [|? ?]]; try discriminate.
          destruct (a_conjs aj) as [|c1 [|c2 [|? ?]]]; try discriminate.
          match type of Hj with (if ?b then _ else _) = _ => destruct b eqn:Eb; [|discriminate] end.
          repeat (apply andb_prop in Eb as [Eb ?X]). split; [exact Eb|assumption]. }
        destruct Hshape as [Hl Hgs]. rewrite Hl, Hgs, Hj in Hs. destruct Hs as (msg & q & Hsep).
        exists msg, q.
        exact (P_gather K rs toks kw soft aevalP item_name forced_msg 0 _ _ (pos st) w1 (pos st1) (inr (msg, q)) Hp1 Hsep).
    + cbn [truthy] in H. rewrite Hcut in H. cbn [andb run_alts] in H. rewrite Hwi in H. discriminate H.
  - injection H as -> <-. destruct (base1_raises _ _ _ _ _ Hbe E1) as (msg & q & Hp1). rewrite <- Hdb, He in Hp1.
    exists msg, q. apply P_gather_err. exact Hp1.
Qed.
End Step1.

(* ---------- the theorem ---------- *)
Lemma meth_ok m : In m (i_meths M) -> meth_ok1 M m = true.
Proof.
  intros Hin. pose proof Hok as H. unfold ir_ok in H. apply andb_prop in H as [H _]. rewrite forallb_forall in H. exact (H m Hin).
Qed.

Lemma ir_step_ok f : (forall n st v st', RUN f n st = (Ok v, st') -> Spec n v st st') ->
  forall n st v st', RUN (S f) n st = (Ok v, st') -> Spec n v st st'.
Proof.
  intros IH n st v st' H.
  cbn [run] in H. unfold run_meth in H. unfold Spec. destruct (find_meth M n) as [m|] eqn:Em; [|exact I].
  pose proof (meth_ok m (find_meth_in1 n m Em)) as Hm. pose proof (find_meth_name n m Em) as Hname.
  apply logged_inv in H as (st1 & H & Hp). unfold meth_ok1 in Hm.
  assert (HIH : forall n0 st0 v1 st0', RUN f n0 st0 = (Ok v1, st0') -> Spec n0 v1 st0 st0') by exact IH.
  destruct (m_loop m) eqn:El.
  - destruct (gshape m) eqn:Eg.
    + (* the loop of a gather *)
      destruct (gloop_parts M m) as [[s e]|] eqn:Eparts; [|discriminate]. pose proof Eparts as Ep0.
      unfold gloop_parts in Eparts. destruct (m_alts m) as [|a [|a2 l]] eqn:Ea; try discriminate.
      destruct (a_conjs a) as [|cs [|ce [|c3 l3]]] eqn:Ecs; try discriminate.
      match type of Eparts with (if ?b then _ else _) = _ => destruct b eqn:Eb; [|discriminate] end.
      injection Eparts as <- <-.
      apply andb_prop in Eb as [Eb Hn1]. apply negb_true_iff in Hn1. rewrite Hname in Hn1.
      apply andb_prop in Eb as [Eb Hvs]. apply andb_prop in Eb as [Eb Hve]. apply andb_prop in Eb as [Eb Hne]. apply andb_prop in Eb as [Eb Hns].
      apply andb_prop in Eb as [Eb Hbe]. apply andb_prop in Eb as [Eb Hbs]. apply andb_prop in Eb as [Eb Hact]. apply andb_prop in Eb as [Eb Hloc].
      apply andb_prop in Eb as [Eb Hcut]. apply andb_prop in Eb as [Eb Hg]. apply andb_prop in Eb as [Eb Hd]. apply andb_prop in Eb as [Eb Hl].
      apply andb_prop in Eb as [_ Hwi].
      apply negb_true_iff in Hwi. apply negb_true_iff in Hl. apply negb_true_iff in Hg. apply negb_true_iff in Hcut. apply negb_true_iff in Hloc.
      apply negb_true_iff in Hns. apply negb_true_iff in Hne. apply String.eqb_eq in Hact.
      assert (Hb : run_body K toks false false M aeval ex td (RUN f) f m st = (Ok v, st1)) by (destruct (m_deco m); [exact H|discriminate Hd|exact H]).
      unfold run_body in Hb. rewrite Hwi, Hl, El, Ea in Hb.
      destruct (rloop (RUN f) f m a (pos st) None [] [] st) as [[v0| |] st2] eqn:Er; try discriminate. injection Hb as <- <-.
      assert (Hve' : cj_var ce = Some "elem") by (destruct (cj_var ce) as [x|]; [apply String.eqb_eq in Hve; congruence|discriminate]).
      assert (Hvs' : forall x, cj_var cs = Some x -> x <> "elem").
      { intros x Hx. rewrite Hx in Hvs. apply negb_true_iff in Hvs. intros ->. discriminate Hvs. }
      destruct (gloop_spec (RUN f) HIH m a cs ce Ea Ecs Hg Hcut Hloc Hact Hbs Hbe Hns Hne Hve' Hvs' f (pos st) [] [] st v0 st2 eq_refl Er)
        as (vs & p' & Hsep & -> & Hp2).
      exists vs, p'. split; [exact Hsep|]. unfold loop_ret. rewrite Hname.
      cbn [app]. rewrite Hn1. split; [reflexivity|]. rewrite Hp. exact Hp2.
    + (* a repetition helper *)
      unfold loop_ok in Hm. apply andb_prop in Hm as [Hm Ha]. apply andb_prop in Hm as [Hm Hd]. apply andb_prop in Hm as [Hwi Hl].
      apply negb_true_iff in Hwi. apply negb_true_iff in Hl.
      assert (Hb : run_body K toks false false M aeval ex td (RUN f) f m st = (Ok v, st1)) by (destruct (m_deco m); [exact H|discriminate Hd|exact H]).
      unfold run_body in Hb. rewrite Hwi, Hl, El in Hb.
      destruct (m_alts m) as [|a [|a2 l]] eqn:Ea; try discriminate. apply andb_prop in Ha as [Ha Hnc]. apply negb_true_iff in Hnc.
      destruct (rloop (RUN f) f m a (pos st) None [] [] st) as [[v0| |] st2] eqn:Er; try discriminate. injection Hb as <- <-.
      destruct (loop_spec (RUN f) HIH m a Ha Hnc f (pos st) [] [] st v0 st2 eq_refl eq_refl Er) as (vs & p' & Hstar & -> & Hp2 & Hnil).
      exists vs, p'. unfold body_of. rewrite Em, Ea. split; [exact Hstar|]. unfold loop_ret. rewrite Hname. cbn [app].
      destruct (is_loop1_name n).
      * destruct vs as [|v1 vs']; cbn [truthy].
        -- right. split; [reflexivity|]. split; [reflexivity|]. rewrite Hp, Hp2. exact (Hnil eq_refl).
        -- left. split; [discriminate|]. split; [reflexivity|]. rewrite Hp. exact Hp2.
      * split; [reflexivity|]. rewrite Hp. exact Hp2.
  - destruct (gather_parts M m) as [[s e]|] eqn:Eparts.
    + (* a gather helper *)
      pose proof Eparts as Ep0. unfold gather_parts in Eparts. destruct (m_alts m) as [|a [|a2 l]] eqn:Ea; try discriminate.
      destruct (a_conjs a) as [|ce [|cq [|c3 l3]]] eqn:Ecs; try discriminate.
      destruct (cj_call cq) as [j| | | | |] eqn:Eq; try discriminate.
      destruct (gloop_of M j) as [[s0 e0]|] eqn:Ej; [|discriminate].
      match type of Eparts with (if ?b then _ else _) = _ => destruct b eqn:Eb; [|discriminate] end.
      injection Eparts as <- <-.
      apply andb_prop in Eb as [Eb Hvq]. apply andb_prop in Eb as [Eb Hve]. apply andb_prop in Eb as [Eb Hnq]. apply andb_prop in Eb as [Eb Hne].
      apply andb_prop in Eb as [Eb Hceq]. apply andb_prop in Eb as [Eb Hbe]. apply andb_prop in Eb as [Eb Hact]. apply andb_prop in Eb as [Eb Hloc].
      apply andb_prop in Eb as [Eb Hcut]. apply andb_prop in Eb as [Eb Hg]. apply andb_prop in Eb as [Eb Hd]. apply andb_prop in Eb as [Eb Hl].
      apply andb_prop in Eb as [_ Hwi].
      apply negb_true_iff in Hwi. apply negb_true_iff in Hl. apply negb_true_iff in Hg. apply negb_true_iff in Hcut. apply negb_true_iff in Hloc.
      apply String.eqb_eq in Hact. apply call_eqb_eq in Hceq.
      assert (Hb : run_body K toks false false M aeval ex td (RUN f) f m st = (Ok v, st1)) by (destruct (m_deco m); [exact H|discriminate Hd|exact H]).
      unfold run_body in Hb. rewrite Hwi, Hl, El, Ea in Hb.
      assert (Hve' : cj_var ce = Some "elem") by (destruct (cj_var ce) as [x|]; [apply String.eqb_eq in Hve; congruence|discriminate]).
      assert (Hvq' : cj_var cq = Some "seq") by (destruct (cj_var cq) as [x|]; [apply String.eqb_eq in Hvq; congruence|discriminate]).
      destruct (gather_spec (RUN f) HIH m a ce cq j s0 e0 Ea Ecs Eq Ej Hwi Hg Hcut Hloc Hact Hbe Hceq Hne Hnq Hve' Hvq' (invalid st) [] st v st1 Hb)
        as (res & Hpg & Hr).
      (* as a rule:  _gather_k: s.e+  *)
      destruct Hr as [[A ->]|[-> [-> C]]].
      * exists (PSucc v (pos st1)). split; [|left; rewrite Hp; auto].
        eapply P_rule; [exact (find_rule_dec1 n m Em El)|]. cbn [rrhs dec_meth1 rhs_alts]. rewrite Ep0. cbn [rhs_alts].
        eapply (PA_ok K rs toks kw soft aevalP item_name forced_msg _ _ (pos st) [v] _ (pos st1) v); [|reflexivity].
        cbn [alt_items]. eapply PQ_step; [exact Hpg|]. cbn [ni_item is_lookahead is_cut orb app]. apply PQ_nil.
      * exists PFail. split; [|right; rewrite Hp; auto].
        eapply P_rule; [exact (find_rule_dec1 n m Em El)|]. cbn [rrhs dec_meth1 rhs_alts]. rewrite Ep0. cbn [rhs_alts].
        eapply PA_next; [|apply PA_nil]. cbn [alt_items].
        exact (PQ_fail K rs toks kw soft aevalP item_name forced_msg _ 0 (NItem 0 None None (Gather 0 (dec_call M s0) (dec_call M e0))) [] (pos st) [] [] false Hpg).
    + (* a plain method *)
      cbn [is_some orb] in Hm.
      unfold plain_ok in Hm. apply andb_prop in Hm as [Hm Hal]. apply andb_prop in Hm as [Hm Hd]. apply andb_prop in Hm as [Hwi Hl].
      apply negb_true_iff in Hwi. apply negb_true_iff in Hl.
      assert (Hb : run_body K toks false false M aeval ex td (RUN f) f m st = (Ok v, st1)) by (destruct (m_deco m); [exact H|discriminate Hd|exact H]).
      unfold run_body in Hb. rewrite Hwi, Hl, El in Hb.
      assert (HOK : Forall (plain_alt M) (m_alts m)).
      { apply Forall_forall. intros a Ha. exists m. split; [exact (find_meth_in1 n m Em)|]. split; [exact El|]. split; [exact Eparts|exact Ha]. }
      destruct (galts_agree2 K toks M aeval ex td aevalP item_name forced_msg rs Haeval (RUN f) (call1_ok M) (dec_call1 M)
                  (call1_sem (RUN f) HIH) (carries1) (cut1) (plain_alt M) HactP Hnmi Hstale Htruthy m (pos st) (invalid st) Hwi (m_alts m) [] st v st1 Hal HOK eq_refl eq_refl Hb) as (res & Hpa & Hr).
      exists res. split.
      * eapply P_rule; [exact (find_rule_dec1 n m Em El)|]. cbn [rrhs dec_meth1 rhs_alts]. rewrite Eparts. cbn [rhs_alts]. exact Hpa.
      * unfold agrees. rewrite Hp. destruct Hr as [[A B]|[A [B C]]]; [left; auto|right; auto].
Qed.

Lemma ir_step_raise f : (forall n st v st', RUN f n st = (Ok v, st') -> Spec n v st st') ->
  (forall n st ea t st', RUN f n st = (Raise (XSyntaxError ea t), st') -> SpecR n st) ->
  forall n st ea t st', RUN (S f) n st = (Raise (XSyntaxError ea t), st') -> SpecR n st.
Proof.
  intros HIH HIR n st ea t st' H.
  cbn [run] in H. unfold run_meth in H. unfold SpecR. destruct (find_meth M n) as [m|] eqn:Em; [|exact I].
  pose proof (meth_ok m (find_meth_in1 n m Em)) as Hm. pose proof (find_meth_name n m Em) as Hname.
  apply logged_raise in H. unfold meth_ok1 in Hm.
  destruct (m_loop m) eqn:El.
  - destruct (gshape m) eqn:Eg.
    + destruct (gloop_parts M m) as [[s e]|] eqn:Eparts; [|discriminate]. pose proof Eparts as Ep0.
      unfold gloop_parts in Eparts. destruct (m_alts m) as [|a [|a2 l]] eqn:Ea; try discriminate.
      destruct (a_conjs a) as [|cs [|ce [|c3 l3]]] eqn:Ecs; try discriminate.
      match type of Eparts with (if ?b then _ else _) = _ => destruct b eqn:Eb; [|discriminate] end.
      injection Eparts as <- <-.
      apply andb_prop in Eb as [Eb Hn1]. apply negb_true_iff in Hn1. rewrite Hname in Hn1.
      apply andb_prop in Eb as [Eb Hvs]. apply andb_prop in Eb as [Eb Hve]. apply andb_prop in Eb as [Eb Hne]. apply andb_prop in Eb as [Eb Hns].
      apply andb_prop in Eb as [Eb Hbe]. apply andb_prop in Eb as [Eb Hbs]. apply andb_prop in Eb as [Eb Hact]. apply andb_prop in Eb as [Eb Hloc].
      apply andb_prop in Eb as [Eb Hcut]. apply andb_prop in Eb as [Eb Hg]. apply andb_prop in Eb as [Eb Hd]. apply andb_prop in Eb as [Eb Hl].
      apply andb_prop in Eb as [_ Hwi].
      apply negb_true_iff in Hwi. apply negb_true_iff in Hl. apply negb_true_iff in Hg. apply negb_true_iff in Hcut. apply negb_true_iff in Hloc.
      apply negb_true_iff in Hns. apply negb_true_iff in Hne. apply String.eqb_eq in Hact.
      assert (Hb : run_body K toks false false M aeval ex td (RUN f) f m st = (Raise (XSyntaxError ea t), st')) by (destruct (m_deco m); [exact H|discriminate Hd|exact H]).
      unfold run_body in Hb. rewrite Hwi, Hl, El, Ea in Hb.
      destruct (rloop (RUN f) f m a (pos st) None [] [] st) as [[v0|x|] st2] eqn:Er; try discriminate Hb. injection Hb as -> <-.
      assert (Hve' : cj_var ce = Some "elem") by (destruct (cj_var ce) as [x|]; [apply String.eqb_eq in Hve; congruence|discriminate]).
      assert (Hvs' : forall x, cj_var cs = Some x -> x <> "elem").
      { intros x Hx. rewrite Hx in Hvs. apply negb_true_iff in Hvs. intros ->. discriminate Hvs. }
      exact (gloop_raises (RUN f) HIH HIR m a cs ce Ea Ecs Hg Hcut Hloc Hact Hbs Hbe Hns Hne Hve' Hvs' f (pos st) [] [] st ea t st2 eq_refl Er).
    + unfold loop_ok in Hm. apply andb_prop in Hm as [Hm Ha]. apply andb_prop in Hm as [Hm Hd]. apply andb_prop in Hm as [Hwi Hl].
      apply negb_true_iff in Hwi. apply negb_true_iff in Hl.
      assert (Hb : run_body K toks false false M aeval ex td (RUN f) f m st = (Raise (XSyntaxError ea t), st')) by (destruct (m_deco m); [exact H|discriminate Hd|exact H]).
      unfold run_body in Hb. rewrite Hwi, Hl, El in Hb.
      destruct (m_alts m) as [|a [|a2 l]] eqn:Ea; try discriminate. apply andb_prop in Ha as [Ha Hnc]. apply negb_true_iff in Hnc.
      destruct (rloop (RUN f) f m a (pos st) None [] [] st) as [[v0|x|] st2] eqn:Er; try discriminate Hb. injection Hb as -> <-.
      unfold body_of. rewrite Em, Ea.
      exact (loop_raises (RUN f) HIH HIR m a Ha Hnc f (pos st) [] [] st ea t st2 eq_refl eq_refl Er).
  - destruct (gather_parts M m) as [[s e]|] eqn:Eparts.
    + pose proof Eparts as Ep0. unfold gather_parts in Eparts. destruct (m_alts m) as [|a [|a2 l]] eqn:Ea; try discriminate.
      destruct (a_conjs a) as [|ce [|cq [|c3 l3]]] eqn:Ecs; try discriminate.
      destruct (cj_call cq) as [j| | | | |] eqn:Eq; try discriminate.
      destruct (gloop_of M j) as [[s0 e0]|] eqn:Ej; [|discriminate].
      match type of Eparts with (if ?b then _ else _) = _ => destruct b eqn:Eb; [|discriminate] end.
      injection Eparts as <- <-.
      apply andb_prop in Eb as [Eb Hvq]. apply andb_prop in Eb as [Eb Hve]. apply andb_prop in Eb as [Eb Hnq]. apply andb_prop in Eb as [Eb Hne].
      apply andb_prop in Eb as [Eb Hceq]. apply andb_prop in Eb as [Eb Hbe]. apply andb_prop in Eb as [Eb Hact]. apply andb_prop in Eb as [Eb Hloc].
      apply andb_prop in Eb as [Eb Hcut]. apply andb_prop in Eb as [Eb Hg]. apply andb_prop in Eb as [Eb Hd]. apply andb_prop in Eb as [Eb Hl].
      apply andb_prop in Eb as [_ Hwi].
      apply negb_true_iff in Hwi. apply negb_true_iff in Hl. apply negb_true_iff in Hg. apply negb_true_iff in Hcut. apply negb_true_iff in Hloc.
      apply String.eqb_eq in Hact. apply call_eqb_eq in Hceq.
      assert (Hb : run_body K toks false false M aeval ex td (RUN f) f m st = (Raise (XSyntaxError ea t), st')) by (destruct (m_deco m); [exact H|discriminate Hd|exact H]).
      unfold run_body in Hb. rewrite Hwi, Hl, El, Ea in Hb.
      assert (Hve' : cj_var ce = Some "elem") by (destruct (cj_var ce) as [x|]; [apply String.eqb_eq in Hve; congruence|discriminate]).
      assert (Hvq' : cj_var cq = Some "seq") by (destruct (cj_var cq) as [x|]; [apply String.eqb_eq in Hvq; congruence|discriminate]).
      destruct (gather_raises (RUN f) HIH HIR m a ce cq j s0 e0 Ea Ecs Eq Ej Hwi Hg Hcut Hloc Hact Hbe Hceq Hne Hnq Hve' Hvq' (invalid st) [] st ea t st' Hb)
        as (msg & q & Hpg).
      exists msg, q. eapply P_rule; [exact (find_rule_dec1 n m Em El)|]. cbn [rrhs dec_meth1 rhs_alts]. rewrite Ep0. cbn [rhs_alts].
      eapply PA_err. cbn [alt_items]. eapply PQ_err. exact Hpg.
    + cbn [is_some orb] in Hm.
      unfold plain_ok in Hm. apply andb_prop in Hm as [Hm Hal]. apply andb_prop in Hm as [Hm Hd]. apply andb_prop in Hm as [Hwi Hl].
      apply negb_true_iff in Hwi. apply negb_true_iff in Hl.
      assert (Hb : run_body K toks false false M aeval ex td (RUN f) f m st = (Raise (XSyntaxError ea t), st')) by (destruct (m_deco m); [exact H|discriminate Hd|exact H]).
      unfold run_body in Hb. rewrite Hwi, Hl, El in Hb.
      destruct (galts_raises2 K toks M aeval ex td aevalP item_name forced_msg rs (RUN f) (call1_ok M) (dec_call1 M)
                  (call1_sem (RUN f) HIH) (carries1) (cut1) (call1_raises (RUN f) HIH HIR) Hnmi m (pos st) (invalid st) Hwi (m_alts m) [] st ea t st' Hal eq_refl eq_refl Hb) as (msg & q & Hpa).
      exists msg, q.
      eapply P_rule; [exact (find_rule_dec1 n m Em El)|]. cbn [rrhs dec_meth1 rhs_alts]. rewrite Eparts. cbn [rhs_alts]. exact Hpa.
Qed.

Theorem ir_run_both : forall fuel,
  (forall n st v st', RUN fuel n st = (Ok v, st') -> Spec n v st st') /\
  (forall n st ea t st', RUN fuel n st = (Raise (XSyntaxError ea t), st') -> SpecR n st).
Proof.
  induction fuel as [|f [IH IHR]]; [split; intros; discriminate|].
  split; [exact (ir_step_ok f IH)|exact (ir_step_raise f IH IHR)].
Qed.
Theorem ir_run_agrees : forall fuel n st v st', RUN fuel n st = (Ok v, st') -> Spec n v st st'.
Proof. intros fuel. exact (proj1 (ir_run_both fuel)). Qed.
Theorem ir_run_raises : forall fuel n st ea t st', RUN fuel n st = (Raise (XSyntaxError ea t), st') -> SpecR n st.
Proof. intros fuel. exact (proj2 (ir_run_both fuel)). Qed.
End Sem1.
