(* Termination of the reference semantics: when no rule can reach itself at the same input position
   (a rank that strictly decreases along "initial invocations", computed with ANY assignment of nullable
   flags closed under the equations of the NullableVisitor table) and no repetition has a body that can
   match nothing, the big-step relation of Sem/Peg.v has a result for every item at every position --
   no derivation is infinite.  Lookahead operands count as initial invocations: the operand is tried
   at the position of the lookahead (this is what the proof needs, and what grammar.py lacked). *)
From Coq Require Import List String NArith Bool Arith Lia.
From Pegen Require Import Base.StrUtil Base.Values Grammar.Ast Grammar.Induction Runtime.Tokenizer Sem.Peg
  Analysis.Visitor Proofs.VisitorSim Proofs.PegProofs Proofs.NullableProofs Proofs.InvalidProofs Proofs.NullSem.
Import ListNotations.
Open Scope string_scope.

(* ---------- positions stay inside the token list ---------- *)
Section Bound.
Variable K : kinds.
Variable rs : list rule.
Variable toks : list rtok.
Variable keywords soft_keywords : list string.
Variable aeval : alt -> list value -> list (string * value) -> nat -> nat -> option value.
Variable item_name : alt -> nat -> option string.
Variable forced_msg : item -> string.
Notation pitem := (peg_item K rs toks keywords soft_keywords aeval item_name forced_msg).
Notation pstar := (peg_star K rs toks keywords soft_keywords aeval item_name forced_msg).
Notation psep := (peg_sep K rs toks keywords soft_keywords aeval item_name forced_msg).
Notation pseq := (peg_seq K rs toks keywords soft_keywords aeval item_name forced_msg).
Notation palts := (peg_alts K rs toks keywords soft_keywords aeval item_name forced_msg).
Notation T := (List.length toks).

Lemma tok_step_bound test p v p' : tok_step toks test p = PSucc v p' -> p' <= Nat.max p T.
Proof.
  unfold tok_step. destruct (nth_error toks p) eqn:E; [|discriminate].
  assert (p < T) by (apply nth_error_Some; congruence).
  destruct (test r); [|discriminate]. intros [= _ <-]. lia.
Qed.

Lemma bound_all :
  (forall i p r, pitem i p r -> forall v p', r = PSucc v p' -> p' <= Nat.max p T) /\
  (forall i p r, pstar i p r -> forall vs p', r = inl (vs, p') -> p' <= Nat.max p T) /\
  (forall s e p r, psep s e p r -> forall vs p', r = inl (vs, p') -> p' <= Nat.max p T) /\
  (forall a k ns p vals env cut r, pseq a k ns p vals env cut r -> forall vals' env' p', r = SSucc vals' env' p' -> p' <= Nat.max p T) /\
  (forall alts p r, palts alts p r -> forall v p', r = PSucc v p' -> p' <= Nat.max p T).
Proof.
  apply peg_mutind; intros; subst; try discriminate;
    try (match goal with H : tok_step _ _ _ = PSucc _ _ |- _ => apply tok_step_bound in H; lia end);
    try (match goal with H : PSucc _ _ = PSucc _ _ |- _ => injection H as <- <- end);
    try (match goal with H : SSucc _ _ _ = SSucc _ _ _ |- _ => injection H as <- <- <- end);
    try (match goal with H : inl _ = inl _ |- _ => injection H as <- <- end);
    try lia; eauto.
  all: try (match goal with H : context [match ?r with _ => _ end] |- _ => destruct r as [[? ?]|[? ?]]; try discriminate end).
  all: try (match goal with H : PSucc _ _ = PSucc _ _ |- _ => injection H as <- <- end).
  all: try (match goal with H : inl _ = inl _ |- _ => injection H as <- <- end).
  all: try (match goal with l : list value |- _ => destruct l; try discriminate end).
  all: try (match goal with H : PSucc _ _ = PSucc _ _ |- _ => injection H as <- <- end).
  all: repeat match goal with
       | H : forall v p', PSucc ?a ?b = PSucc v p' -> _ |- _ => specialize (H _ _ eq_refl)
       | H : forall vs p', inl (?a, ?b) = inl (vs, p') -> _ |- _ => specialize (H _ _ eq_refl)
       | H : forall a b c, SSucc ?x ?y ?z = SSucc a b c -> _ |- _ => specialize (H _ _ _ eq_refl)
       end; try lia.
Qed.
End Bound.

Section Total.
Variable tbl : list (string * bexp).
Hypothesis Hok : nul_tbl_ok tbl = true.
Variable K : kinds.
Variable rs : list rule.
Variable toks : list rtok.
Variable keywords soft_keywords : list string.
Variable aeval : alt -> list value -> list (string * value) -> nat -> nat -> option value.
Variable item_name : alt -> nat -> option string.
Variable forced_msg : item -> string.
Variable F : string -> bool.
Hypothesis HF : prefixed tbl rs F.

Notation pitem := (peg_item K rs toks keywords soft_keywords aeval item_name forced_msg).
Notation pstar := (peg_star K rs toks keywords soft_keywords aeval item_name forced_msg).
Notation psep := (peg_sep K rs toks keywords soft_keywords aeval item_name forced_msg).
Notation pseq := (peg_seq K rs toks keywords soft_keywords aeval item_name forced_msg).
Notation palts := (peg_alts K rs toks keywords soft_keywords aeval item_name forced_msg).
Notation nvi := (pv_item tbl (pleaf rs F)).
Notation nvn := (pv_nitem tbl (pleaf rs F)).
Notation T := (List.length toks).
Notation mono := (mono_all K rs toks keywords soft_keywords aeval item_name forced_msg).
Notation bound := (bound_all K rs toks keywords soft_keywords aeval item_name forced_msg).
Notation nsem := (nullable_sem tbl Hok K rs toks keywords soft_keywords aeval item_name forced_msg F HF).

(* ---------- token kinds ---------- *)
Definition dummy_tok : rtok := {| ty := 0; tstr := ""; sline := 0; scol := 0; eline := 0; ecol := 0; tline := ""; tspace := false |}.
Definition known_kind (n : string) : bool :=
  match kind_match K keywords soft_keywords n dummy_tok with Some _ => true | None => false end.
Lemma known_kind_test n : known_kind n = true ->
  exists test, forall t, kind_match K keywords soft_keywords n t = Some (test t).
Proof.
  unfold known_kind, kind_match.
  repeat match goal with |- context [if String.eqb n ?s then _ else _] => destruct (String.eqb n s); [intros _; eexists; intros t; reflexivity|] end.
  discriminate.
Qed.
Definition is_rule (n : string) : bool := match find_rule rs n with Some _ => true | None => false end.

(* ---------- the initial invocations of an item (pure reading of grammar.py's initial_names, with the
   nullable flags of the pure visitor): the names the item may invoke at the position where it starts ---------- *)
Fixpoint pin_item (i : item) : list string :=
  match i with
  | NameLeaf n => [n]
  | StringLeaf _ => []
  | Group r => pin_rhs r
  | Opt j => pin_item j
  | Repeat0 _ j | Repeat1 _ j => pin_item j
  | Gather _ s e => (pin_item e ++ (if nvi e then pin_item s else []))%list
  | PosLook j | NegLook j => pin_item j
  | Forced j => pin_item j
  | Cut => []
  | RhsItem r => pin_rhs r
  end
with pin_rhs (r : rhs) : list string :=
  match r with Rhs _ alts =>
    (fix go (l : list alt) := match l with [] => [] | a :: l' => (pin_alt a ++ go l')%list end) alts end
with pin_alt (a : alt) : list string :=
  match a with Alt items _ =>
    (fix go (l : list nitem) := match l with
                                | [] => []
                                | n :: l' => (pin_nitem n ++ (if nvn n then go l' else []))%list
                                end) items end
with pin_nitem (n : nitem) : list string :=
  match n with NItem _ _ _ i => pin_item i end.

Fixpoint pin_items (l : list nitem) : list string :=
  match l with [] => [] | n :: l' => (pin_nitem n ++ (if nvn n then pin_items l' else []))%list end.
Fixpoint pin_alts (l : list alt) : list string :=
  match l with [] => [] | a :: l' => (pin_alt a ++ pin_alts l')%list end.
Lemma pin_rhs_eq id alts : pin_rhs (Rhs id alts) = pin_alts alts.
Proof. cbn [pin_rhs]. induction alts as [|a l IH]; [reflexivity|]. cbn [pin_alts]. rewrite <- IH. reflexivity. Qed.
Lemma pin_alt_eq items act : pin_alt (Alt items act) = pin_items items.
Proof. cbn [pin_alt]. induction items as [|a l IH]; [reflexivity|]. cbn [pin_items]. rewrite <- IH. reflexivity. Qed.

(* ---------- well-formedness: names known, no repetition over something that can match nothing ---------- *)
Fixpoint wf_item (i : item) : bool :=
  match i with
  | NameLeaf n => is_rule n || known_kind n
  | StringLeaf _ => true
  | Group r => wf_rhs r
  | Opt j => wf_item j
  | Repeat0 _ j | Repeat1 _ j => wf_item j && negb (nvi j)
  | Gather _ s e => wf_item s && wf_item e && negb (nvi s && nvi e)
  | PosLook j | NegLook j => wf_item j
  | Forced j => wf_item j
  | Cut => true
  | RhsItem r => wf_rhs r
  end
with wf_rhs (r : rhs) : bool :=
  match r with Rhs _ alts =>
    (fix go (l : list alt) := match l with [] => true | a :: l' => wf_alt a && go l' end) alts end
with wf_alt (a : alt) : bool :=
  match a with Alt items _ =>
    (fix go (l : list nitem) := match l with [] => true | n :: l' => wf_nitem n && go l' end) items end
with wf_nitem (n : nitem) : bool :=
  match n with NItem _ _ _ i => wf_item i end.
Lemma wf_rhs_eq id alts : wf_rhs (Rhs id alts) = forallb wf_alt alts.
Proof. cbn [wf_rhs]. induction alts as [|a l IH]; [reflexivity|]. cbn [forallb]. rewrite <- IH. reflexivity. Qed.
Lemma wf_alt_eq items act : wf_alt (Alt items act) = forallb wf_nitem items.
Proof. cbn [wf_alt]. induction items as [|a l IH]; [reflexivity|]. cbn [forallb]. rewrite <- IH. reflexivity. Qed.

Variable rk : string -> nat.
(* every rule body is well formed, and the rank strictly decreases along initial invocations of rules *)
Definition below (k : nat) (l : list string) : Prop := forall m, In m l -> is_rule m = true -> rk m < k.
Hypothesis Hwf : forall n r, find_rule rs n = Some r -> wf_rhs (rrhs r) = true.
Hypothesis Hrk : forall n r, find_rule rs n = Some r -> below (rk n) (pin_rhs (rrhs r)).

Lemma below_app k l1 l2 : below k (l1 ++ l2) <-> below k l1 /\ below k l2.
Proof.
  unfold below. split.
  - intros H. split; intros m Hm; apply H; apply in_or_app; [left|right]; exact Hm.
  - intros [H1 H2] m Hm. apply in_app_or in Hm as [Hm|Hm]; [apply H1|apply H2]; exact Hm.
Qed.
Lemma below_nil k : below k []. Proof. intros m []. Qed.

Definition TotI (i : item) (p : nat) : Prop := exists r, pitem i p r.
Definition TotQ (ns : list nitem) (p : nat) : Prop := forall a k vals env cut, exists r, pseq a k ns p vals env cut r.
Definition TotA (alts : list alt) (p : nat) : Prop := exists r, palts alts p r.
Definition TotS (i : item) (p : nat) : Prop := exists r, pstar i p r.
Definition TotG (s e : item) (p : nat) : Prop := exists r, psep s e p r.

(* what a smaller remaining input already guarantees *)
Definition Level (p : nat) : Prop :=
  (forall i, wf_item i = true -> TotI i p) /\
  (forall ns, forallb wf_nitem ns = true -> TotQ ns p) /\
  (forall alts, forallb wf_alt alts = true -> TotA alts p) /\
  (forall j, wf_item j = true -> nvi j = false -> TotS j p) /\
  (forall s e, wf_item s = true -> wf_item e = true -> nvi s && nvi e = false -> TotG s e p).

Lemma nvn_nvi n : nvn n = nvi (ni_item n).
Proof.
  pose proof Hok as H. unfold nul_tbl_ok in H. do 13 (apply andb_prop in H as [H ?Hc]).
  destruct n as [id nm ty it]. rewrite pv_nitem_eq. apply (special_spec tbl "NamedItem"). assumption.
Qed.

(* a success either consumes (and stays inside the tokens) or the item is nullable *)
Lemma succ_cases i p v p1 : pitem i p (PSucc v p1) -> (p1 = p /\ nvi i = true) \/ (p < p1 /\ p1 <= T).
Proof.
  intros H. pose proof (proj1 mono _ _ _ H _ _ eq_refl) as Hm. pose proof (proj1 bound _ _ _ H _ _ eq_refl) as Hb.
  destruct (Nat.eq_dec p1 p) as [->|Hne].
  - left. split; [reflexivity|]. exact (proj1 nsem _ _ _ H _ eq_refl).
  - right. lia.
Qed.

(* ---------- one-step builders ---------- *)
Lemma star_from j p : nvi j = false -> TotI j p -> (forall p1, p < p1 -> p1 <= T -> TotS j p1) -> TotS j p.
Proof.
  intros Hn [r Hr] Hnext. destruct r as [v p1| |m q].
  - destruct (succ_cases _ _ _ _ Hr) as [[_ Hc]|[Hlt Hle]]; [congruence|].
    destruct (Hnext p1 Hlt Hle) as [res Hres]. eexists. eapply PS_more; eassumption.
  - eexists. apply PS_stop. exact Hr.
  - eexists. apply PS_err. exact Hr.
Qed.

Lemma sep_from s e p : nvi s && nvi e = false -> TotI s p ->
  (forall vs p2, pitem s p (PSucc vs p2) -> TotI e p2) ->
  (forall p3, p < p3 -> p3 <= T -> TotG s e p3) -> TotG s e p.
Proof.
  intros Hn [r Hr] He Hnext. destruct r as [vs p2| |m q].
  - destruct (He _ _ Hr) as [r2 Hr2]. destruct r2 as [v p3| |m q].
    + assert (p < p3 /\ p3 <= T) as [Hlt Hle].
      { destruct (succ_cases _ _ _ _ Hr) as [[-> Hs]|[Hlt Hle]]; destruct (succ_cases _ _ _ _ Hr2) as [[-> Hee]|[Hlt2 Hle2]]; try lia.
        rewrite Hs, Hee in Hn. discriminate. }
      destruct (Hnext p3 Hlt Hle) as [res Hres]. eexists. eapply PG_more; eassumption.
    + eexists. eapply PG_stop_e; eassumption.
    + eexists. eapply PG_err_e; eassumption.
  - eexists. apply PG_stop_s. exact Hr.
  - eexists. apply PG_err_s. exact Hr.
Qed.

Lemma seq_step n ns p : TotI (ni_item n) p ->
  (forall v p1, pitem (ni_item n) p (PSucc v p1) -> TotQ ns p1) -> TotQ (n :: ns) p.
Proof.
  intros [r Hr] Hnext a k vals env cut. destruct r as [v p1| |m q].
  - destruct (Hnext _ _ Hr a (S k) (if is_lookahead (ni_item n) || is_cut (ni_item n) then vals else (vals ++ [v])%list)
                (if is_lookahead (ni_item n) then env else bind_name item_name a k v env) (cut || is_cut (ni_item n))) as [res Hres].
    eexists. eapply PQ_step; eassumption.
  - eexists. apply PQ_fail. exact Hr.
  - eexists. apply PQ_err. exact Hr.
Qed.

Lemma alts_step a rest p : TotQ (alt_items a) p -> TotA rest p -> TotA (a :: rest) p.
Proof.
  intros Hq [r2 Hr2]. destruct (Hq a 0 [] [] false) as [r Hr]. destruct r as [vals env p'| | |m q].
  - destruct (alt_value aeval a vals env p p') as [v|] eqn:E.
    + eexists. eapply PA_ok; eassumption.
    + eexists. eapply PA_raise; eassumption.
  - eexists. eapply PA_next; eassumption.
  - eexists. eapply PA_cut; eassumption.
  - eexists. eapply PA_err; eassumption.
Qed.

(* ---------- the induction ---------- *)
Section AtPos.
Variable p : nat.
Hypothesis IHm : forall p1, p < p1 -> p1 <= T -> Level p1.

Section AtRank.
Variable k : nat.
Hypothesis IHk : forall k', k' < k -> forall r, wf_rhs r = true -> below k' (pin_rhs r) -> TotA (rhs_alts r) p.

Definition Pi (i : item) : Prop := wf_item i = true -> below k (pin_item i) -> TotI i p.
Definition Pr (r : rhs) : Prop := wf_rhs r = true -> below k (pin_rhs r) -> TotA (rhs_alts r) p.
Definition Pa (a : alt) : Prop := wf_alt a = true -> below k (pin_alt a) -> TotQ (alt_items a) p.
Definition Pn (n : nitem) : Prop := wf_nitem n = true -> below k (pin_nitem n) -> TotI (ni_item n) p.

Lemma rank_step : (forall i, Pi i) /\ (forall r, Pr r) /\ (forall a, Pa a) /\ (forall n, Pn n).
Proof.
  apply grammar_ast_ind; unfold Pi, Pr, Pa, Pn.
  - (* NameLeaf *)
    intros n Hw Hb. cbn [wf_item] in Hw. destruct (find_rule rs n) as [r|] eqn:Er.
    + assert (Hlt : rk n < k). { apply Hb; [left; reflexivity|]. unfold is_rule. rewrite Er. reflexivity. }
      destruct (IHk (rk n) Hlt (rrhs r) (Hwf _ _ Er) (Hrk _ _ Er)) as [res Hres].
      exists res. eapply P_rule; eassumption.
    + unfold is_rule in Hw. rewrite Er in Hw. cbn [orb] in Hw. destruct (known_kind_test _ Hw) as [test Ht].
      eexists. eapply P_token; eassumption.
  - (* StringLeaf *) intros s _ _. eexists. apply P_lit.
  - (* Group *) intros r IH Hw Hb. destruct (IH Hw Hb) as [res Hres]. exists res. apply P_group. exact Hres.
  - (* Opt *) intros j IH Hw Hb. destruct (IH Hw Hb) as [res Hres]. destruct res as [v p1| |m q].
    + eexists. eapply P_opt_some. exact Hres.
    + eexists. eapply P_opt_none. exact Hres.
    + eexists. eapply P_opt_err. exact Hres.
  - (* Repeat0 *) intros id j IH Hw Hb. cbn [wf_item] in Hw. apply andb_prop in Hw as [Hw Hn]. apply negb_true_iff in Hn.
    assert (Hs : TotS j p). { apply star_from; [exact Hn|exact (IH Hw Hb)|]. intros p1 H1 H2. exact (proj1 (proj2 (proj2 (proj2 (IHm p1 H1 H2)))) j Hw Hn). }
    destruct Hs as [res Hres]. eexists. eapply P_rep0. exact Hres.
  - (* Repeat1 *) intros id j IH Hw Hb. cbn [wf_item] in Hw. apply andb_prop in Hw as [Hw Hn]. apply negb_true_iff in Hn.
    assert (Hs : TotS j p). { apply star_from; [exact Hn|exact (IH Hw Hb)|]. intros p1 H1 H2. exact (proj1 (proj2 (proj2 (proj2 (IHm p1 H1 H2)))) j Hw Hn). }
    destruct Hs as [res Hres]. eexists. eapply P_rep1. exact Hres.
  - (* Gather *) intros id s e IHs IHe Hw Hb. cbn [wf_item] in Hw. apply andb_prop in Hw as [Hw Hn]. apply andb_prop in Hw as [Hws Hwe].
    apply negb_true_iff in Hn. cbn [pin_item] in Hb. apply below_app in Hb as [Hbe Hbs].
    destruct (IHe Hwe Hbe) as [r Hr]. destruct r as [v p1| |m q].
    + assert (Hg : TotG s e p1).
      { destruct (succ_cases _ _ _ _ Hr) as [[-> Hne]|[Hlt Hle]].
        - rewrite Hne in Hbs. rewrite Hne, andb_true_r in Hn.
          apply sep_from; [rewrite Hn; reflexivity|exact (IHs Hws Hbs)| |].
          + intros vs p2 Hs2. destruct (succ_cases _ _ _ _ Hs2) as [[_ Hc]|[Hlt Hle]]; [congruence|].
            exact (proj1 (IHm p2 Hlt Hle) e Hwe).
          + intros p3 H1 H2. exact (proj2 (proj2 (proj2 (proj2 (IHm p3 H1 H2)))) s e Hws Hwe ltac:(rewrite Hn; reflexivity)).
        - exact (proj2 (proj2 (proj2 (proj2 (IHm p1 Hlt Hle)))) s e Hws Hwe Hn). }
      destruct Hg as [res Hres]. eexists. eapply P_gather; eassumption.
    + eexists. eapply P_gather_fail. exact Hr.
    + eexists. eapply P_gather_err. exact Hr.
  - (* PosLook *) intros j IH Hw Hb. destruct (IH Hw Hb) as [res Hres]. destruct res as [v p1| |m q].
    + eexists. eapply P_pos_ok. exact Hres.
    + eexists. eapply P_pos_fail. exact Hres.
    + eexists. eapply P_pos_err. exact Hres.
  - (* NegLook *) intros j IH Hw Hb. destruct (IH Hw Hb) as [res Hres]. destruct res as [v p1| |m q].
    + eexists. eapply P_neg_fail. exact Hres.
    + eexists. eapply P_neg_ok. exact Hres.
    + eexists. eapply P_neg_err. exact Hres.
  - (* Forced *) intros j IH Hw Hb. destruct (IH Hw Hb) as [res Hres]. destruct res as [v p1| |m q].
    + eexists. eapply P_forced_ok. exact Hres.
    + eexists. eapply P_forced_fail. exact Hres.
    + eexists. eapply P_forced_err. exact Hres.
  - (* Cut *) intros _ _. eexists. apply P_cut.
  - (* RhsItem *) intros r IH Hw Hb. destruct (IH Hw Hb) as [res Hres]. exists res. apply P_rhsitem. exact Hres.
  - (* Rhs *) intros id alts Hall Hw Hb. rewrite wf_rhs_eq in Hw. rewrite pin_rhs_eq in Hb. cbn [rhs_alts].
    induction Hall as [|a l Ha Hl IH]; [eexists; apply PA_nil|].
    cbn [forallb] in Hw. apply andb_prop in Hw as [Hwa Hwl]. cbn [pin_alts] in Hb. apply below_app in Hb as [Hba Hbl].
    apply alts_step; [exact (Ha Hwa Hba)|exact (IH Hwl Hbl)].
  - (* Alt *) intros items act Hall Hw Hb. rewrite wf_alt_eq in Hw. rewrite pin_alt_eq in Hb. cbn [alt_items].
    induction Hall as [|n l Hn Hl IH]; [intros a k0 vals env cut; eexists; apply PQ_nil|].
    cbn [forallb] in Hw. apply andb_prop in Hw as [Hwn Hwl]. cbn [pin_items] in Hb. apply below_app in Hb as [Hbn Hbl].
    apply seq_step; [exact (Hn Hwn Hbn)|].
    intros v p1 Hs. destruct (succ_cases _ _ _ _ Hs) as [[-> Hnl]|[Hlt Hle]].
    + rewrite nvn_nvi, Hnl in Hbl. exact (IH Hwl Hbl).
    + exact (proj1 (proj2 (IHm p1 Hlt Hle)) l Hwl).
  - (* NamedItem *) intros id nm ty i IH Hw Hb. cbn [ni_item]. exact (IH Hw Hb).
Qed.
End AtRank.

Lemma all_ranks : forall k r, wf_rhs r = true -> below k (pin_rhs r) -> TotA (rhs_alts r) p.
Proof.
  intros k. induction k as [k IH] using lt_wf_ind. intros r Hw Hb.
  exact (proj1 (proj2 (rank_step k IH)) r Hw Hb).
Qed.

Definition top (l : list string) : nat := S (list_max (map rk l)).
Lemma below_top l : below (top l) l.
Proof.
  intros m Hm _. unfold top. apply Nat.lt_succ_r.
  assert (H := proj1 (list_max_le (map rk l) (list_max (map rk l))) (Nat.le_refl _)).
  rewrite Forall_forall in H. apply H. apply in_map. exact Hm.
Qed.

Lemma items_here : forall i, wf_item i = true -> TotI i p.
Proof. intros i Hw. exact (proj1 (rank_step (top (pin_item i)) (fun k' _ => all_ranks k')) i Hw (below_top _)). Qed.

Lemma level_here : Level p.
Proof.
  assert (HQ : forall ns, forallb wf_nitem ns = true -> TotQ ns p).
  { induction ns as [|n l IH]; intros Hw; [intros a k vals env cut; eexists; apply PQ_nil|].
    cbn [forallb] in Hw. apply andb_prop in Hw as [Hwn Hwl]. apply seq_step.
    - apply items_here. destruct n; exact Hwn.
    - intros v p1 Hs. destruct (succ_cases _ _ _ _ Hs) as [[-> _]|[Hlt Hle]]; [exact (IH Hwl)|exact (proj1 (proj2 (IHm p1 Hlt Hle)) l Hwl)]. }
  split; [exact items_here|]. split; [exact HQ|]. split; [|split].
  - induction alts as [|a l IH]; intros Hw; [eexists; apply PA_nil|].
    cbn [forallb] in Hw. apply andb_prop in Hw as [Hwa Hwl]. apply alts_step; [|exact (IH Hwl)].
    apply HQ. destruct a as [items act]. rewrite wf_alt_eq in Hwa. exact Hwa.
  - intros j Hw Hn. apply star_from; [exact Hn|exact (items_here j Hw)|].
    intros p1 H1 H2. exact (proj1 (proj2 (proj2 (proj2 (IHm p1 H1 H2)))) j Hw Hn).
  - intros s e Hws Hwe Hn. apply sep_from; [exact Hn|exact (items_here s Hws)| |].
    + intros vs p2 Hs2. destruct (succ_cases _ _ _ _ Hs2) as [[-> _]|[Hlt Hle]]; [exact (items_here e Hwe)|exact (proj1 (IHm p2 Hlt Hle) e Hwe)].
    + intros p3 H1 H2. exact (proj2 (proj2 (proj2 (proj2 (IHm p3 H1 H2)))) s e Hws Hwe Hn).
Qed.
End AtPos.

Theorem level_everywhere : forall p, Level p.
Proof.
  intros p. remember (T - p) as m eqn:Em. revert p Em. induction m as [m IH] using lt_wf_ind. intros p Em.
  apply level_here. intros p1 H1 H2. apply (IH (T - p1)); [lia|reflexivity].
Qed.

(* every rule, at every position, has a result: a value and an end position, a failure, or an error *)
Theorem reference_total : forall n r p, find_rule rs n = Some r -> exists res, pitem (NameLeaf n) p res.
Proof.
  intros n r p Er. apply (proj1 (level_everywhere p)). cbn [wf_item]. unfold is_rule. rewrite Er. reflexivity.
Qed.
End Total.

(* ---------- the decidable form: a checker for (flags, rank) witnesses ---------- *)
Section Checker.
Variable tbl : list (string * bexp).
Variable K : kinds.
Variable rs : list rule.
Variable keywords soft_keywords : list string.
Variable nul : list string.                   (* the rules flagged nullable *)
Variable ranks : list (string * nat).         (* a rank per rule (a witness: it is checked, not trusted) *)

Definition flagF (n : string) : bool := mem_str n nul.
Definition rank_of (n : string) : nat := match assoc_s n ranks with Some k => k | None => 0 end.
Definition prefixed_b : bool :=
  forallb (fun r => negb (pv_rhs tbl (pleaf rs flagF) (rrhs r)) || flagF (rname r)) rs.
Definition shape_b : bool := forallb (fun r => wf_rhs tbl K rs keywords soft_keywords flagF (rrhs r)) rs.
Definition ranks_b : bool :=
  forallb (fun r => forallb (fun m => negb (is_rule rs m) || Nat.ltb (rank_of m) (rank_of (rname r)))
                            (pin_rhs tbl rs flagF (rrhs r))) rs.
(* 0: all conditions hold;  1: the flags are not closed under the nullability equations;  2: a rule can reach itself at
   the same position (the rank does not decrease along some initial invocation);  3: unknown name or repetition of
   something that can match nothing (outside the theorem) *)
Definition term_verdict : nat :=
  if negb prefixed_b then 1 else if negb ranks_b then 2 else if negb shape_b then 3 else 0.

Lemma prefixed_b_sound : prefixed_b = true -> prefixed tbl rs flagF.
Proof.
  unfold prefixed_b, prefixed. intros H name r Er Hv. apply find_rule_some in Er as [Hin <-].
  rewrite forallb_forall in H. specialize (H r Hin). unfold pvr in Hv. rewrite Hv in H. exact H.
Qed.

Theorem checked_total : nul_tbl_ok tbl = true -> term_verdict = 0 ->
  forall toks aeval item_name forced_msg n r p, find_rule rs n = Some r ->
  exists res, peg_item K rs toks keywords soft_keywords aeval item_name forced_msg (NameLeaf n) p res.
Proof.
  intros Hok Hv toks aeval item_name forced_msg n r p Er. unfold term_verdict in Hv.
  destruct prefixed_b eqn:E1; [|discriminate]. destruct ranks_b eqn:E2; [|discriminate]. destruct shape_b eqn:E3; [|discriminate].
  refine (reference_total tbl Hok K rs toks keywords soft_keywords aeval item_name forced_msg flagF (prefixed_b_sound E1) rank_of _ _ n r p Er).
  - intros n0 r0 E0. apply find_rule_some in E0 as [Hin _]. unfold shape_b in E3. rewrite forallb_forall in E3. exact (E3 r0 Hin).
  - intros n0 r0 E0 m Hm Hr. apply find_rule_some in E0 as [Hin <-]. unfold ranks_b in E2. rewrite forallb_forall in E2.
    specialize (E2 r0 Hin). rewrite forallb_forall in E2. specialize (E2 m Hm). rewrite Hr in E2. cbn [negb orb] in E2.
    apply Nat.ltb_lt. exact E2.
Qed.
End Checker.
