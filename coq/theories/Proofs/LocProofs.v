(* Position information: the end token recovered after the fact is the last non-layout token
   before the cursor, whatever happened earlier. *)
From Coq Require Import List String NArith Bool Arith Lia.
From Pegen Require Import Base.StrUtil Runtime.Tokenizer.
Import ListNotations.

Lemma nth_firstn {A} (l : list A) : forall n i, i < n -> nth_error (firstn n l) i = nth_error l i.
Proof. induction l as [|x l IH]; intros [|n] [|i] H; cbn; try lia; auto. apply IH. lia. Qed.
Lemma nth_skipn {A} (l : list A) : forall n i, nth_error (skipn n l) i = nth_error l (n + i).
Proof. induction l as [|x l IH]; intros [|n] i; cbn; auto. destruct i; reflexivity. Qed.

Section L.
Variable C : tokconsts.

Lemma last_non_ws_skip b : forall t rest, Forall (fun x => is_ws C x = true) b -> is_ws C t = false ->
  last_non_ws C (b ++ t :: rest) = Some t.
Proof.
  induction b as [|x b IH]; intros t rest Hb Ht; cbn [app last_non_ws].
  - rewrite Ht. reflexivity.
  - inversion Hb; subst. rewrite H1. rewrite IH by assumption. reflexivity.
Qed.

(* j is the last index below e whose token is not layout: the scan from e finds exactly that token *)
Theorem end_token_spec (toks : list rtok) (e j : nat) (t : rtok) :
  j < e -> e <= List.length toks -> nth_error toks j = Some t -> is_ws C t = false ->
  (forall k x, j < k < e -> nth_error toks k = Some x -> is_ws C x = true) ->
  last_non_ws C (rev (firstn e toks)) = Some t.
Proof.
  intros Hj He Hn Ht Hk.
  assert (Hsplit : firstn e toks = (firstn j toks ++ t :: firstn (e - S j) (skipn (S j) toks))%list).
  { rewrite <- (firstn_skipn j toks) at 1.
    assert (Hl : List.length (firstn j toks) = j) by (apply firstn_length_le; lia).
    rewrite firstn_app, Hl. rewrite firstn_firstn. replace (Nat.min e j) with j by lia.
    f_equal. replace (e - j) with (S (e - S j)) by lia.
    assert (Hs : skipn j toks = t :: skipn (S j) toks).
    { clear -Hn. revert toks Hn. induction j as [|j IH]; intros [|x l] H; cbn in *; try discriminate.
      - injection H as ->. reflexivity.
      - apply IH. exact H. }
    rewrite Hs. reflexivity. }
  rewrite Hsplit, rev_app_distr. cbn [rev]. rewrite <- app_assoc. cbn [app].
  apply last_non_ws_skip; [|exact Ht].
  apply Forall_rev. apply Forall_forall. intros x Hx.
  apply In_nth_error in Hx as [i Hi].
  assert (Hi' : i < e - S j).
  { assert (i < List.length (firstn (e - S j) (skipn (S j) toks))) by (apply nth_error_Some; congruence).
    rewrite firstn_length in H. lia. }
  apply (Hk (S j + i) x); [lia|].
  rewrite nth_firstn in Hi by exact Hi'. rewrite nth_skipn in Hi. exact Hi.
Qed.
End L.
