(* A pure (state-free) reading of a boolean visitor table, and a simulation lemma relating the
   state-passing visitor of Analysis/Visitor.v to it in either direction. *)
From Coq Require Import List String NArith Bool Arith Lia.
From Pegen Require Import Base.StrUtil Grammar.Ast Grammar.Induction Analysis.Visitor.
Import ListNotations.
Open Scope string_scope.

Inductive pval := PB (b : bool) | PL (bs : list bool) | PS (s : string).

Fixpoint peval (e : bexp) (en : list (string * pval)) : bool :=
  match e with
  | BConst b => b
  | BVisit f => match assoc_s f en with Some (PB b) => b | _ => false end
  | BOr a b => peval a en || peval b en
  | BAnd a b => peval a en && peval b en
  | BNot a => negb (peval a en)
  | BNotField f => match assoc_s f en with Some (PS s) => String.eqb s "" | _ => false end
  | BSeq _ b => peval b en
  | BAnyLazy f | BAnyEager f => match assoc_s f en with Some (PL bs) => existsb (fun b => b) bs | _ => false end
  | BAllLazy f | BAllEager f => match assoc_s f en with Some (PL bs) => forallb (fun b => b) bs | _ => false end
  | BStartsWith f p => match assoc_s f en with Some (PS s) => startswith p s | _ => false end
  | BSpecial _ => false
  end.

Fixpoint no_not (e : bexp) : bool :=
  match e with
  | BNot _ => false
  | BOr a b | BAnd a b | BSeq a b => no_not a && no_not b
  | _ => true
  end.

Section Pure.
Variable methods : list (string * bexp).
Variable p_nameleaf : string -> bool.          (* value of visit_NameLeaf when it is a BSpecial *)

Definition pdispatch (cls : string) (en : list (string * pval)) (special : bool) : bool :=
  match assoc_s ("visit_" ++ cls) methods with
  | Some (BSpecial _) => special
  | Some e => peval e en
  | None => false                 (* generic_visit returns None *)
  end.

Fixpoint pv_item (i : item) : bool :=
  match i with
  | NameLeaf n => pdispatch "NameLeaf" [("value", PS n)] (p_nameleaf n)
  | StringLeaf raw => pdispatch "StringLeaf" [("value", PS raw)] false
  | Group r => pdispatch "Group" [("rhs", PB (pv_rhs r))] false
  | Opt j => pdispatch "Opt" [("node", PB (pv_item j))] false
  | Repeat0 _ j => pdispatch "Repeat0" [("node", PB (pv_item j))] false
  | Repeat1 _ j => pdispatch "Repeat1" [("node", PB (pv_item j))] false
  | Gather _ s e => pdispatch "Gather" [("separator", PB (pv_item s)); ("node", PB (pv_item e))] false
  | PosLook j => pdispatch "PositiveLookahead" [("node", PB (pv_item j))] false
  | NegLook j => pdispatch "NegativeLookahead" [("node", PB (pv_item j))] false
  | Forced j => pdispatch "Forced" [("node", PB (pv_item j))] false
  | Cut => pdispatch "Cut" [] false
  | RhsItem r => pv_rhs r
  end
with pv_rhs (r : rhs) : bool :=
  match r with Rhs _ alts =>
    pdispatch "Rhs" [("alts", PL ((fix go (l : list alt) : list bool :=
                                     match l with [] => [] | a :: l' => pv_alt a :: go l' end) alts))] false
  end
with pv_alt (a : alt) : bool :=
  match a with Alt items _ =>
    pdispatch "Alt" [("items", PL ((fix go (l : list nitem) : list bool :=
                                      match l with [] => [] | n :: l' => pv_nitem n :: go l' end) items))] false
  end
with pv_nitem (n : nitem) : bool :=
  match n with NItem _ _ _ i => pdispatch "NamedItem" [("item", PB (pv_item i))] (pv_item i) end.

Lemma pv_item_eq i : pv_item i =
  match i with
  | NameLeaf n => pdispatch "NameLeaf" [("value", PS n)] (p_nameleaf n)
  | StringLeaf raw => pdispatch "StringLeaf" [("value", PS raw)] false
  | Group r => pdispatch "Group" [("rhs", PB (pv_rhs r))] false
  | Opt j => pdispatch "Opt" [("node", PB (pv_item j))] false
  | Repeat0 _ j => pdispatch "Repeat0" [("node", PB (pv_item j))] false
  | Repeat1 _ j => pdispatch "Repeat1" [("node", PB (pv_item j))] false
  | Gather _ s e => pdispatch "Gather" [("separator", PB (pv_item s)); ("node", PB (pv_item e))] false
  | PosLook j => pdispatch "PositiveLookahead" [("node", PB (pv_item j))] false
  | NegLook j => pdispatch "NegativeLookahead" [("node", PB (pv_item j))] false
  | Forced j => pdispatch "Forced" [("node", PB (pv_item j))] false
  | Cut => pdispatch "Cut" [] false
  | RhsItem r => pv_rhs r
  end.
Proof. destruct i; reflexivity. Qed.

Lemma pv_rhs_eq id alts : pv_rhs (Rhs id alts) = pdispatch "Rhs" [("alts", PL (map pv_alt alts))] false.
Proof.
  reflexivity.
Qed.

Lemma pv_alt_eq items act : pv_alt (Alt items act) = pdispatch "Alt" [("items", PL (map pv_nitem items))] false.
Proof.
  reflexivity.
Qed.

Lemma pv_nitem_eq id name ty i :
  pv_nitem (NItem id name ty i) = pdispatch "NamedItem" [("item", PB (pv_item i))] (pv_item i).
Proof. reflexivity. Qed.
End Pure.

(* ---------------- simulation ---------------- *)
Section Sim.
Variable St : Type.
Variable Inv : St -> Prop.
Variable Ok : St -> Prop.            (* "no model error so far" *)
Variable dir : bool.                 (* true: stateful true => pure true;  false: pure true => stateful true *)

Definition V (b p : bool) : Prop := if dir then (b = true -> p = true) else (p = true -> b = true).
Definition Sim (m : M St) (p : bool) : Prop :=
  forall st b st', Inv st -> m st = (b, st') -> Inv st' /\ (Ok st' -> Ok st) /\ (Ok st' -> V b p).

Lemma V_refl b : V b b.
Proof. unfold V. destruct dir; auto. Qed.

Lemma sim_ret b : Sim (ret St b) b.
Proof. intros st b' st' HI [= <- <-]. repeat split; auto. intros _. apply V_refl. Qed.

Lemma sim_bind m p k (q : bool) :
  Sim m p ->
  (forall b, (forall st b0 st', Inv st -> k b st = (b0, st') -> Inv st' /\ (Ok st' -> Ok st))) ->
  (forall b, V b p -> Sim (k b) q) ->
  Sim (bind St m k) q.
Proof.
  intros Hm Hk0 Hk st b st' HI. unfold bind. destruct (m st) as [b1 st1] eqn:E1. intros E2.
  destruct (Hm _ _ _ HI E1) as (HI1 & Hok1 & Hv1).
  destruct (Hk0 b1 _ _ _ HI1 E2) as (HI2 & Hok2).
  split; [exact HI2|]. split; [tauto|]. intros Hok.
  exact (proj2 (proj2 (Hk b1 (Hv1 (Hok2 Hok)) _ _ _ HI1 E2)) Hok).
Qed.

(* every computation we build preserves Inv and Ok-stickiness regardless of values *)
Definition Pres (m : M St) : Prop :=
  forall st b st', Inv st -> m st = (b, st') -> Inv st' /\ (Ok st' -> Ok st).

Lemma sim_pres m p : Sim m p -> Pres m.
Proof. intros H st b st' HI E. destruct (H _ _ _ HI E) as (A & B & _). auto. Qed.

Lemma pres_ret b : Pres (ret St b).
Proof. intros st b' st' HI [= <- <-]. auto. Qed.

Lemma pres_bind m k : Pres m -> (forall b, Pres (k b)) -> Pres (bind St m k).
Proof.
  intros Hm Hk st b st' HI. unfold bind. destruct (m st) as [b1 st1] eqn:E1. intros E2.
  destruct (Hm _ _ _ HI E1) as (HI1 & Hok1). destruct (Hk b1 _ _ _ HI1 E2) as (HI2 & Hok2). tauto.
Qed.

Inductive Rval : fval St -> pval -> Prop :=
| RM m p : Sim m p -> Rval (FM St m) (PB p)
| RL ms ps : Forall2 Sim ms ps -> Rval (FList St ms) (PL ps)
| RS s : Rval (FStr St s) (PS s).

Definition Renv (en : env St) (pen : list (string * pval)) : Prop :=
  Forall2 (fun x y => fst x = fst y /\ Rval (snd x) (snd y)) en pen.

Lemma renv_assoc en pen f : Renv en pen ->
  match assoc_s f en, assoc_s f pen with
  | Some x, Some y => Rval x y
  | None, None => True
  | _, _ => False
  end.
Proof.
  intros H. induction H as [|[k v] [k' v'] en pen [Hk Hv] _ IH]; cbn; [exact I|].
  cbn in Hk. subst k'. destruct (String.eqb f k); [exact Hv|exact IH].
Qed.

Lemma pres_list_any_lazy ms : Forall Pres ms -> Pres (any_lazy St ms).
Proof.
  induction 1 as [|m ms Hm _ IH]; cbn; [apply pres_ret|].
  apply pres_bind; [exact Hm|]. intros [|]; [apply pres_ret|exact IH].
Qed.
Lemma pres_list_all_lazy ms : Forall Pres ms -> Pres (all_lazy St ms).
Proof.
  induction 1 as [|m ms Hm _ IH]; cbn; [apply pres_ret|].
  apply pres_bind; [exact Hm|]. intros [|]; [exact IH|apply pres_ret].
Qed.
Lemma pres_list_any_eager ms : Forall Pres ms -> Pres (any_eager St ms).
Proof.
  induction 1 as [|m ms Hm _ IH]; cbn; [apply pres_ret|].
  apply pres_bind; [exact Hm|]. intros b. apply pres_bind; [exact IH|]. intros r. apply pres_ret.
Qed.
Lemma pres_list_all_eager ms : Forall Pres ms -> Pres (all_eager St ms).
Proof.
  induction 1 as [|m ms Hm _ IH]; cbn; [apply pres_ret|].
  apply pres_bind; [exact Hm|]. intros b. apply pres_bind; [exact IH|]. intros r. apply pres_ret.
Qed.
Lemma pres_run_all ms : Forall Pres ms -> Pres (run_all St ms).
Proof.
  induction 1 as [|m ms Hm _ IH]; cbn; [apply pres_ret|].
  apply pres_bind; [exact Hm|]. intros _. exact IH.
Qed.

Lemma forall2_sim_pres ms ps : Forall2 Sim ms ps -> Forall Pres ms.
Proof. induction 1; constructor; auto. eapply sim_pres; eauto. Qed.

Lemma pres_eval e en pen : Renv en pen -> Pres (eval St e en).
Proof.
  intros HR. induction e; cbn [eval]; try apply pres_ret.
  - pose proof (renv_assoc en pen f HR) as H. destruct (assoc_s f en) as [[m|ms|s]|]; try apply pres_ret.
    destruct (assoc_s f pen); [|destruct H]. inversion H; subst. eapply sim_pres; eauto.
  - apply pres_bind; [exact IHe1|]. intros [|]; [apply pres_ret|exact IHe2].
  - apply pres_bind; [exact IHe1|]. intros [|]; [exact IHe2|apply pres_ret].
  - apply pres_bind; [exact IHe|]. intros b; apply pres_ret.
  - destruct (assoc_s f en) as [[m|ms|s]|]; apply pres_ret.
  - apply pres_bind; [exact IHe1|]. intros _; exact IHe2.
  - pose proof (renv_assoc en pen f HR) as H. destruct (assoc_s f en) as [[m|ms|s]|]; try apply pres_ret.
    destruct (assoc_s f pen); [|destruct H]. inversion H; subst. apply pres_list_any_lazy. eapply forall2_sim_pres; eauto.
  - pose proof (renv_assoc en pen f HR) as H. destruct (assoc_s f en) as [[m|ms|s]|]; try apply pres_ret.
    destruct (assoc_s f pen); [|destruct H]. inversion H; subst. apply pres_list_any_eager. eapply forall2_sim_pres; eauto.
  - pose proof (renv_assoc en pen f HR) as H. destruct (assoc_s f en) as [[m|ms|s]|]; try apply pres_ret.
    destruct (assoc_s f pen); [|destruct H]. inversion H; subst. apply pres_list_all_lazy. eapply forall2_sim_pres; eauto.
  - pose proof (renv_assoc en pen f HR) as H. destruct (assoc_s f en) as [[m|ms|s]|]; try apply pres_ret.
    destruct (assoc_s f pen); [|destruct H]. inversion H; subst. apply pres_list_all_eager. eapply forall2_sim_pres; eauto.
  - destruct (assoc_s f en) as [[m|ms|s]|]; apply pres_ret.
Qed.

(* value half *)
Lemma sim_of_pres m (p : bool) : Pres m -> (forall st b st', Inv st -> m st = (b, st') -> Ok st' -> V b p) -> Sim m p.
Proof. intros HP HV st b st' HI E. destruct (HP _ _ _ HI E) as [A B]. split; [exact A|]. split; [exact B|]. intros Hok. exact (HV _ _ _ HI E Hok). Qed.

Lemma sim_any_lazy ms ps : Forall2 Sim ms ps -> Sim (any_lazy St ms) (existsb (fun b => b) ps).
Proof.
  induction 1 as [|m p ms ps Hm HF IH]; cbn; [apply sim_ret|].
  intros st b st' HI. unfold bind. destruct (m st) as [b1 st1] eqn:E1. intros E2.
  destruct (Hm _ _ _ HI E1) as (HI1 & Hok1 & Hv1).
  destruct b1.
  - injection E2 as <- <-. repeat split; auto. intros Hok. specialize (Hv1 Hok). unfold V in *. destruct dir; intros; auto.
    rewrite Hv1; auto.
  - destruct (IH _ _ _ HI1 E2) as (HI2 & Hok2 & Hv2). repeat split; auto. intros Hok.
    specialize (Hv2 Hok). specialize (Hv1 (Hok2 Hok)). unfold V in *. destruct dir.
    + intros Hb. rewrite (Hv2 Hb). apply orb_true_r.
    + intros Hp. apply orb_prop in Hp as [Hp|Hp]; [specialize (Hv1 Hp); discriminate | auto].
Qed.

Lemma sim_all_lazy ms ps : Forall2 Sim ms ps -> Sim (all_lazy St ms) (forallb (fun b => b) ps).
Proof.
  induction 1 as [|m p ms ps Hm HF IH]; cbn; [apply sim_ret|].
  intros st b st' HI. unfold bind. destruct (m st) as [b1 st1] eqn:E1. intros E2.
  destruct (Hm _ _ _ HI E1) as (HI1 & Hok1 & Hv1).
  destruct b1.
  - destruct (IH _ _ _ HI1 E2) as (HI2 & Hok2 & Hv2). repeat split; auto. intros Hok.
    specialize (Hv2 Hok). specialize (Hv1 (Hok2 Hok)). unfold V in *. destruct dir.
    + intros Hb. rewrite (Hv1 eq_refl), (Hv2 Hb). reflexivity.
    + intros Hp. apply andb_prop in Hp as [_ Hp]. auto.
  - injection E2 as <- <-. repeat split; auto. intros Hok. specialize (Hv1 Hok). unfold V in *. destruct dir.
    + discriminate.
    + intros Hp. apply andb_prop in Hp as [Hp _]. specialize (Hv1 Hp). discriminate.
Qed.

Lemma sim_any_eager ms ps : Forall2 Sim ms ps -> Sim (any_eager St ms) (existsb (fun b => b) ps).
Proof.
  induction 1 as [|m p ms ps Hm HF IH]; cbn; [apply sim_ret|].
  intros st b st' HI. unfold bind. destruct (m st) as [b1 st1] eqn:E1.
  destruct (any_eager St ms st1) as [b2 st2] eqn:E2. unfold ret. intros [= <- <-].
  destruct (Hm _ _ _ HI E1) as (HI1 & Hok1 & Hv1). destruct (IH _ _ _ HI1 E2) as (HI2 & Hok2 & Hv2).
  repeat split; auto. intros Hok. specialize (Hv2 Hok). specialize (Hv1 (Hok2 Hok)). unfold V in *. destruct dir.
  - intros Hb. apply orb_prop in Hb as [Hb|Hb]; [rewrite (Hv1 Hb); reflexivity | rewrite (Hv2 Hb); apply orb_true_r].
  - intros Hp. apply orb_prop in Hp as [Hp|Hp]; [rewrite (Hv1 Hp); reflexivity | rewrite (Hv2 Hp); apply orb_true_r].
Qed.

Lemma sim_all_eager ms ps : Forall2 Sim ms ps -> Sim (all_eager St ms) (forallb (fun b => b) ps).
Proof.
  induction 1 as [|m p ms ps Hm HF IH]; cbn; [apply sim_ret|].
  intros st b st' HI. unfold bind. destruct (m st) as [b1 st1] eqn:E1.
  destruct (all_eager St ms st1) as [b2 st2] eqn:E2. unfold ret. intros [= <- <-].
  destruct (Hm _ _ _ HI E1) as (HI1 & Hok1 & Hv1). destruct (IH _ _ _ HI1 E2) as (HI2 & Hok2 & Hv2).
  repeat split; auto. intros Hok. specialize (Hv2 Hok). specialize (Hv1 (Hok2 Hok)). unfold V in *. destruct dir.
  - intros Hb. apply andb_prop in Hb as [Hb1 Hb2]. rewrite (Hv1 Hb1), (Hv2 Hb2). reflexivity.
  - intros Hp. apply andb_prop in Hp as [Hp1 Hp2]. rewrite (Hv1 Hp1), (Hv2 Hp2). reflexivity.
Qed.

Ltac assoc_cases HR f :=
  let H := fresh "H" in
  pose proof (renv_assoc _ _ f HR) as H;
  match goal with
  | H : match assoc_s f ?en with _ => _ end |- _ =>
      destruct (assoc_s f en) as [?x|]; match type of H with
      | match assoc_s f ?pen with _ => _ end => destruct (assoc_s f pen) as [?y|]
      end; try contradiction; [inversion H; subst; clear H|clear H]
  end.

Lemma sim_eval e en pen : no_not e = true -> Renv en pen -> Sim (eval St e en) (peval e pen).
Proof.
  intros Hn HR. induction e; cbn [eval peval]; cbn [no_not] in Hn; try discriminate.
  - apply sim_ret.
  - assoc_cases HR f; try apply sim_ret. assumption.
  - (* BOr *) apply andb_prop in Hn as [H1 H2]. specialize (IHe1 H1). specialize (IHe2 H2).
    intros st b st' HI. unfold bind. destruct (eval St e1 en st) as [b1 st1] eqn:E1. intros E2.
    destruct (IHe1 _ _ _ HI E1) as (HI1 & Hok1 & Hv1). destruct b1.
    + injection E2 as <- <-. repeat split; auto. intros Hok. specialize (Hv1 Hok). unfold V in *. destruct dir; auto.
      intros _. rewrite (Hv1 eq_refl). reflexivity.
    + destruct (IHe2 _ _ _ HI1 E2) as (HI2 & Hok2 & Hv2). repeat split; auto. intros Hok.
      specialize (Hv2 Hok). specialize (Hv1 (Hok2 Hok)). unfold V in *. destruct dir.
      * intros Hb. rewrite (Hv2 Hb). apply orb_true_r.
      * intros Hp. apply orb_prop in Hp as [Hp|Hp]; [specialize (Hv1 Hp); discriminate|auto].
  - (* BAnd *) apply andb_prop in Hn as [H1 H2]. specialize (IHe1 H1). specialize (IHe2 H2).
    intros st b st' HI. unfold bind. destruct (eval St e1 en st) as [b1 st1] eqn:E1. intros E2.
    destruct (IHe1 _ _ _ HI E1) as (HI1 & Hok1 & Hv1). destruct b1.
    + destruct (IHe2 _ _ _ HI1 E2) as (HI2 & Hok2 & Hv2). repeat split; auto. intros Hok.
      specialize (Hv2 Hok). specialize (Hv1 (Hok2 Hok)). unfold V in *. destruct dir.
      * intros Hb. rewrite (Hv1 eq_refl), (Hv2 Hb). reflexivity.
      * intros Hp. apply andb_prop in Hp as [_ Hp]. auto.
    + injection E2 as <- <-. repeat split; auto. intros Hok. specialize (Hv1 Hok). unfold V in *. destruct dir.
      * discriminate.
      * intros Hp. apply andb_prop in Hp as [Hp _]. specialize (Hv1 Hp). discriminate.
  - (* BNotField *) assoc_cases HR f; apply sim_ret.
  - (* BSeq *) apply andb_prop in Hn as [H1 H2]. specialize (IHe1 H1). specialize (IHe2 H2).
    intros st b st' HI. unfold bind. destruct (eval St e1 en st) as [b1 st1] eqn:E1. intros E2.
    destruct (IHe1 _ _ _ HI E1) as (HI1 & Hok1 & _). destruct (IHe2 _ _ _ HI1 E2) as (HI2 & Hok2 & Hv2).
    repeat split; auto.
  - assoc_cases HR f; try apply sim_ret. apply sim_any_lazy; assumption.
  - assoc_cases HR f; try apply sim_ret. apply sim_any_eager; assumption.
  - assoc_cases HR f; try apply sim_ret. apply sim_all_lazy; assumption.
  - assoc_cases HR f; try apply sim_ret. apply sim_all_eager; assumption.
  - assoc_cases HR f; apply sim_ret.
  - apply sim_ret.
Qed.

(* generic_visit: value false on both sides *)
Lemma sim_generic fs en pen : Renv en pen -> Sim (generic St fs en) false.
Proof.
  intros HR. apply sim_of_pres.
  - induction fs as [|f fs IH]; cbn; [apply pres_ret|].
    assoc_cases HR f; try apply pres_ret;
      (apply pres_bind; [first [eapply sim_pres; eassumption | apply pres_run_all; eapply forall2_sim_pres; eassumption]
                        |intros _; exact IH]).
  - intros st b st' HI E Hok.
    assert (b = false).
    { clear -E. revert st b st' E. induction fs as [|f fs IH]; cbn; intros st b st'; [intros [= <- _]; reflexivity|].
      destruct (assoc_s f en) as [[m|ms|s]|]; try (intros [= <- _]; reflexivity).
      - unfold bind. destruct (m st). apply IH.
      - unfold bind. destruct (run_all St ms st). apply IH. }
    subst b. unfold V. destruct dir; auto; discriminate.
Qed.
End Sim.

(* ---------------- lifting the simulation to whole items ---------------- *)
Section Lift.
Variable St : Type.
Variable Inv : St -> Prop.
Variable Ok : St -> Prop.
Variable dir : bool.
Variable methods : list (string * bexp).
Variable iter_fields : list (string * list string).
Variable sp_nitem : nitem -> M St -> M St.
Variable sp_nameleaf : string -> M St.
Variable p_nameleaf : string -> bool.
Variable okn : nitem -> Prop.                (* side condition on named items, threaded structurally *)

Notation Sim' := (Sim St Inv Ok dir).
Notation vi := (v_item St methods iter_fields sp_nitem sp_nameleaf).
Notation vr := (v_rhs St methods iter_fields sp_nitem sp_nameleaf).
Notation va := (v_alt St methods iter_fields sp_nitem sp_nameleaf).
Notation vn := (v_nitem St methods iter_fields sp_nitem sp_nameleaf).
Notation pi := (pv_item methods p_nameleaf).
Notation pr := (pv_rhs methods p_nameleaf).
Notation pa := (pv_alt methods p_nameleaf).
Notation pn := (pv_nitem methods p_nameleaf).

Hypothesis Hmono : forallb (fun kv => no_not (snd kv)) methods = true.
Hypothesis Hleaf : forall n, Sim' (sp_nameleaf n) (p_nameleaf n).
Hypothesis Hnitem : forall n m, okn n -> Sim' m (pi (ni_item n)) -> Sim' (sp_nitem n m) (pi (ni_item n)).

Fixpoint ok_item (i : item) : Prop :=
  match i with
  | NameLeaf _ | StringLeaf _ | Cut => True
  | Group r | RhsItem r => ok_rhs r
  | Opt j | Repeat0 _ j | Repeat1 _ j | PosLook j | NegLook j | Forced j => ok_item j
  | Gather _ s e => ok_item s /\ ok_item e
  end
with ok_rhs (r : rhs) : Prop :=
  match r with Rhs _ alts =>
    (fix go (l : list alt) := match l with [] => True | a :: l' => ok_alt a /\ go l' end) alts end
with ok_alt (a : alt) : Prop :=
  match a with Alt items _ =>
    (fix go (l : list nitem) := match l with [] => True | n :: l' => ok_nitem n /\ go l' end) items end
with ok_nitem (n : nitem) : Prop :=
  match n with NItem _ _ _ i => okn n /\ ok_item i end.

Lemma assoc_no_not k e : assoc_s k methods = Some e -> no_not e = true.
Proof.
  clear -Hmono. induction methods as [|[k' e'] ms IH]; cbn in *; [discriminate|].
  apply andb_prop in Hmono as [H1 H2]. destruct (String.eqb k k'); [intros [= <-]; exact H1 | apply IH; exact H2].
Qed.

Lemma sim_dispatch cls en pen sp psp :
  Sim' sp psp -> Renv St Inv Ok dir en pen ->
  Sim' (dispatch St methods iter_fields cls en sp) (pdispatch methods cls pen psp).
Proof.
  intros Hs HR. unfold dispatch, pdispatch.
  destruct (assoc_s ("visit_" ++ cls) methods) as [e|] eqn:E.
  - pose proof (assoc_no_not _ _ E) as Hn.
    destruct e; try (apply sim_eval; assumption). exact Hs.
  - destruct (assoc_s cls iter_fields); [eapply sim_generic; eassumption | apply sim_ret].
Qed.

Lemma renv0 : Renv St Inv Ok dir [] [].
Proof. constructor. Qed.
Lemma renv1 f x y : Rval St Inv Ok dir x y -> Renv St Inv Ok dir [(f, x)] [(f, y)].
Proof. intros H. constructor; [split; [reflexivity|exact H]|constructor]. Qed.
Lemma renv2 f x y g x' y' : Rval St Inv Ok dir x y -> Rval St Inv Ok dir x' y' ->
  Renv St Inv Ok dir [(f, x); (g, x')] [(f, y); (g, y')].
Proof. intros H H'. constructor; [split; [reflexivity|exact H]|]. apply renv1; exact H'. Qed.

Lemma sim_items :
  (forall i, ok_item i -> Sim' (vi i) (pi i)) /\
  (forall r, ok_rhs r -> Sim' (vr r) (pr r)) /\
  (forall a, ok_alt a -> Sim' (va a) (pa a)) /\
  (forall n, ok_nitem n -> Sim' (vn n) (pn n)).
Proof.
  apply grammar_ast_ind.
  - intros n _. cbn. apply sim_dispatch; [apply Hleaf | apply renv1; constructor].
  - intros s _. cbn. apply sim_dispatch; [apply sim_ret | apply renv1; constructor].
  - intros r IH H. cbn in *. apply sim_dispatch; [apply sim_ret | apply renv1; constructor; auto].
  - intros i IH H. cbn in *. apply sim_dispatch; [apply sim_ret | apply renv1; constructor; auto].
  - intros id i IH H. cbn in *. apply sim_dispatch; [apply sim_ret | apply renv1; constructor; auto].
  - intros id i IH H. cbn in *. apply sim_dispatch; [apply sim_ret | apply renv1; constructor; auto].
  - intros id s e IHs IHe H. cbn in *. destruct H as [H1 H2].
    apply sim_dispatch; [apply sim_ret | apply renv2; constructor; auto].
  - intros i IH H. cbn in *. apply sim_dispatch; [apply sim_ret | apply renv1; constructor; auto].
  - intros i IH H. cbn in *. apply sim_dispatch; [apply sim_ret | apply renv1; constructor; auto].
  - intros i IH H. cbn in *. apply sim_dispatch; [apply sim_ret | apply renv1; constructor; auto].
  - intros _. cbn. apply sim_dispatch; [apply sim_ret | apply renv0].
  - intros r IH H. cbn in *. auto.
  - intros id alts HF H. cbn [v_rhs pv_rhs ok_rhs] in *.
    apply sim_dispatch; [apply sim_ret|]. apply renv1. constructor.
    induction HF as [|a alts Ha HF IH]; cbn; [constructor|].
    destruct H as [H1 H2]. constructor; [apply Ha; exact H1 | apply IH; exact H2].
  - intros items act HF H. cbn [v_alt pv_alt ok_alt] in *.
    apply sim_dispatch; [apply sim_ret|]. apply renv1. constructor.
    induction HF as [|n items Hn HF IH]; cbn; [constructor|].
    destruct H as [H1 H2]. constructor; [apply Hn; exact H1 | apply IH; exact H2].
  - intros id name ty i IH H. cbn [v_nitem pv_nitem ok_nitem] in *. destruct H as [H1 H2].
    apply sim_dispatch; [apply (Hnitem (NItem id name ty i)); [exact H1 | apply IH; exact H2] | apply renv1; constructor; auto].
Qed.
End Lift.
