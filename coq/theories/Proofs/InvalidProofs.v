(* The (table-driven) InvalidNodeVisitor answers true exactly for the alternatives that mention a
   rule whose name starts with "invalid" at any nesting depth -- under decidable conditions on the
   extracted method table. *)
From Coq Require Import List String NArith Bool Arith.
From Pegen Require Import Base.StrUtil Grammar.Ast Grammar.Induction Analysis.Visitor Proofs.VisitorSim.
Import ListNotations.
Open Scope string_scope.

(* specification: does an invalid_ name occur anywhere in the tree? *)
Fixpoint m_item (i : item) : bool :=
  match i with
  | NameLeaf n => startswith "invalid" n
  | StringLeaf _ | Cut => false
  | Group r | RhsItem r => m_rhs r
  | Opt j | Repeat0 _ j | Repeat1 _ j | PosLook j | NegLook j | Forced j => m_item j
  | Gather _ s e => m_item s || m_item e
  end
with m_rhs (r : rhs) : bool :=
  match r with Rhs _ alts =>
    existsb (fun b => b) ((fix go (l : list alt) := match l with [] => [] | a :: l' => m_alt a :: go l' end) alts) end
with m_alt (a : alt) : bool :=
  match a with Alt items _ =>
    existsb (fun b => b) ((fix go (l : list nitem) := match l with [] => [] | n :: l' => m_nitem n :: go l' end) items) end
with m_nitem (n : nitem) : bool :=
  match n with NItem _ _ _ i => m_item i end.

Section T.
Variable tbl : list (string * bexp).

Definition unary_ok (cls field : string) : bool :=
  Bool.eqb (pdispatch tbl cls [(field, PB true)] false) true && Bool.eqb (pdispatch tbl cls [(field, PB false)] false) false.
Definition is_any (cls field : string) : bool :=
  match assoc_s ("visit_" ++ cls) tbl with
  | Some (BAnyLazy f) | Some (BAnyEager f) => String.eqb f field
  | _ => false
  end.
Definition gather_ok : bool :=
  forallb (fun bb => Bool.eqb (pdispatch tbl "Gather" [("separator", PB (fst bb)); ("node", PB (snd bb))] false) (fst bb || snd bb))
          [(true, true); (true, false); (false, true); (false, false)].
Definition nameleaf_ok : bool :=
  match assoc_s "visit_NameLeaf" tbl with
  | Some (BStartsWith f p) => String.eqb f "value" && String.eqb p "invalid"
  | _ => false
  end.
Definition const_false_ok (cls : string) : bool :=
  match assoc_s ("visit_" ++ cls) tbl with Some (BConst b) => negb b | None => true | _ => false end.
Definition nitem_ok : bool :=
  Bool.eqb (pdispatch tbl "NamedItem" [("item", PB true)] true) true &&
  Bool.eqb (pdispatch tbl "NamedItem" [("item", PB false)] false) false.

Definition detector_ok : bool :=
  unary_ok "Group" "rhs" && unary_ok "Opt" "node" && unary_ok "Repeat0" "node" && unary_ok "Repeat1" "node" &&
  unary_ok "PositiveLookahead" "node" && unary_ok "NegativeLookahead" "node" && unary_ok "Forced" "node" &&
  gather_ok && is_any "Rhs" "alts" && is_any "Alt" "items" && nitem_ok && nameleaf_ok &&
  const_false_ok "StringLeaf" && const_false_ok "Cut".

Lemma unary_spec cls field b : unary_ok cls field = true -> pdispatch tbl cls [(field, PB b)] false = b.
Proof.
  unfold unary_ok. intros H. apply andb_prop in H as [H1 H2]. apply eqb_prop in H1. apply eqb_prop in H2.
  destruct b; assumption.
Qed.

Lemma any_spec cls field bs : is_any cls field = true ->
  pdispatch tbl cls [(field, PL bs)] false = existsb (fun b => b) bs.
Proof.
  unfold is_any, pdispatch. destruct (assoc_s ("visit_" ++ cls) tbl) as [e|]; [|discriminate].
  destruct e; try discriminate; intros H; apply String.eqb_eq in H; subst; cbn; rewrite String.eqb_refl; reflexivity.
Qed.

Lemma gather_spec a b : gather_ok = true ->
  pdispatch tbl "Gather" [("separator", PB a); ("node", PB b)] false = a || b.
Proof.
  unfold gather_ok. cbn [forallb fst snd]. intros H.
  repeat (apply andb_prop in H as [?H H]). destruct a, b; cbn; apply eqb_prop; assumption.
Qed.

Lemma const_false_spec cls en : const_false_ok cls = true -> pdispatch tbl cls en false = false.
Proof.
  unfold const_false_ok, pdispatch. destruct (assoc_s ("visit_" ++ cls) tbl) as [e|]; [|reflexivity].
  destruct e; try discriminate. cbn. intros H. apply negb_true_iff in H. exact H.
Qed.

Notation pl := (fun _ : string => false).

Theorem detector_exact : detector_ok = true ->
  (forall i, pv_item tbl pl i = m_item i) /\ (forall r, pv_rhs tbl pl r = m_rhs r) /\
  (forall a, pv_alt tbl pl a = m_alt a) /\ (forall n, pv_nitem tbl pl n = m_nitem n).
Proof.
  unfold detector_ok. intros Hok.
  do 13 (apply andb_prop in Hok as [Hok ?H]).
  apply grammar_ast_ind.
  - intros n. rewrite pv_item_eq. unfold nameleaf_ok in *. unfold pdispatch.
    change ("visit_" ++ "NameLeaf") with "visit_NameLeaf".
    destruct (assoc_s "visit_NameLeaf" tbl) as [e|]; [|discriminate].
    destruct e; try discriminate.
    match goal with Hx : (String.eqb f "value" && String.eqb p "invalid") = true |- _ =>
      apply andb_prop in Hx as [Hf Hp]; apply String.eqb_eq in Hf; apply String.eqb_eq in Hp; subst end.
    reflexivity.
  - intros s. rewrite pv_item_eq. apply const_false_spec; assumption.
  - intros r IH. rewrite (pv_item_eq _ _ (Group r)), IH. cbn [m_item]. apply unary_spec; assumption.
  - intros i IH. rewrite (pv_item_eq _ _ (Opt i)), IH. cbn [m_item]. apply unary_spec; assumption.
  - intros id i IH. rewrite (pv_item_eq _ _ (Repeat0 id i)), IH. cbn [m_item]. apply unary_spec; assumption.
  - intros id i IH. rewrite (pv_item_eq _ _ (Repeat1 id i)), IH. cbn [m_item]. apply unary_spec; assumption.
  - intros id s e IHs IHe. rewrite (pv_item_eq _ _ (Gather id s e)), IHs, IHe. cbn [m_item]. apply gather_spec; assumption.
  - intros i IH. rewrite (pv_item_eq _ _ (PosLook i)), IH. cbn [m_item]. apply unary_spec; assumption.
  - intros i IH. rewrite (pv_item_eq _ _ (NegLook i)), IH. cbn [m_item]. apply unary_spec; assumption.
  - intros i IH. rewrite (pv_item_eq _ _ (Forced i)), IH. cbn [m_item]. apply unary_spec; assumption.
  - rewrite pv_item_eq. apply const_false_spec; assumption.
  - intros r IH. rewrite (pv_item_eq _ _ (RhsItem r)). exact IH.
  - intros id alts HF. rewrite pv_rhs_eq, any_spec by assumption. cbn [m_rhs]. f_equal.
    induction HF as [|a l Ha _ IH]; [reflexivity|]. cbn [map]. now rewrite Ha, IH.
  - intros items act HF. rewrite pv_alt_eq, any_spec by assumption. cbn [m_alt]. f_equal.
    induction HF as [|a l Ha _ IH]; [reflexivity|]. cbn [map]. now rewrite Ha, IH.
  - intros id name ty i IH. rewrite pv_nitem_eq, IH. cbn [m_nitem].
    match goal with Hx : nitem_ok = true |- _ => unfold nitem_ok in Hx; apply andb_prop in Hx as [Hn1 Hn2];
      apply eqb_prop in Hn1; apply eqb_prop in Hn2 end.
    destruct (m_item i); assumption.
Qed.
End T.

(* the state-passing reading used by the generator model equals the pure reading *)
Section Link.
Variable tbl : list (string * bexp).
Variable itf : list (string * list string).
Hypothesis Hmono : forallb (fun kv => no_not (snd kv)) tbl = true.

Definition inv_alt (a : alt) : bool :=
  fst (v_alt unit tbl itf (fun _ m => m) (fun _ => ret unit false) a tt).

Lemma ok_true_all :
  (forall i, ok_item (fun _ => True) i) /\ (forall r, ok_rhs (fun _ => True) r) /\
  (forall a, ok_alt (fun _ => True) a) /\ (forall n, ok_nitem (fun _ => True) n).
Proof.
  apply grammar_ast_ind; cbn; auto.
  - intros id alts HF. induction HF; cbn; auto.
  - intros items act HF. induction HF; cbn; auto.
Qed.

Lemma inv_alt_pure a : inv_alt a = pv_alt tbl (fun _ => false) a.
Proof.
  unfold inv_alt.
  assert (Hs : forall dir, Sim unit (fun _ => True) (fun _ => True) dir
                 (v_alt unit tbl itf (fun _ m => m) (fun _ => ret unit false) a) (pv_alt tbl (fun _ => false) a)).
  { intros dir.
    exact (proj1 (proj2 (proj2 (sim_items unit (fun _ => True) (fun _ => True) dir tbl itf (fun _ m => m)
                    (fun _ => ret unit false) (fun _ => false) (fun _ => True) Hmono
                    (fun n => sim_ret unit _ _ dir false) (fun n m _ H => H)))) a (proj1 (proj2 (proj2 ok_true_all)) a)). }
  destruct (v_alt unit tbl itf (fun _ m => m) (fun _ => ret unit false) a tt) as [b u] eqn:E. cbn.
  destruct (Hs true tt b u I E) as (_ & _ & H1). destruct (Hs false tt b u I E) as (_ & _ & H2).
  specialize (H1 I). specialize (H2 I). unfold V in *.
  destruct b, (pv_alt tbl (fun _ => false) a); auto; try (specialize (H1 eq_refl); discriminate); try (specialize (H2 eq_refl); discriminate).
Qed.

Theorem guard_exact a : detector_ok tbl = true -> inv_alt a = m_alt a.
Proof. intros H. rewrite inv_alt_pure. exact (proj1 (proj2 (proj2 (detector_exact tbl H))) a). Qed.
End Link.
