(* FirstClosed instantiated with the analysis: for every grammar whose first graph has no cycle (a rank that decreases
   along initial invocations, as computed with the per-item flags of compute_nullables), the table the model of
   FirstSetCalculator computes is closed under the FIRST equations -- hence, with FirstSound, sound. *)
From Coq Require Import List String NArith Bool Arith Lia.
From Pegen Require Import Base.StrUtil Grammar.Ast Grammar.Induction Analysis.Visitor Analysis.Nullable
  Analysis.FirstSets Analysis.FirstPure Proofs.VisitorSim Proofs.NullableProofs Proofs.NullSem Proofs.VisitAll
  Proofs.NullableItems Proofs.FirstClosed.
Import ListNotations.
Open Scope string_scope.

(* leaf values are not the empty string (no rule, token or literal is called "") *)
Fixpoint ne_item (i : item) : bool :=
  match i with
  | NameLeaf n => negb (String.eqb n "")
  | StringLeaf raw => negb (String.eqb raw "")
  | Group r | RhsItem r => ne_rhs r
  | Opt j | Repeat0 _ j | Repeat1 _ j | PosLook j | NegLook j | Forced j => ne_item j
  | Gather _ s e => ne_item s && ne_item e
  | Cut => true
  end
with ne_rhs (r : rhs) : bool :=
  match r with Rhs _ alts => (fix go (l : list alt) := match l with [] => true | a :: l' => ne_alt a && go l' end) alts end
with ne_alt (a : alt) : bool :=
  match a with Alt items _ => (fix go (l : list nitem) := match l with [] => true | n :: l' => ne_nitem n && go l' end) items end
with ne_nitem (n : nitem) : bool := match n with NItem _ _ _ i => ne_item i end.
Lemma ne_rhs_eq id alts : ne_rhs (Rhs id alts) = forallb ne_alt alts.
Proof. cbn [ne_rhs]. induction alts as [|a l IH]; [reflexivity|]. cbn [forallb]. rewrite <- IH. reflexivity. Qed.
Lemma ne_alt_eq items act : ne_alt (Alt items act) = forallb ne_nitem items.
Proof. cbn [ne_alt]. induction items as [|a l IH]; [reflexivity|]. cbn [forallb]. rewrite <- IH. reflexivity. Qed.
Definition ne_rules (rs : list rule) : bool := forallb (fun r => ne_rhs (rrhs r)) rs.

(* every NamedItem inside a node whose leaves are non-empty holds an item whose leaves are non-empty *)
Lemma ne_inside :
  (forall i, ne_item i = true -> forall n, In n (inside_item i) -> ne_item (ni_item n) = true) /\
  (forall r, ne_rhs r = true -> forall n, In n (inside_rhs r) -> ne_item (ni_item n) = true) /\
  (forall a, ne_alt a = true -> forall n, In n (inside_alt a) -> ne_item (ni_item n) = true) /\
  (forall n0, ne_nitem n0 = true -> forall n, In n (inside_nitem n0) -> ne_item (ni_item n) = true).
Proof.
  apply grammar_ast_ind; cbn [inside_item ne_item]; try (intros; contradiction); auto.
  - intros id s e IHs IHe H n Hn. apply andb_prop in H as [H1 H2]. apply in_app_or in Hn as [Hn|Hn]; auto.
  - intros id alts HF H n Hn. rewrite inside_rhs_eq in Hn. rewrite ne_rhs_eq in H.
    induction HF as [|a l Ha _ IH]; cbn in Hn; [contradiction|]. cbn [forallb] in H. apply andb_prop in H as [H1 H2].
    apply in_app_or in Hn as [Hn|Hn]; [exact (Ha H1 n Hn)|exact (IH H2 Hn)].
  - intros items act HF H n Hn. rewrite inside_alt_eq in Hn. rewrite ne_alt_eq in H.
    induction HF as [|a l Ha _ IH]; cbn in Hn; [contradiction|]. cbn [forallb] in H. apply andb_prop in H as [H1 H2].
    apply in_app_or in Hn as [Hn|Hn]; [exact (Ha H1 n Hn)|exact (IH H2 Hn)].
  - intros id nm ty i IH H n Hn. cbn [ne_nitem] in H. cbn [inside_nitem] in Hn.
    destruct Hn as [<-|Hn]; [exact H|exact (IH H n Hn)].
Qed.

Section Inst.
Variable tbl : list (string * bexp).
Hypothesis Hok : nul_tbl_ok tbl = true.
Variable rs : list rule.
Variable F : string -> bool.

Notation nvi := (pv_item tbl (pleaf rs F)).

Lemma ok_facts :
  always_true tbl "Opt" "node" = true /\ always_true tbl "Repeat0" "node" = true /\
  always_true tbl "PositiveLookahead" "node" = true /\ always_true tbl "NegativeLookahead" "node" = true /\
  passes tbl "Forced" "node" = true /\ passes tbl "Repeat1" "node" = true /\
  pdispatch tbl "Gather" [("separator", PB true); ("node", PB true)] false = true /\
  pdispatch tbl "Gather" [("separator", PB false); ("node", PB true)] false = true /\
  special tbl "NameLeaf" = true.
Proof.
  pose proof Hok as H. unfold nul_tbl_ok in H. do 13 (apply andb_prop in H as [H ?Hc]). repeat split; assumption.
Qed.

Lemma no_empty_rhs T nulf r : ~ In "" (pf_rhs rs T nulf r).
Proof.
  destruct r as [id alts]. rewrite pf_rhs_eq. induction alts as [|a l IH]; cbn [pf_alts]; [intros []|].
  rewrite sunion_in. intros [H|H]; [|exact (IH H)]. destruct a as [items act]. rewrite pf_alt_eq in H.
  apply sdiscard_in in H as [_ H]. apply H. reflexivity.
Qed.

(* "" in the FIRST set of an item means the item can match nothing *)
Lemma empty_means_nullable T : (forall k, is_rule rs k = true -> mem_str "" (T k) = true -> F k = true) ->
  forall i, ne_item i = true -> mem_str "" (pf_item rs T nvi i) = true -> nvi i = true.
Proof.
  intros HT. destruct ok_facts as (A1 & A2 & A3 & A4 & A5 & A6 & A7 & A8 & A9).
  induction i as [n|raw|r|j IH|id j IH|id j IH|id s IHs e IHe|j IH|j IH|j IH| |r]; intros Hne Hm.
  - cbn [pf_item] in Hm. cbn [ne_item] in Hne. rewrite pv_item_eq, (special_spec tbl "NameLeaf" _ _ A9). unfold pleaf.
    destruct (find_rule rs n) as [r|] eqn:Ef.
    + apply HT; [unfold is_rule; rewrite Ef; reflexivity|exact Hm].
    + exfalso. destruct n; [discriminate Hne|]. unfold mem_str in Hm. cbn in Hm. discriminate Hm.
  - exfalso. cbn [pf_item] in Hm. cbn [ne_item] in Hne. destruct raw; [discriminate Hne|]. unfold mem_str in Hm. cbn in Hm. discriminate Hm.
  - exfalso. cbn [pf_item] in Hm. apply mem_str_In' in Hm. exact (no_empty_rhs _ _ _ Hm).
  - rewrite (pv_item_eq _ _ (Opt j)). apply always_spec. exact A1.
  - rewrite (pv_item_eq _ _ (Repeat0 id j)). apply always_spec. exact A2.
  - rewrite (pv_item_eq _ _ (Repeat1 id j)). cbn [pf_item ne_item] in *. rewrite (IH Hne Hm). exact A6.
  - rewrite (pv_item_eq _ _ (Gather id s e)). cbn [pf_item ne_item] in *. apply andb_prop in Hne as [_ Hne].
    rewrite (IHe Hne Hm). destruct (nvi s); assumption.
  - rewrite (pv_item_eq _ _ (PosLook j)). apply always_spec. exact A3.
  - rewrite (pv_item_eq _ _ (NegLook j)). apply always_spec. exact A4.
  - rewrite (pv_item_eq _ _ (Forced j)). cbn [pf_item ne_item] in *. rewrite (IH Hne Hm). exact A5.
  - cbn [pf_item] in Hm. discriminate.
  - exfalso. cbn [pf_item] in Hm. apply mem_str_In' in Hm. exact (no_empty_rhs _ _ _ Hm).
Qed.
End Inst.

(* a decidable reading of "no rule reaches itself at one position", for a rank given as a table *)
Definition rank_of (ranks : list (string * nat)) (n : string) : nat := match assoc_s n ranks with Some k => k | None => 0 end.
Definition acyclic_b (rs : list rule) (inl : N -> bool) (ranks : list (string * nat)) : bool :=
  forallb (fun r => forallb (fun m => negb (is_rule rs m) || Nat.ltb (rank_of ranks m) (rank_of ranks (rname r)))
                            (in_rhs inl (rrhs r))) rs.

Theorem first_sets_closed tbl itf rs st T ranks :
  monotone_tbl tbl = true -> visit_all_ok tbl itf = true -> nul_tbl_ok tbl = true ->
  NoDup (map rname rs) -> ids_consistent rs -> ne_rules rs = true ->
  compute_nullables tbl itf rs = Some st ->
  acyclic_b rs (fun k => memN k (n_items st)) ranks = true ->
  first_sets tbl itf rs = Some T ->
  closed_b rs (table_fun T) (pv_item tbl (pleaf rs (flags_of st))) = true.
Proof.
  intros Hm Hv Hok Hn Hids Hne Hc Hac Hfs. unfold first_sets in Hfs. rewrite Hc in Hfs.
  apply (calculate_closed rs (fun n => mem_str n (n_rules st)) (fun k => memN k (n_items st))
           (pv_item tbl (pleaf rs (flags_of st))) (rank_of ranks) ne_item Hn); [| | | |exact Hfs].
  - intros r n Hr Hin. split.
    + exact (item_flags_exact tbl itf rs Hm Hn Hv st Hids Hc r n Hr Hin).
    + unfold ne_rules in Hne. rewrite forallb_forall in Hne. exact (proj1 (proj2 ne_inside) (rrhs r) (Hne r Hr) n Hin).
  - intros r Hr m Hin Hrule. unfold acyclic_b in Hac. rewrite forallb_forall in Hac. specialize (Hac r Hr).
    rewrite forallb_forall in Hac. specialize (Hac m Hin). rewrite Hrule in Hac. cbn [negb orb] in Hac. apply Nat.ltb_lt. exact Hac.
  - intros j. rewrite (pv_item_eq _ _ (NegLook j)). apply always_spec.
    pose proof Hok as H. unfold nul_tbl_ok in H. do 13 (apply andb_prop in H as [H ?Hc0]). assumption.
  - intros T0 i Hg HT Hmem. exact (empty_means_nullable tbl Hok rs (flags_of st) T0 HT i Hg Hmem).
Qed.
