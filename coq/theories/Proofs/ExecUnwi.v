(* With error mode off a *_without_invalid method does nothing special: it switches the flag off (it is off) and restores
   it (to off).  The module with every such mark REMOVED computes, from any state whose flag is off, the same outcome and
   the same state as the module itself. *)
From Coq Require Import List String NArith ZArith Bool Arith Lia.
From Pegen Require Import Base.StrUtil Base.Values Runtime.Tokenizer Sem.Peg Gen.Gen Runtime.Exec Proofs.ExecFlag.
Import ListNotations.
Open Scope string_scope.

Definition unwi_meth (m : meth) : meth :=
  {| m_name := m_name m; m_deco := m_deco m; m_type := m_type m; m_comment := m_comment m; m_nullable := m_nullable m;
     m_without_invalid := false; m_locations := m_locations m; m_loop := m_loop m; m_gather := m_gather m; m_alts := m_alts m |}.
Definition unwi_module (M : ir_module) : ir_module :=
  {| i_header := i_header M; i_subheader := i_subheader M; i_class := i_class M; i_keywords := i_keywords M;
     i_soft_keywords := i_soft_keywords M; i_trailer := i_trailer M; i_meths := map unwi_meth (i_meths M) |}.

Lemma with_invalid_same st b : invalid st = b -> with_invalid st b = st.
Proof. destruct st. cbn. intros ->. reflexivity. Qed.

Section Unwi.
Variable K : kinds.
Variable toks : list rtok.
Variable verbose use_cache : bool.
Variable M : ir_module.
Variable aeval : string -> env -> option value.
Variable exact_types token_dict : list (string * N).

Notation M' := (unwi_module M).
Notation keeps := (keeps).

(* "f and g agree while the flag is off" *)
Definition agree (f g : pstate -> R) : Prop := forall st, invalid st = false -> f st = g st.

Lemma find_meth_unwi n : find_meth M' n = option_map unwi_meth (find_meth M n).
Proof.
  unfold find_meth. cbn [i_meths unwi_module]. induction (i_meths M) as [|m l IH]; [reflexivity|].
  cbn [map find]. cbn [m_name unwi_meth]. destruct (String.eqb (m_name m) n); [reflexivity|exact IH].
Qed.

Lemma prim_test_unwi n : prim_test K M' n = prim_test K M n.
Proof. reflexivity. Qed.

Lemma logged_agree n la f g : agree f g -> agree (logged n la f) (logged n la g).
Proof. intros H st Hi. unfold logged. rewrite (H st Hi). reflexivity. Qed.

Lemma pre_show_flag' st v s : (if verbose then showpeek toks st else (Ok VNone, st)) = (Ok v, s) -> invalid s = invalid st.
Proof. destruct verbose; [apply showpeek_keeps | intros [= <- <-]; reflexivity]. Qed.

Lemma memoize_agree n a f g : agree f g -> agree (memoize toks verbose use_cache n a f) (memoize toks verbose use_cache n a g).
Proof.
  intros H st Hi. unfold memoize. destruct (negb use_cache); [exact (H st Hi)|].
  destruct (cache_find _ _) as [[tree e]|]; [reflexivity|].
  unfold bind_r. destruct (if verbose then showpeek toks st else (Ok VNone, st)) as [[v0| |] s0] eqn:E0; try reflexivity.
  rewrite (H s0); [reflexivity|]. rewrite (pre_show_flag' _ _ _ E0). exact Hi.
Qed.

Lemma logger_agree f g : agree f g -> agree (logger_wrap toks verbose f) (logger_wrap toks verbose g).
Proof.
  intros H st Hi. unfold logger_wrap. destruct (negb verbose); [exact (H st Hi)|].
  unfold bind_r. destruct (showpeek toks st) as [[v0| |] s0] eqn:E0; try reflexivity.
  apply H. rewrite (showpeek_keeps _ _ _ _ E0). exact Hi.
Qed.

Lemma grow_agree fuel : forall key mark f g lr lm, agree f g -> keeps f ->
  agree (grow fuel key mark f lr lm) (grow fuel key mark g lr lm).
Proof.
  induction fuel as [|k IH]; intros key mark f g lr lm H Hk st Hi; cbn [grow]; [reflexivity|].
  rewrite <- (H (with_pos st mark) Hi). unfold bind_r.
  destruct (f (with_pos st mark)) as [[result| |] s1] eqn:E; try reflexivity.
  pose proof (Hk _ _ _ E) as H1. cbn in H1.
  destruct (negb (truthy result)); [reflexivity|]. destruct (truthy lr && Nat.leb (pos s1) lm); [reflexivity|].
  apply IH; [exact H|exact Hk|]. cbn. rewrite H1. exact Hi.
Qed.

Lemma memoize_left_rec_agree fuel n f g : agree f g -> keeps f ->
  agree (memoize_left_rec toks verbose fuel n f) (memoize_left_rec toks verbose fuel n g).
Proof.
  intros H Hk st Hi. unfold memoize_left_rec. destruct (cache_find _ _) as [[tree e]|]; [reflexivity|].
  unfold bind_r. destruct (if verbose then showpeek toks st else (Ok VNone, st)) as [[v0| |] s0] eqn:E0; try reflexivity.
  rewrite (grow_agree fuel _ _ f g _ _ H Hk); [reflexivity|]. cbn. rewrite (pre_show_flag' _ _ _ E0). exact Hi.
Qed.

Section Open.
Variable rec1 rec2 : string -> pstate -> R.
Hypothesis Hrec : forall n, agree (rec1 n) (rec2 n).
Hypothesis Hkeep : forall n, keeps (rec1 n).

Notation rcall1 := (run_call K toks verbose use_cache M exact_types token_dict rec1).
Notation rcall2 := (run_call K toks verbose use_cache M' exact_types token_dict rec2).

Lemma run_call_agree : forall c, agree (rcall1 c) (rcall2 c).
Proof.
  fix IH 1. intros c. destruct c as [n|a|c|positive head tail c| |c msg]; intros st Hi; cbn [run_call].
  - rewrite find_meth_unwi. destruct (find_meth M n); cbn [option_map]; [exact (Hrec n st Hi)|reflexivity].
  - reflexivity.
  - rewrite (IH c st Hi). reflexivity.
  - assert (Hgen : agree
      (logged (if positive then "positive_lookahead" else "negative_lookahead") true
         (fun st => let mark := pos st in bind_r (rcall1 c st) (fun v st1 =>
            (Ok (if positive then v else if truthy v then VFalse else VTrue), with_pos st1 mark))))
      (logged (if positive then "positive_lookahead" else "negative_lookahead") true
         (fun st => let mark := pos st in bind_r (rcall2 c st) (fun v st1 =>
            (Ok (if positive then v else if truthy v then VFalse else VTrue), with_pos st1 mark))))).
    { apply logged_agree. intros s Hs. cbn zeta. rewrite (IH c s Hs). reflexivity. }
    destruct c as [n|a|c0|p0 h0 t0 c0| |c0 msg0]; try (exact (Hgen st Hi)).
    rewrite (IH c0 st Hi). reflexivity.
  - reflexivity.
  - rewrite (IH c st Hi). reflexivity.
Qed.

Notation rconjs1 := (run_conjs K toks verbose use_cache M exact_types token_dict rec1).
Notation rconjs2 := (run_conjs K toks verbose use_cache M' exact_types token_dict rec2).

Lemma run_conjs_agree cs : forall e st, invalid st = false -> rconjs1 cs e st = rconjs2 cs e st.
Proof.
  induction cs as [|c cs IHc]; intros e st Hi; cbn [run_conjs]; [reflexivity|].
  rewrite <- (run_call_agree (cj_call c) st Hi).
  destruct (rcall1 (cj_call c) st) as [[w| |] s] eqn:E; try reflexivity.
  pose proof (run_call_keeps K toks verbose use_cache M exact_types token_dict rec1 Hkeep _ _ _ _ E) as H1.
  match goal with |- context [if ?b then _ else _] => destruct b end; [|reflexivity].
  apply IHc. rewrite H1. exact Hi.
Qed.

Notation ralts1 := (run_alts K toks verbose use_cache M aeval exact_types token_dict rec1).
Notation ralts2 := (run_alts K toks verbose use_cache M' aeval exact_types token_dict rec2).

Lemma with_pos_same st : with_pos st (pos st) = st.
Proof. destruct st; reflexivity. Qed.

Lemma run_alts_agree m mark start_tok alts : forall e0 st, invalid st = false ->
  ralts1 m mark start_tok false alts e0 st = ralts2 (unwi_meth m) mark start_tok false alts e0 st.
Proof.
  induction alts as [|a alts IHa]; intros e0 st Hi; cbn [run_alts unwi_meth m_without_invalid].
  - destruct (m_without_invalid m); [rewrite (with_invalid_same _ _ Hi)|]; reflexivity.
  - destruct (a_guard a && negb (invalid st)).
    + apply IHa. exact Hi.
    + rewrite <- (run_conjs_agree _ _ _ Hi).
      destruct (rconjs1 (a_conjs a) e0 st) as [[[w| |] e] s] eqn:E; try reflexivity.
      pose proof (run_conjs_keeps K toks verbose use_cache M exact_types token_dict rec1 Hkeep _ _ _ _ _ _ E) as H1.
      assert (Hs : invalid s = false) by (rewrite H1; exact Hi).
      destruct (truthy w).
      * destruct (a_locations a && _); [reflexivity|]. destruct (aeval (a_action a) _); [|reflexivity].
        destruct (m_without_invalid m); [rewrite (with_invalid_same _ _ Hs)|]; reflexivity.
      * destruct (a_has_cut a && _).
        -- destruct (m_without_invalid m); [rewrite (with_invalid_same (with_pos s mark) false Hs)|]; reflexivity.
        -- exact (IHa e (with_pos s mark) Hs).
Qed.

Notation rloop1 := (run_loop K toks verbose use_cache M aeval exact_types token_dict rec1).
Notation rloop2 := (run_loop K toks verbose use_cache M' aeval exact_types token_dict rec2).

Lemma run_loop_agree fuel m m' a : forall mark start_tok children e0 st, invalid st = false ->
  rloop1 fuel m a mark start_tok children e0 st = rloop2 fuel m' a mark start_tok children e0 st.
Proof.
  induction fuel as [|f IHf]; intros mark start_tok children e0 st Hi; cbn [run_loop]; [reflexivity|].
  destruct (a_guard a && negb (invalid st)); [reflexivity|].
  rewrite <- (run_conjs_agree _ _ _ Hi).
  destruct (rconjs1 (a_conjs a) e0 st) as [[[w| |] e] s] eqn:E; try reflexivity.
  pose proof (run_conjs_keeps K toks verbose use_cache M exact_types token_dict rec1 Hkeep _ _ _ _ _ _ E) as H1.
  destruct (truthy w); [|reflexivity].
  destruct (a_locations a && _); [reflexivity|]. destruct (aeval (a_action a) _); [|reflexivity].
  apply IHf. rewrite H1. exact Hi.
Qed.

Lemma run_loop_flag fuel m a : forall mark start_tok children e0 st v st',
  rloop1 fuel m a mark start_tok children e0 st = (Ok v, st') -> invalid st' = invalid st.
Proof. exact (run_loop_keeps K toks verbose use_cache M aeval exact_types token_dict rec1 Hkeep fuel m a). Qed.

Lemma run_body_agree fuel m :
  agree (run_body K toks verbose use_cache M aeval exact_types token_dict rec1 fuel m)
        (run_body K toks verbose use_cache M' aeval exact_types token_dict rec2 fuel (unwi_meth m)).
Proof.
  intros st Hi. unfold run_body. cbn [unwi_meth m_without_invalid m_locations m_loop m_alts m_name]. rewrite Hi.
  assert (Est : (if m_without_invalid m then with_invalid st false else st) = st)
    by (destruct (m_without_invalid m); [apply with_invalid_same; exact Hi|reflexivity]).
  rewrite Est.
  assert (Hgo : forall start_tok st1, invalid st1 = false ->
    (if m_loop m
     then match m_alts m with
          | [a] => match rloop1 fuel m a (pos st) start_tok [] [] st1 with
                   | (Ok v, st2) => (Ok (loop_ret m v), if m_without_invalid m then with_invalid st2 false else st2)
                   | other => other end
          | _ => (Raise XAssertion, st1) end
     else ralts1 m (pos st) start_tok false (m_alts m) [] st1) =
    (if m_loop m
     then match m_alts m with
          | [a] => match rloop2 fuel (unwi_meth m) a (pos st) start_tok [] [] st1 with
                   | (Ok v, st2) => (Ok (loop_ret (unwi_meth m) v), st2)
                   | other => other end
          | _ => (Raise XAssertion, st1) end
     else ralts2 (unwi_meth m) (pos st) start_tok false (m_alts m) [] st1)).
  { intros start_tok st1 Hi1. destruct (m_loop m) eqn:L.
    - destruct (m_alts m) as [|a [|a2 rest]]; try reflexivity.
      rewrite <- (run_loop_agree fuel m (unwi_meth m) a _ _ _ _ _ Hi1).
      destruct (rloop1 fuel m a (pos st) start_tok [] [] st1) as [[v| |] st2] eqn:El; try reflexivity.
      pose proof (run_loop_flag _ _ _ _ _ _ _ _ _ _ El) as Hf.
      destruct (m_without_invalid m); [rewrite (with_invalid_same st2 false ltac:(rewrite Hf; exact Hi1))|]; reflexivity.
    - apply run_alts_agree. exact Hi1. }
  destruct (m_locations m).
  - destruct (peek toks st) as [[t|] s1] eqn:E; [|reflexivity].
    apply Hgo. rewrite (peek_flag _ _ _ _ E). exact Hi.
  - apply Hgo. exact Hi.
Qed.
End Open.

Lemma run_meth_agree fuel rec1 rec2 : (forall n, agree (rec1 n) (rec2 n)) -> (forall n, keeps (rec1 n)) ->
  forall n, agree (run_meth K toks verbose use_cache M aeval exact_types token_dict fuel rec1 n)
                  (run_meth K toks verbose use_cache M' aeval exact_types token_dict fuel rec2 n).
Proof.
  intros Hrec Hkeep n st Hi. unfold run_meth. rewrite find_meth_unwi.
  destruct (find_meth M n) as [m|]; cbn [option_map]; [|reflexivity].
  apply logged_agree; [|exact Hi]. cbn [unwi_meth m_deco].
  pose proof (run_body_agree rec1 rec2 Hrec Hkeep fuel m) as Hb.
  pose proof (run_body_keeps K toks verbose use_cache M aeval exact_types token_dict rec1 Hkeep fuel m) as Hk.
  destruct (m_deco m).
  - apply memoize_agree. exact Hb.
  - apply memoize_left_rec_agree; [exact Hb|exact Hk].
  - apply logger_agree. exact Hb.
Qed.

Theorem unwi_equiv fuel : forall n,
  agree (run K toks verbose use_cache M aeval exact_types token_dict fuel n)
        (run K toks verbose use_cache M' aeval exact_types token_dict fuel n).
Proof.
  induction fuel as [|f IH]; intros n st Hi; cbn [run]; [reflexivity|].
  apply run_meth_agree; [exact IH| |exact Hi].
  intros n0. apply flag_restored.
Qed.
End Unwi.
