(* Which decorator a generated method gets: @memoize_left_rec exactly for original rules the analysis
   marked as leaders.  In particular a grammar in which the analysis finds no leader yields a module
   without left-recursive leaders -- the hypothesis of the cache-transparency theorem (Props/C04.v). *)
From Coq Require Import List String Ascii NArith ZArith Bool Arith Lia.
From Pegen Require Import Base.StrUtil Grammar.Ast Grammar.Printer Analysis.Visitor Analysis.Nullable Gen.Gen Proofs.CacheStable Proofs.GenRefs.
Import ListNotations.
Open Scope string_scope.

Section Deco.
Variable invalid_tbl : list (string * bexp).
Variable iter_fields : list (string * list string).
Variable rs0 : list rule.
Variable nullable_rules left_rec leaders : list string.
Variable item_flag : N -> bool.

Lemma emit_rule_deco r st m st' :
  emit_rule invalid_tbl iter_fields rs0 nullable_rules left_rec leaders item_flag r st = (inl m, st') ->
  m_deco m = DMemoLeftRec -> mem_str (rname r) leaders = true /\ mem_str (rname r) left_rec = true /\ is_original r = true.
Proof.
  unfold emit_rule. intros H. apply gbind_inv in H as (u0 & t0 & F0 & H). apply gbind_inv in H as (alts & t1 & F1 & H).
  apply gret_spec in H as (-> & _). cbn [m_deco].
  destruct (is_original r && mem_str (rname r) left_rec) eqn:E.
  - apply andb_prop in E as [E1 E2]. destruct (mem_str (rname r) leaders); [auto|discriminate].
  - destruct (startswith "_" (rname r) && _); discriminate.
Qed.

Lemma emit_all_deco : forall fuel st ms st',
  emit_all invalid_tbl iter_fields rs0 nullable_rules left_rec leaders item_flag fuel st = (inl ms, st') ->
  forall m, In m ms -> m_deco m = DMemoLeftRec -> mem_str (m_name m) leaders = true.
Proof.
  induction fuel as [|f IH]; intros st ms st' H m Hm Hd; cbn [emit_all] in H; [discriminate|].
  apply gbind_inv in H as (o & t0 & F0 & H). destruct o as [r|].
  - apply gbind_inv in H as (m0 & t1 & F1 & H). apply gbind_inv in H as (ms0 & t2 & F2 & H). apply gret_spec in H as (-> & _).
    destruct Hm as [<-|Hm]; [|exact (IH _ _ _ F2 m Hm Hd)].
    destruct (emit_rule_deco _ _ _ _ F1 Hd) as (A & _).
    assert (Hn : m_name m0 = rname r).
    { unfold emit_rule in F1. apply gbind_inv in F1 as (u0 & s0 & G0 & F1). apply gbind_inv in F1 as (alts & s1 & G1 & F1).
      apply gret_spec in F1 as (-> & _). reflexivity. }
    rewrite Hn. exact A.
  - apply gret_spec in H as (-> & _). destruct Hm.
Qed.
End Deco.

Theorem no_leaders_no_left_rec : forall invalid_tbl iter_fields pre suf file fb g an M,
  a_leaders an = [] -> generate invalid_tbl iter_fields pre suf file fb g an = inl M -> no_left_rec M = true.
Proof.
  intros tbl itf pre suf file fb g an M Hl H. unfold generate in H.
  match type of H with (match ?e with _ => _ end) = _ => destruct e as [[ms|err] st] eqn:EA end; [|discriminate].
  injection H as <-. unfold no_left_rec. cbn [i_meths]. apply forallb_forall. intros m Hm.
  destruct (m_deco m) eqn:D; try reflexivity.
  pose proof (emit_all_deco _ _ _ _ _ _ _ _ _ _ _ EA m Hm D) as Hc. rewrite Hl in Hc. discriminate.
Qed.

(* the exact decorator of every emitted method *)
Lemma emit_rule_deco_exact invalid_tbl iter_fields rs0 nullable_rules left_rec leaders item_flag r st m st' :
  emit_rule invalid_tbl iter_fields rs0 nullable_rules left_rec leaders item_flag r st = (inl m, st') ->
  is_original r = true -> mem_str (rname r) left_rec = true ->
  m_name m = rname r /\ m_deco m = (if mem_str (rname r) leaders then DMemoLeftRec else DLogger).
Proof.
  unfold emit_rule. intros H Ho Hl. apply gbind_inv in H as (u0 & t0 & F0 & H). apply gbind_inv in H as (alts & t1 & F1 & H).
  apply gret_spec in H as (-> & _). cbn [m_deco m_name]. rewrite Ho, Hl. cbn [andb]. split; reflexivity.
Qed.
