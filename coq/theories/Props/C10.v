(* C10 — generation is deterministic; keyword tables are sorted and duplicate-free. *)
From Coq Require Import List String NArith Bool.
From Pegen Require Import Base.StrUtil Proofs.GenProofs.
Import ListNotations.
Open Scope string_scope.

(* The model of the generator is a function of the grammar and of the analysis result (purity is
   by construction); the analysis result does not depend on set iteration or rule order
   (Props/C03.v, Props/C16.v).  What is left to state here is the shape of the keyword tables. *)

(* sorted(set(...)) as modelled: strictly increasing, hence duplicate-free, and it keeps exactly
   the members of its argument -- for every list of collected keywords. *)
Theorem C10_keyword_table_strictly_sorted : forall l, strictly_sorted (sort_set l).
Proof. exact sort_set_sorted. Qed.
Print Assumptions C10_keyword_table_strictly_sorted.

Theorem C10_keyword_table_same_members : forall l x, In x (sort_set l) <-> In x l.
Proof. exact sort_set_In. Qed.
Print Assumptions C10_keyword_table_same_members.

(* "For every accepted grammar the output ... defines the parser class with one method per rule and keyword tables
   listing exactly the grammar's hard and soft keywords in sorted order" -- for the generator model, for ALL grammars
   and analysis results: *)
From Pegen Require Import Grammar.Ast Analysis.Visitor Analysis.Nullable Analysis.Literals Gen.Gen Proofs.GenKw Proofs.GenKwSound Proofs.GenNames.

(* the methods are: one per rule of the grammar, named after it, in the order of the grammar; then the helper methods
   (_tmp_k, _loop0_k, _loop1_k, _gather_k), whose numbers k are pairwise distinct.  (Invariant over the call maker and the
   work list: the queue is only ever extended at its end, by rules named after fresh values of the counter.) *)
Theorem C10_one_method_per_rule_then_numbered_helpers :
  forall invalid_tbl iter_fields pre suf file fb g an M,
  generate invalid_tbl iter_fields pre suf file fb g an = inl M ->
  exists helpers ks, map m_name (i_meths M) = (map rname (rules g) ++ map rname helpers)%list /\
                     Forall2 (fun r k => helper_name (rname r) k) helpers ks /\ NoDup ks /\
                     Forall (fun k => k <= List.length helpers) ks.
Proof. exact generated_methods_follow_the_rules. Qed.
Print Assumptions C10_one_method_per_rule_then_numbered_helpers.

(* Hence no method is defined twice (a second `def` of the same name would silently replace the first): when the rules of
   the grammar have distinct names that do not begin with an underscore (what the generator's up-front check demands, C13)
   all method names of the module are pairwise distinct.  Decimal rendering is injective (Proofs/DecimalInj.v) below the
   10^40 the model's renderer can print, a bound on the number of methods. *)
From Pegen Require Import Proofs.DecimalInj.
Theorem C10_method_names_pairwise_distinct :
  forall invalid_tbl iter_fields pre suf file fb g an M,
  generate invalid_tbl iter_fields pre suf file fb g an = inl M ->
  NoDup (map rname (rules g)) -> (forall r, In r (rules g) -> startswith "_" (rname r) = false) ->
  (N.of_nat (List.length (i_meths M)) < 10 ^ 40)%N ->
  NoDup (map m_name (i_meths M)).
Proof. exact generated_method_names_distinct. Qed.
Print Assumptions C10_method_names_pairwise_distinct.

(* the tables are strictly sorted and hold exactly the quoted words of the grammar *)
Theorem C10_generated_keyword_tables_sorted_and_exact :
  forall invalid_tbl iter_fields pre suf file fb g an M,
  ids_distinct g ->
  generate invalid_tbl iter_fields pre suf file fb g an = inl M ->
  strictly_sorted (i_keywords M) /\ strictly_sorted (i_soft_keywords M) /\
  (forall w, In w (i_keywords M) <-> In w (hard_keywords g)) /\
  (forall w, In w (i_soft_keywords M) <-> In w (soft_keywords g)).
Proof.
  intros it itf pre suf file fb g an M Hd H.
  destruct (generated_keyword_tables_are_exact it itf pre suf file fb g an M Hd H) as [A B].
  split; [|split; [|split; [exact A|exact B]]].
  - unfold generate in H. destruct (emit_all _ _ _ _ _ _ _ _ _) as [[ms|e] st]; [|discriminate]. injection H as <-. apply sort_set_sorted.
  - unfold generate in H. destruct (emit_all _ _ _ _ _ _ _ _ _) as [[ms|e] st]; [|discriminate]. injection H as <-. apply sort_set_sorted.
Qed.
Print Assumptions C10_generated_keyword_tables_sorted_and_exact.

(* non-vacuity: a grammar with a group, a repetition and a gather gets its three rule methods first and four helpers *)
Definition g10 : grammar :=
  {| rules :=
       [{| rname := "start"; rtype := None; rmemo := false;
           rrhs := Rhs 1 [Alt [NItem 2 None None (Gather 3 (StringLeaf "','") (NameLeaf "a")); NItem 4 None None (NameLeaf "NEWLINE")] None] |};
        {| rname := "a"; rtype := None; rmemo := false;
           rrhs := Rhs 5 [Alt [NItem 6 None None (Repeat1 7 (NameLeaf "b"))] None; Alt [NItem 8 None None (StringLeaf "'if'")] None] |};
        {| rname := "b"; rtype := None; rmemo := false;
           rrhs := Rhs 9 [Alt [NItem 10 None None (Group (Rhs 11 [Alt [NItem 12 None None (NameLeaf "NAME")] None; Alt [NItem 13 None None (StringLeaf """soft""")] None]));
                               NItem 14 None None (NameLeaf "NUMBER")] None] |}];
     metas := [] |}.
Definition an10 : analysis := {| a_nullable := []; a_item_nullable := []; a_graph := []; a_left_rec := []; a_leaders := [] |}.
Example C10_methods_example :
  match generate [] [] "" "" "g" 100 g10 an10 with
  | inl M => map m_name (i_meths M) = ["start"; "a"; "b"; "_loop0_2"; "_gather_1"; "_loop1_3"; "_tmp_4"] /\
             i_keywords M = ["if"] /\ i_soft_keywords M = ["soft"]
  | inr _ => False
  end.
Proof. vm_compute. repeat split; reflexivity. Qed.
Print Assumptions C10_methods_example.
