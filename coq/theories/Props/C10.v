(* C10 — generation is deterministic; keyword tables are sorted and duplicate-free. *)
From Coq Require Import List String NArith Bool.
From Pegen Require Import Base.StrUtil Proofs.GenProofs.
Import ListNotations.
Open Scope string_scope.

(* The model of the generator is a function of the grammar and of the analysis result (purity is
   by construction); the analysis result does not depend on set iteration or rule order
   (Props/C03.v, Props/C16.v).  What is left to state here is the shape of the keyword tables. *)

(* sorted(set(...)) as modelled: strictly increasing, hence duplicate-free, and it keeps exactly
   the members of its argument -- for every list of collected keywords. *)
Theorem C10_keyword_table_strictly_sorted : forall l, strictly_sorted (sort_set l).
Proof. exact sort_set_sorted. Qed.
Print Assumptions C10_keyword_table_strictly_sorted.

Theorem C10_keyword_table_same_members : forall l x, In x (sort_set l) <-> In x l.
Proof. exact sort_set_In. Qed.
Print Assumptions C10_keyword_table_same_members.
