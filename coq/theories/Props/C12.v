(* C12 — error-reporting rules are inert unless error mode is on. *)
From Coq Require Import List String NArith ZArith Bool Arith.
From Pegen Require Import Base.StrUtil Base.Values Runtime.Tokenizer Sem.Peg Gen.Gen Runtime.Exec Proofs.ExecFlag.
Import ListNotations.
Open Scope string_scope.

(* For every IR module, token list, configuration, interpretation of actions, fuel and state: every
   invocation of a generated method (a *_without_invalid method included: it clears the flag for
   its body) that returns -- matched, failed or cut short -- leaves call_invalid_rules exactly as
   it was when the method was called. *)
Theorem C12_mode_restored_on_every_return :
  forall K toks verbose use_cache M aeval exact_types token_dict fuel n st v st',
  run K toks verbose use_cache M aeval exact_types token_dict fuel n st = (Ok v, st') ->
  invalid st' = invalid st.
Proof. intros K toks verbose use_cache M aeval ex td fuel n st v st'. exact (flag_restored K toks verbose use_cache M aeval ex td fuel n st v st'). Qed.
Print Assumptions C12_mode_restored_on_every_return.

(* With error mode off, an alternative guarded by `self.call_invalid_rules` (the generator guards
   exactly the alternatives for which the extracted InvalidNodeVisitor answers true) is never
   tried: the remaining alternatives run from the same state as if it had been deleted. *)
Theorem C12_guarded_alternative_inert :
  forall K toks verbose use_cache M aeval exact_types token_dict rec m mark start_tok prev a alts e0 st,
  a_guard a = true -> invalid st = false -> pos st = mark ->
  run_alts K toks verbose use_cache M aeval exact_types token_dict rec m mark start_tok prev (a :: alts) e0 st =
  run_alts K toks verbose use_cache M aeval exact_types token_dict rec m mark start_tok prev alts e0 st.
Proof. intros. apply guarded_alt_inert; assumption. Qed.
Print Assumptions C12_guarded_alternative_inert.

(* Which alternatives are guarded: the generator model guards an alternative exactly when the
   table-driven InvalidNodeVisitor answers true for it; under the decidable conditions
   [detector_ok] and monotonicity on the extracted method table (re-proved on every run for the
   current source) that answer is true EXACTLY when a name starting with "invalid" occurs in the
   alternative at ANY nesting depth (groups, optionals, repetitions, gather element and separator,
   lookaheads, forced items). *)
From Pegen Require Import Grammar.Ast Analysis.Visitor Proofs.VisitorSim Proofs.InvalidProofs.
Theorem C12_guard_iff_mentions_invalid : forall tbl itf a,
  forallb (fun kv => no_not (snd kv)) tbl = true -> detector_ok tbl = true ->
  has_invalid_alt tbl itf a = m_alt a.
Proof. intros tbl itf a Hm Hd. exact (guard_exact tbl itf Hm a Hd). Qed.
Print Assumptions C12_guard_iff_mentions_invalid.
