(* C12 — error-reporting rules are inert unless error mode is on. *)
From Coq Require Import List String NArith ZArith Bool Arith.
From Pegen Require Import Base.StrUtil Base.Values Runtime.Tokenizer Sem.Peg Gen.Gen Runtime.Exec Proofs.ExecFlag.
Import ListNotations.
Open Scope string_scope.

(* For every IR module, token list, configuration, interpretation of actions, fuel and state: every
   invocation of a generated method (a *_without_invalid method included: it clears the flag for
   its body) that returns -- matched, failed or cut short -- leaves call_invalid_rules exactly as
   it was when the method was called. *)
Theorem C12_mode_restored_on_every_return :
  forall K toks verbose use_cache M aeval exact_types token_dict fuel n st v st',
  run K toks verbose use_cache M aeval exact_types token_dict fuel n st = (Ok v, st') ->
  invalid st' = invalid st.
Proof. intros K toks verbose use_cache M aeval ex td fuel n st v st'. exact (flag_restored K toks verbose use_cache M aeval ex td fuel n st v st'). Qed.
Print Assumptions C12_mode_restored_on_every_return.

(* With error mode off, an alternative guarded by `self.call_invalid_rules` (the generator guards
   exactly the alternatives for which the extracted InvalidNodeVisitor answers true) is never
   tried: the remaining alternatives run from the same state as if it had been deleted. *)
Theorem C12_guarded_alternative_inert :
  forall K toks verbose use_cache M aeval exact_types token_dict rec m mark start_tok prev a alts e0 st,
  a_guard a = true -> invalid st = false -> pos st = mark ->
  run_alts K toks verbose use_cache M aeval exact_types token_dict rec m mark start_tok prev (a :: alts) e0 st =
  run_alts K toks verbose use_cache M aeval exact_types token_dict rec m mark start_tok prev alts e0 st.
Proof. intros. apply guarded_alt_inert; assumption. Qed.
Print Assumptions C12_guarded_alternative_inert.

(* The whole-program form.  With error mode off, the generated parser computes EXACTLY what the
   parser with every guarded alternative of every (non-loop) method deleted computes: same outcome
   (value, failure, exception), same final position, same tokens fetched, same cache, same trace of
   invocations -- for every module, method, token list, configuration (verbose x cache), fuel and
   state whose flag is off; *_without_invalid methods, left-recursive leaders, loops, lookaheads,
   forced items included.  (The single guarded alternative of a loop method is kept: with the flag
   off the loop returns its empty list at once, which is what `(invalid_x)*` deleted means.) *)
From Pegen Require Import Proofs.ExecStrip.
Theorem C12_flag_off_equals_parser_without_guarded_alternatives :
  forall K toks verbose use_cache M aeval exact_types token_dict fuel n st,
  invalid st = false ->
  run K toks verbose use_cache M aeval exact_types token_dict fuel n st =
  run K toks verbose use_cache (strip_module M) aeval exact_types token_dict fuel n st.
Proof. intros K toks verbose use_cache M aeval ex td fuel n st Hi. exact (strip_equiv K toks verbose use_cache M aeval ex td fuel n st Hi). Qed.
Print Assumptions C12_flag_off_equals_parser_without_guarded_alternatives.

(* non-vacuity: a module where deleting changes something (r loses its only alternative), and where the
   flag matters (with the flag ON the two modules differ on the tokens  a b NEWLINE) *)
Definition KD12 : kinds := {| kNAME := 1; kNUMBER := 2; kSTRING := 3; kOP := 55; kNEWLINE := 4; kINDENT := 5; kDEDENT := 6;
  kENDMARKER := 0; kTYPE_COMMENT := 59; kFSTRING_START := 61; kFSTRING_MIDDLE := 62; kFSTRING_END := 63; kASYNC := 57; kAWAIT := 56 |}.
Definition mkt12 (k : N) (s : string) (c : nat) : rtok :=
  {| ty := k; tstr := s; sline := 1; scol := c; eline := 1; ecol := c + 1; tline := ""; tspace := false |}.
Definition toks12 : list rtok := [mkt12 1 "a" 0; mkt12 1 "b" 2; mkt12 4 "" 3; mkt12 0 "" 4].
Definition alt12 (g : bool) (conjs : list conj) (act : string) (names : list string) : ialt :=
  {| a_has_cut := false; a_guard := g; a_conjs := conjs; a_locations := false; a_action := act; a_names := names; a_explicit := false; a_unreachable := false |}.
Definition cj12 (x : string) (c : call) : conj := {| cj_var := Some x; cj_call := c; cj_notnone := false |}.
Definition meth12 (n : string) (alts : list ialt) : meth :=
  {| m_name := n; m_deco := DMemo; m_type := "Any"; m_comment := ""; m_nullable := false; m_without_invalid := false;
     m_locations := false; m_loop := false; m_gather := false; m_alts := alts |}.
(* start: NAME r NEWLINE ;  r: invalid_z | NAME ;  invalid_z: NAME *)
Definition mod12 : ir_module :=
  {| i_header := None; i_subheader := ""; i_class := "P"; i_keywords := []; i_soft_keywords := []; i_trailer := None;
     i_meths := [meth12 "start" [alt12 false [cj12 "name" (CMeth "name"); cj12 "r" (CMeth "r"); cj12 "_newline" (CExpect "'NEWLINE'")]
                                    "[name, r, _newline]" ["name"; "r"; "_newline"]];
                 meth12 "r" [alt12 true [cj12 "invalid_z" (CMeth "invalid_z")] "invalid_z" ["invalid_z"];
                             alt12 false [cj12 "name" (CMeth "name")] "name" ["name"]];
                 meth12 "invalid_z" [alt12 false [cj12 "name" (CMeth "name")] "name" ["name"]]] |}.
Definition run12 (M : ir_module) (flag : bool) : list string :=
  let st0 := {| pos := 0; fetched := 0; cache := []; invalid := flag; events := [] |} in
  let '(o, s) := run KD12 toks12 false true M (fun _ _ => Some VTrue) [] [] 20 "start" st0 in
  map ev_name (events s).
Example C12_strip_example :
  strip_module mod12 <> mod12 /\ run12 mod12 false = run12 (strip_module mod12) false /\
  run12 mod12 true <> run12 (strip_module mod12) true /\ In "invalid_z" (run12 mod12 true) /\ ~ In "invalid_z" (run12 mod12 false).
Proof.
  split; [intros H; discriminate H|]. split; [vm_compute; reflexivity|]. split; [vm_compute; intros H; discriminate H|].
  split; [vm_compute; tauto|]. vm_compute. intros H. repeat (destruct H as [H|H]; [discriminate H|]). exact H.
Qed.
Print Assumptions C12_strip_example.

(* Which alternatives are guarded: the generator model guards an alternative exactly when the
   table-driven InvalidNodeVisitor answers true for it; under the decidable conditions
   [detector_ok] and monotonicity on the extracted method table (re-proved on every run for the
   current source) that answer is true EXACTLY when a name starting with "invalid" occurs in the
   alternative at ANY nesting depth (groups, optionals, repetitions, gather element and separator,
   lookaheads, forced items). *)
From Pegen Require Import Grammar.Ast Analysis.Visitor Proofs.VisitorSim Proofs.InvalidProofs.
Theorem C12_guard_iff_mentions_invalid : forall tbl itf a,
  forallb (fun kv => no_not (snd kv)) tbl = true -> detector_ok tbl = true ->
  has_invalid_alt tbl itf a = m_alt a.
Proof. intros tbl itf a Hm Hd. exact (guard_exact tbl itf Hm a Hd). Qed.
Print Assumptions C12_guard_iff_mentions_invalid.

(* At the level of the generator: whatever rule it emits -- a rule of the grammar or a helper rule it
   queued for a group, an optional, a repetition or a gather --, in whatever state, the k-th alternative of
   the emitted method carries the guard `self.call_invalid_rules` EXACTLY when the k-th alternative of the
   (flattened) rule body mentions a name beginning with "invalid" at any nesting depth.  Since every
   method of a generated module is emitted this way (emit_all), every alternative of every generated
   parser is guarded exactly when it should be. *)
From Pegen Require Import Proofs.GenRefs.
Theorem C12_generated_guards_are_exact :
  forall tbl itf rs0 nullable_rules left_rec leaders item_flag r st m st',
  forallb (fun kv => no_not (snd kv)) tbl = true -> detector_ok tbl = true ->
  emit_rule tbl itf rs0 nullable_rules left_rec leaders item_flag r st = (inl m, st') ->
  m_name m = rname r /\
  map a_guard (m_alts m) = map m_alt (rhs_alts (flatten r)).
Proof.
  intros tbl itf rs0 nul lr ld fl r st m st' Hm Hd H. unfold emit_rule in H.
  apply gbind_inv in H as (u0 & t0 & F0 & H). apply gbind_inv in H as (alts & t1 & F1 & H).
  apply gret_spec in H as (-> & _). cbn [m_name m_alts]. split; [reflexivity|].
  clear F0. revert t0 alts t1 F1. generalize (is_loop_name (rname r)) (is_gather_name (rname r)).
  induction (rhs_alts (flatten r)) as [|a l IH]; intros lp ga t0 alts t1 F1; cbn [emit_alts] in F1.
  - apply gret_spec in F1 as (-> & _). reflexivity.
  - apply gbind_inv in F1 as (x & s0 & G0 & F1). apply gbind_inv in F1 as (xs & s1 & G1 & F1).
    apply gret_spec in F1 as (-> & _). cbn [map]. rewrite (IH lp ga s0 xs s1 G1). f_equal.
    (* the guard of one alternative *)
    unfold emit_alt in G0.
    repeat (apply gbind_inv in G0 as (?y & ?s & ?E & G0)). apply gret_spec in G0 as (-> & _). cbn [a_guard].
    exact (guard_exact tbl itf Hm a Hd).
Qed.
Print Assumptions C12_generated_guards_are_exact.

(* The counterpart with error mode ON (fourth session, Proofs/ExecUnguard.v): the guard `self.call_invalid_rules` is then
   true, so the generated parser computes EXACTLY what the parser with every guard removed computes -- same outcome, final
   position, tokens fetched, cache, trace -- for every module without *_without_invalid methods (those switch the flag off
   while they run), method, token list, configuration (verbose x cache), fuel and state whose flag is on. *)
From Pegen Require Import Proofs.ExecUnguard.
Theorem C12_flag_on_equals_parser_without_guards :
  forall K toks verbose use_cache M aeval exact_types token_dict fuel n st,
  no_wi_methods M = true -> invalid st = true ->
  run K toks verbose use_cache M aeval exact_types token_dict fuel n st =
  run K toks verbose use_cache (unguard_module M) aeval exact_types token_dict fuel n st.
Proof. intros K toks verbose use_cache M aeval ex td fuel n st Hn Hi. exact (unguard_equiv K toks verbose use_cache M aeval ex td Hn fuel n st Hi). Qed.
Print Assumptions C12_flag_on_equals_parser_without_guards.

(* ... and with error mode off a *_without_invalid method switches nothing: the module with those marks removed computes
   exactly the same, from every state whose flag is off (Proofs/ExecUnwi.v). *)
From Pegen Require Import Proofs.ExecUnwi.
Theorem C12_without_invalid_mark_inert_when_flag_off :
  forall K toks verbose use_cache M aeval exact_types token_dict fuel n st,
  invalid st = false ->
  run K toks verbose use_cache M aeval exact_types token_dict fuel n st =
  run K toks verbose use_cache (unwi_module M) aeval exact_types token_dict fuel n st.
Proof. intros K toks verbose use_cache M aeval ex td fuel n st Hi. exact (unwi_equiv K toks verbose use_cache M aeval ex td fuel n st Hi). Qed.
Print Assumptions C12_without_invalid_mark_inert_when_flag_off.
