(* C02 — left-recursive rules parse by seed growing (partial: loop-level theorems). *)
From Coq Require Import List String NArith ZArith Bool Arith.
From Pegen Require Import Base.StrUtil Base.Values Runtime.Tokenizer Sem.Peg Gen.Gen Runtime.Exec Proofs.ExecInv.
Import ListNotations.
Open Scope string_scope.

(* The growth loop of memoize_left_rec, for ANY method body that satisfies the position invariant,
   any starting mark, any amount of fuel and any state: it returns the last strictly longer match --
   the result's end is never before the mark, a falsy result leaves the cursor at the mark, and
   every seed it stores in the cache is consistent with that (the invariant Inv is preserved). *)
Theorem C02_growth_loop :
  forall fuel key mark body lastresult lastmark st,
  fst (fst key) = mark ->
  (forall st, Inv st -> post st (body st)) -> Inv st ->
  mark <= lastmark -> (truthy lastresult = false -> lastmark = mark) ->
  let r := grow fuel key mark body lastresult lastmark st in
  Inv (snd r) /\ match fst r with Ok v => mark <= pos (snd r) /\ (truthy v = false -> pos (snd r) = mark) | _ => True end.
Proof. exact grow_post. Qed.
Print Assumptions C02_growth_loop.

(* Non-vacuity: A: A 'x' | 'b' on  b x x  grows twice and returns the left-nested tree. *)
Definition KD : kinds := {| kNAME := 1; kNUMBER := 2; kSTRING := 3; kOP := 55; kNEWLINE := 4; kINDENT := 5; kDEDENT := 6;
  kENDMARKER := 0; kTYPE_COMMENT := 59; kFSTRING_START := 61; kFSTRING_MIDDLE := 62; kFSTRING_END := 63; kASYNC := 57; kAWAIT := 56 |}.
Definition tk (k : N) (s : string) (c : nat) : rtok := {| ty := k; tstr := s; sline := 1; scol := c; eline := 1; ecol := c + 1; tline := ""; tspace := false |}.
Definition cj (x : string) (c : call) := {| cj_var := Some x; cj_call := c; cj_notnone := false |}.
Definition lr_mod : ir_module :=
  {| i_header := None; i_subheader := ""; i_class := "P"; i_keywords := []; i_soft_keywords := []; i_trailer := None;
     i_meths := [{| m_name := "a"; m_deco := DMemoLeftRec; m_type := "Any"; m_comment := ""; m_nullable := false;
                    m_without_invalid := false; m_locations := false; m_loop := false; m_gather := false;
                    m_alts := [{| a_has_cut := false; a_guard := false; a_conjs := [cj "a" (CMeth "a"); cj "literal" (CExpect "'x'")];
                                  a_locations := false; a_action := "[a, literal]"; a_names := ["a"; "literal"]; a_explicit := false |};
                               {| a_has_cut := false; a_guard := false; a_conjs := [cj "literal" (CExpect "'b'")];
                                  a_locations := false; a_action := "literal"; a_names := ["literal"]; a_explicit := false |}] |}] |}.
Definition lr_aeval (text : string) (e : env) : option value :=
  if String.eqb text "literal" then env_get e "literal"
  else match env_get e "a", env_get e "literal" with Some x, Some y => Some (VList [x; y]) | _, _ => None end.
Definition B := tk 1 "b" 0. Definition X1 := tk 1 "x" 2. Definition X2 := tk 1 "x" 4.
Example C02_demo :
  let '(o, s) := run KD [B; X1; X2; tk 4 "" 5] false true lr_mod lr_aeval [] [] 20 "a" init_state in
  o = Ok (VList [VList [VTok B; VTok X1]; VTok X2]) /\ pos s = 3.
Proof. vm_compute. split; reflexivity. Qed.
Print Assumptions C02_demo.
