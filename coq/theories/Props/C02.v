(* C02 — left-recursive rules parse by seed growing (partial: loop-level theorems). *)
From Coq Require Import List String NArith ZArith Bool Arith Lia.
From Pegen Require Import Base.StrUtil Base.Values Runtime.Tokenizer Sem.Peg Gen.Gen Runtime.Exec Proofs.ExecInv Proofs.GrowSpec.
Import ListNotations.
Open Scope string_scope.

(* The growth loop of memoize_left_rec, for ANY method body that satisfies the position invariant,
   any starting mark, any amount of fuel and any state: it returns the last strictly longer match --
   the result's end is never before the mark, a falsy result leaves the cursor at the mark, and
   every seed it stores in the cache is consistent with that (the invariant Inv is preserved). *)
Theorem C02_growth_loop :
  forall fuel key mark body lastresult lastmark st,
  fst (fst key) = mark ->
  (forall st, Inv st -> post st (body st)) -> Inv st ->
  mark <= lastmark -> (truthy lastresult = false -> lastmark = mark) ->
  let r := grow fuel key mark body lastresult lastmark st in
  Inv (snd r) /\ match fst r with Ok v => mark <= pos (snd r) /\ (truthy v = false -> pos (snd r) = mark) | _ => True end.
Proof. exact grow_post. Qed.
Print Assumptions C02_growth_loop.

(* What the loop computes: "the longest match obtained by repeatedly re-evaluating the alternatives
   with the previous result substituted for the recursive call".  For ANY body, key, mark and any
   sequence of results r 0 (the primed failure), r 1, ..., r n with end positions m 0 <= m 1 < ... < m n
   (the FIRST result counts even if it consumes nothing -- a rule that can match the empty string; after it every
   round must get further: fix [see DESIGN 12.4] of the loop, which used to drop such a first result):
   if the body, run at the mark with the k-th result as the cached seed, yields the (k+1)-th
   (k < n), and with the n-th as seed fails or does not get further, then the loop -- given more
   than n units of fuel -- returns exactly r n and leaves the cursor at m n. *)
Theorem C02_growth_loop_computes_the_iteration_limit :
  forall key mark body (r : nat -> value) (m : nat -> nat) n,
  (forall k st, k < n -> seeded key r m k st -> pos st = mark ->
     exists st', body st = (Ok (r (S k)), st') /\ pos st' = m (S k) /\ truthy (r (S k)) = true /\
                 (m k < m (S k) \/ truthy (r k) = false)) ->
  (forall st, seeded key r m n st -> pos st = mark ->
     exists v st', body st = (Ok v, st') /\ (truthy v = false \/ (truthy (r n) = true /\ pos st' <= m n))) ->
  forall fuel st, n < fuel -> seeded key r m 0 st ->
  exists st', grow fuel key mark body (r 0) (m 0) st = (Ok (r n), st') /\ pos st' = m n.
Proof.
  intros key mark body r m n Hstep Hstop fuel st Hf Hs.
  exact (grow_is_iteration key mark body r m n Hstep Hstop n 0 fuel st eq_refl Hf Hs).
Qed.
Print Assumptions C02_growth_loop_computes_the_iteration_limit.

(* The decorator as a whole, in quiet mode, when the cache has no entry for the rule at this position:
   it primes the cache with a failure, grows, and returns and records the limit. *)
Theorem C02_decorator_returns_and_records_the_limit :
  forall toks name body (r : nat -> value) (m : nat -> nat) n st fuel,
  r 0 = VNone -> m 0 = pos st ->
  (forall k st', k < n -> seeded (pos st, name, None) r m k st' -> pos st' = pos st ->
     exists st'', body st' = (Ok (r (S k)), st'') /\ pos st'' = m (S k) /\ truthy (r (S k)) = true /\
                  (m k < m (S k) \/ truthy (r k) = false)) ->
  (forall st', seeded (pos st, name, None) r m n st' -> pos st' = pos st ->
     exists v st'', body st' = (Ok v, st'') /\ (truthy v = false \/ (truthy (r n) = true /\ pos st'' <= m n))) ->
  cache_find (pos st, name, None) (cache st) = None -> n < fuel ->
  exists st', memoize_left_rec toks false fuel name body st = (Ok (r n), st')
              /\ pos st' = (if truthy (r n) then m n else pos st)
              /\ cache_find (pos st, name, None) (cache st') = Some (r n, pos st').
Proof.
  intros toks name body r m n st fuel H0 Hm Hstep Hstop Hnone Hf.
  exact (memoize_left_rec_is_iteration toks name body r m n st fuel H0 Hm Hstep Hstop Hnone Hf).
Qed.
Print Assumptions C02_decorator_returns_and_records_the_limit.

(* Seed growing terminates: every further iteration ends strictly later and no match ends beyond
   the input, so with more fuel than positions left the loop never runs out of fuel by itself. *)
Theorem C02_growth_terminates :
  forall (L : nat) key mark body,
  (forall st, fst (body st) <> OutOfFuel) ->
  (forall st v st', body st = (Ok v, st') -> pos st' <= L) ->
  (forall st v st', body st = (Ok v, st') -> truthy v = true -> pos st <= pos st') ->
  forall fuel lastresult lastmark st, (truthy lastresult = false -> lastmark <= mark) ->
  S (L - lastmark) < fuel ->
  fst (grow fuel key mark body lastresult lastmark st) <> OutOfFuel.
Proof.
  intros L key mark body H1 H2 H3 fuel lastresult lastmark st Hfirst Hf.
  apply (grow_terminates L key mark body H1 H2 H3 fuel fuel lastresult lastmark st Hfirst); [|apply le_n].
  destruct (truthy lastresult); lia.
Qed.
Print Assumptions C02_growth_terminates.

(* The hypotheses are satisfiable: a body that extends its seed twice and then stops. *)
Definition ex_key : ckey := (0, "a", None).
Fixpoint ex_r (k : nat) : value := match k with O => VNone | S j => VList [ex_r j; VTrue] end.
Definition ex_body (st : pstate) : R :=
  match cache_find ex_key (cache st) with
  | Some (v, e) => if Nat.ltb e 2 then (Ok (VList [v; VTrue]), with_pos st (S e)) else (Ok VNone, st)
  | None => (Ok VNone, st)
  end.
Example C02_iteration_example :
  exists st', grow 5 ex_key 0 ex_body (ex_r 0) 0 (cache_set ex_key (VNone, 0) init_state) = (Ok (ex_r 2), st') /\ pos st' = 2.
Proof.
  apply (C02_growth_loop_computes_the_iteration_limit ex_key 0 ex_body ex_r (fun k => k) 2).
  - intros k st Hk Hs Hp. unfold seeded in Hs. unfold ex_body. rewrite Hs.
    assert (E : Nat.ltb k 2 = true) by (apply Nat.ltb_lt; exact Hk). rewrite E.
    eexists. repeat split; try reflexivity. left. lia.
  - intros st Hs Hp. unfold seeded in Hs. unfold ex_body. rewrite Hs. cbn. eexists _, _. split; [reflexivity|left; reflexivity].
  - lia.
  - unfold seeded. reflexivity.
Qed.
Print Assumptions C02_iteration_example.

(* Non-vacuity: A: A 'x' | 'b' on  b x x  grows twice and returns the left-nested tree. *)
Definition KD : kinds := {| kNAME := 1; kNUMBER := 2; kSTRING := 3; kOP := 55; kNEWLINE := 4; kINDENT := 5; kDEDENT := 6;
  kENDMARKER := 0; kTYPE_COMMENT := 59; kFSTRING_START := 61; kFSTRING_MIDDLE := 62; kFSTRING_END := 63; kASYNC := 57; kAWAIT := 56 |}.
Definition tk (k : N) (s : string) (c : nat) : rtok := {| ty := k; tstr := s; sline := 1; scol := c; eline := 1; ecol := c + 1; tline := ""; tspace := false |}.
Definition cj (x : string) (c : call) := {| cj_var := Some x; cj_call := c; cj_notnone := false |}.
Definition lr_mod : ir_module :=
  {| i_header := None; i_subheader := ""; i_class := "P"; i_keywords := []; i_soft_keywords := []; i_trailer := None;
     i_meths := [{| m_name := "a"; m_deco := DMemoLeftRec; m_type := "Any"; m_comment := ""; m_nullable := false;
                    m_without_invalid := false; m_locations := false; m_loop := false; m_gather := false;
                    m_alts := [{| a_has_cut := false; a_guard := false; a_conjs := [cj "a" (CMeth "a"); cj "literal" (CExpect "'x'")];
                                  a_locations := false; a_action := "[a, literal]"; a_names := ["a"; "literal"]; a_explicit := false; a_unreachable := false |};
                               {| a_has_cut := false; a_guard := false; a_conjs := [cj "literal" (CExpect "'b'")];
                                  a_locations := false; a_action := "literal"; a_names := ["literal"]; a_explicit := false; a_unreachable := false |}] |}] |}.
Definition lr_aeval (text : string) (e : env) : option value :=
  if String.eqb text "literal" then env_get e "literal"
  else match env_get e "a", env_get e "literal" with Some x, Some y => Some (VList [x; y]) | _, _ => None end.
Definition B := tk 1 "b" 0. Definition X1 := tk 1 "x" 2. Definition X2 := tk 1 "x" 4.
Example C02_demo :
  let '(o, s) := run KD [B; X1; X2; tk 4 "" 5] false true lr_mod lr_aeval [] [] 20 "a" init_state in
  o = Ok (VList [VList [VTok B; VTok X1]; VTok X2]) /\ pos s = 3.
Proof. vm_compute. split; reflexivity. Qed.
Print Assumptions C02_demo.

(* Which generated method grows a seed: whatever original rule the generator emits, in whatever state, if the
   analysis marked it left-recursive it is decorated @memoize_left_rec exactly when the analysis chose it as
   the leader of its cycle, and @logger (never the caching @memoize) otherwise; and no method of a grammar
   without leaders is a seed grower (Proofs/GenDeco.v). *)
From Pegen Require Import Grammar.Ast Analysis.Visitor Analysis.Nullable Gen.Gen Proofs.GenDeco.
Theorem C02_generated_leaders_grow_and_members_are_not_cached :
  forall invalid_tbl iter_fields rs0 nullable_rules left_rec leaders item_flag r st m st',
  emit_rule invalid_tbl iter_fields rs0 nullable_rules left_rec leaders item_flag r st = (inl m, st') ->
  is_original r = true -> mem_str (rname r) left_rec = true ->
  m_name m = rname r /\ m_deco m = (if mem_str (rname r) leaders then DMemoLeftRec else DLogger).
Proof. intros. eapply emit_rule_deco_exact; eauto. Qed.
Print Assumptions C02_generated_leaders_grow_and_members_are_not_cached.

Theorem C02_only_leaders_grow :
  forall invalid_tbl iter_fields rs0 nullable_rules left_rec leaders item_flag r st m st',
  emit_rule invalid_tbl iter_fields rs0 nullable_rules left_rec leaders item_flag r st = (inl m, st') ->
  m_deco m = DMemoLeftRec ->
  mem_str (rname r) leaders = true /\ mem_str (rname r) left_rec = true /\ is_original r = true.
Proof. intros. eapply emit_rule_deco; eauto. Qed.
Print Assumptions C02_only_leaders_grow.

(* The property's own example, as a theorem about the interpreter on ANY module whose method a is the one the generator
   emits for
       a: a 'x' | 'b'
   (Proofs/GrowAxb.v; ordinary rules uncached, quiet): for EVERY number of x tokens, every token list  b x ... x y rest
   whose token after the x's is not an x (the ENDMARKER of a real token stream, or anything else), and every amount of
   fuel above the number of x's plus three, the rule returns the LEFT-nested tree  [[[b, x1], x2], ... xn]  and stops
   after the last x; and a token list that does not start with b is refused without consuming anything.  So the rule
   accepts exactly  b x*.  The proof instantiates C02_decorator_returns_and_records_the_limit with the method's body:
   with the failure as seed the second alternative yields b; with the k-th tree as seed the first alternative replays it
   from the cache and takes one more x; with the last tree as seed the first alternative fails at y and the second
   alternative's  b  does not get further, which ends the growth. *)
From Pegen Require Import Proofs.GrowAxb.
Theorem C02_A_Ax_b_returns_the_left_nested_tree_of_b_xstar :
  forall K toks M b y xs rest fuel,
  find_meth M "a" = Some axb_meth ->
  toks = b :: xs ++ y :: rest -> tstr b = "b" -> Forall (fun t => tstr t = "x") xs -> tstr y <> "x" ->
  List.length xs + 3 <= fuel ->
  exists st', run K toks false false M axb_aeval [] [] fuel "a" init_state = (Ok (nest (VTok b) xs), st') /\
              pos st' = S (List.length xs).
Proof. intros K toks M b y xs rest fuel HM H1 H2 H3 H4 H5. exact (axb_accepts K toks M HM b y xs rest H1 H2 H3 H4 fuel H5). Qed.
Print Assumptions C02_A_Ax_b_returns_the_left_nested_tree_of_b_xstar.

Theorem C02_A_Ax_b_refuses_what_does_not_start_with_b :
  forall K toks M t rest fuel, find_meth M "a" = Some axb_meth -> toks = t :: rest -> tstr t <> "b" -> 2 <= fuel ->
  exists st', run K toks false false M axb_aeval [] [] fuel "a" init_state = (Ok VNone, st') /\ pos st' = 0.
Proof. intros K toks M t rest fuel HM. exact (axb_rejects K toks M HM t rest fuel). Qed.
Print Assumptions C02_A_Ax_b_refuses_what_does_not_start_with_b.

(* The generator model emits exactly that method for  start: a NEWLINE ; a: a 'x' | 'b'  (the analysis marking a as
   the leader); the tree for three x's is the left-nested one. *)
Definition ni_axb (k : N) (i : item) := NItem k None None i.
Definition g_axb : grammar :=
  {| rules := [{| rname := "start"; rtype := None; rmemo := false;
                  rrhs := Rhs 1 [Alt [ni_axb 2 (NameLeaf "a"); ni_axb 3 (NameLeaf "NEWLINE")] None] |};
               {| rname := "a"; rtype := None; rmemo := false;
                  rrhs := Rhs 4 [Alt [ni_axb 5 (NameLeaf "a"); ni_axb 6 (StringLeaf "'x'")] None; Alt [ni_axb 7 (StringLeaf "'b'")] None] |}];
     metas := [] |}.
Example C02_axb_is_generated :
  match generate [] [] "" "" "g" 100 g_axb {| a_nullable := []; a_item_nullable := []; a_graph := [("start", ["a"]); ("a", ["a"])]; a_left_rec := ["a"]; a_leaders := ["a"] |} with
  | inl M => find_meth M "a" = Some axb_meth
  | inr _ => False
  end /\ nest (VTok B) [X1; X2; X1] = VList [VList [VList [VTok B; VTok X1]; VTok X2]; VTok X1].
Proof. vm_compute. split; reflexivity. Qed.
Print Assumptions C02_axb_is_generated.

(* INDIRECT left recursion, for all inputs (Proofs/GrowIndirect.v):   a: c 'x' | 'b' ;  c: a .   The analysis makes a the
   leader (it grows the seed) and c a logged, uncached member.  On any module with these two methods, for every number
   of x tokens: entered at the leader a, or at the other member c, the result on  b x ... x y rest  (y not an x) is the
   left-nested tree and the position after the last x.  In each growth round a's first alternative calls c, c calls a,
   and a's decorator replays the current seed from the cache. *)
From Pegen Require Import Proofs.GrowIndirect.
Theorem C02_indirect_cycle_entered_at_the_leader :
  forall K toks M b y xs rest fuel,
  find_meth M "a" = Some ind_a -> find_meth M "c" = Some ind_c ->
  toks = b :: xs ++ y :: rest -> tstr b = "b" -> Forall (fun t => tstr t = "x") xs -> tstr y <> "x" ->
  List.length xs + 4 <= fuel ->
  exists st', run K toks false false M ind_aeval [] [] fuel "a" init_state = (Ok (nest (VTok b) xs), st') /\
              pos st' = S (List.length xs).
Proof.
  intros K toks M b y xs rest fuel Ha Hc H1 H2 H3 H4 H5.
  destruct (ind_accepts_at_a K toks M Ha Hc b y xs rest H1 H2 H3 H4 fuel H5) as (st' & E & P & _). exists st'. split; assumption.
Qed.
Print Assumptions C02_indirect_cycle_entered_at_the_leader.

Theorem C02_indirect_cycle_entered_at_another_member :
  forall K toks M b y xs rest fuel,
  find_meth M "a" = Some ind_a -> find_meth M "c" = Some ind_c ->
  toks = b :: xs ++ y :: rest -> tstr b = "b" -> Forall (fun t => tstr t = "x") xs -> tstr y <> "x" ->
  List.length xs + 5 <= fuel ->
  exists st', run K toks false false M ind_aeval [] [] fuel "c" init_state = (Ok (nest (VTok b) xs), st') /\
              pos st' = S (List.length xs).
Proof. intros K toks M b y xs rest fuel Ha Hc H1 H2 H3 H4 H5. exact (ind_accepts_at_c K toks M Ha Hc b y xs rest H1 H2 H3 H4 fuel H5). Qed.
Print Assumptions C02_indirect_cycle_entered_at_another_member.

Definition g_ind : grammar :=
  {| rules := [{| rname := "start"; rtype := None; rmemo := false;
                  rrhs := Rhs 1 [Alt [ni_axb 2 (NameLeaf "c"); ni_axb 3 (NameLeaf "NEWLINE")] None] |};
               {| rname := "a"; rtype := None; rmemo := false;
                  rrhs := Rhs 4 [Alt [ni_axb 5 (NameLeaf "c"); ni_axb 6 (StringLeaf "'x'")] None; Alt [ni_axb 7 (StringLeaf "'b'")] None] |};
               {| rname := "c"; rtype := None; rmemo := false; rrhs := Rhs 8 [Alt [ni_axb 9 (NameLeaf "a")] None] |}];
     metas := [] |}.
Example C02_indirect_is_generated :
  match generate [] [] "" "" "g" 100 g_ind {| a_nullable := []; a_item_nullable := []; a_graph := [("start", ["c"]); ("a", ["c"]); ("c", ["a"])];
                                               a_left_rec := ["a"; "c"]; a_leaders := ["a"] |} with
  | inl M => find_meth M "a" = Some ind_a /\ find_meth M "c" = Some ind_c
  | inr _ => False
  end.
Proof. vm_compute. split; reflexivity. Qed.
Print Assumptions C02_indirect_is_generated.

(* HIDDEN left recursion, for all inputs (Proofs/GrowHidden.v):   a: 'q'? a 'x' | 'b' .   The recursive reference comes after
   an item that can match nothing, so the rule can invoke itself without consuming input; the analysis marks it and the
   decorator grows the seed.  On any module with this method, for every number of x tokens, the result on
   b x ... x y rest  (y not an x) is the left-nested tree -- each level with None for the unmatched optional -- and the
   position after the last x; an input that starts with neither b nor q is refused. *)
From Pegen Require Import Proofs.GrowHidden.
Theorem C02_hidden_left_recursion_after_a_nullable_item :
  forall K toks M b y xs rest fuel,
  find_meth M "a" = Some hid_meth ->
  toks = b :: xs ++ y :: rest -> tstr b = "b" -> Forall (fun t => tstr t = "x") xs -> tstr y <> "x" ->
  List.length xs + 3 <= fuel ->
  exists st', run K toks false false M hid_aeval [] [] fuel "a" init_state = (Ok (nest3 (VTok b) xs), st') /\
              pos st' = S (List.length xs).
Proof. intros K toks M b y xs rest fuel HM H1 H2 H3 H4 H5. exact (hid_accepts K toks M HM b y xs rest H1 H2 H3 H4 fuel H5). Qed.
Print Assumptions C02_hidden_left_recursion_after_a_nullable_item.

Theorem C02_hidden_left_recursion_refuses_other_input :
  forall K toks M t rest fuel, find_meth M "a" = Some hid_meth -> toks = t :: rest -> tstr t <> "b" -> tstr t <> "q" -> 2 <= fuel ->
  exists st', run K toks false false M hid_aeval [] [] fuel "a" init_state = (Ok VNone, st') /\ pos st' = 0.
Proof. intros K toks M t rest fuel HM. exact (hid_rejects K toks M HM t rest fuel). Qed.
Print Assumptions C02_hidden_left_recursion_refuses_other_input.

Definition g_hid : grammar :=
  {| rules := [{| rname := "start"; rtype := None; rmemo := false;
                  rrhs := Rhs 1 [Alt [ni_axb 2 (NameLeaf "a"); ni_axb 3 (NameLeaf "NEWLINE")] None] |};
               {| rname := "a"; rtype := None; rmemo := false;
                  rrhs := Rhs 4 [Alt [ni_axb 5 (Opt (StringLeaf "'q'")); ni_axb 6 (NameLeaf "a"); ni_axb 7 (StringLeaf "'x'")] None;
                                 Alt [ni_axb 8 (StringLeaf "'b'")] None] |}];
     metas := [] |}.
Example C02_hidden_is_generated :
  match generate [] [] "" "" "g" 100 g_hid {| a_nullable := []; a_item_nullable := [5%N]; a_graph := [("start", ["a"]); ("a", ["a"])];
                                               a_left_rec := ["a"]; a_leaders := ["a"] |} with
  | inl M => find_meth M "a" = Some hid_meth
  | inr _ => False
  end.
Proof. vm_compute. reflexivity. Qed.
Print Assumptions C02_hidden_is_generated.
