(* C04 — memoization and tracing are unobservable (partial: see the notes in MANIFEST/DESIGN). *)
From Coq Require Import List String NArith ZArith Bool Arith.
From Pegen Require Import Base.StrUtil Base.Values Runtime.Tokenizer Sem.Peg Gen.Gen Runtime.Exec Proofs.ExecInv.
Import ListNotations.
Open Scope string_scope.

Definition full_statement_verbose : Prop :=
  forall K toks use_cache M aeval ex td fuel n st,
    let '(o1, s1) := run K toks false use_cache M aeval ex td fuel n st in
    let '(o2, s2) := run K toks true use_cache M aeval ex td fuel n st in
    o1 = o2 /\ pos s1 = pos s2 /\ fetched s1 = fetched s2.

(* The faithful model REFUTES the full statement: verbose tracing peeks on a cache miss, so the
   furthest token fetched -- the position make_syntax_error reports -- differs.  Witness:
   start: NAME r NEWLINE ; r: invalid_z  (r's only alternative is guarded) on the tokens  a b NEWLINE. *)
Definition KD : kinds := {| kNAME := 1; kNUMBER := 2; kSTRING := 3; kOP := 55; kNEWLINE := 4; kINDENT := 5; kDEDENT := 6;
  kENDMARKER := 0; kTYPE_COMMENT := 59; kFSTRING_START := 61; kFSTRING_MIDDLE := 62; kFSTRING_END := 63; kASYNC := 57; kAWAIT := 56 |}.
Definition mkt (k : N) (s : string) (c : nat) : rtok :=
  {| ty := k; tstr := s; sline := 1; scol := c; eline := 1; ecol := c + 1; tline := ""; tspace := false |}.
Definition w_toks : list rtok := [mkt 1 "a" 0; mkt 1 "b" 2; mkt 4 "" 3; mkt 0 "" 4].
Definition w_mod : ir_module :=
  {| i_header := None; i_subheader := ""; i_class := "P"; i_keywords := []; i_soft_keywords := []; i_trailer := None;
     i_meths :=
       [{| m_name := "start"; m_deco := DMemo; m_type := "Any"; m_comment := ""; m_nullable := false;
           m_without_invalid := false; m_locations := false; m_loop := false; m_gather := false;
           m_alts := [{| a_has_cut := false; a_guard := false;
                         a_conjs := [{| cj_var := Some "name"; cj_call := CMeth "name"; cj_notnone := false |};
                                     {| cj_var := Some "r"; cj_call := CMeth "r"; cj_notnone := false |};
                                     {| cj_var := Some "_newline"; cj_call := CExpect "'NEWLINE'"; cj_notnone := false |}];
                         a_locations := false; a_action := "[name, r, _newline]"; a_names := ["name"; "r"; "_newline"];
                         a_explicit := false; a_unreachable := false |}] |};
        {| m_name := "r"; m_deco := DMemo; m_type := "Any"; m_comment := ""; m_nullable := false;
           m_without_invalid := false; m_locations := false; m_loop := false; m_gather := false;
           m_alts := [{| a_has_cut := false; a_guard := true;
                         a_conjs := [{| cj_var := None; cj_call := CMeth "invalid_z"; cj_notnone := false |}];
                         a_locations := false; a_action := "None  # pragma: no cover"; a_names := []; a_explicit := true; a_unreachable := false |}] |}] |}.
Definition w_run (verbose : bool) :=
  let '(o, s) := run KD w_toks verbose true w_mod (fun _ _ => Some VTrue) [] [] 20 "start" init_state in
  (match o with Ok v => truthy v | _ => true end, pos s, fetched s).

Theorem C04_verbose_refuted : w_run false = (false, 0, 1) /\ w_run true = (false, 0, 2).
Proof. vm_compute. split; reflexivity. Qed.
Print Assumptions C04_verbose_refuted.

(* The full statement is false in ERROR MODE as well, for the cache: the cache key has no error-mode
   component, and a *_without_invalid rule switches error mode off while it runs.  Witness (the IR
   the generator model produces for it):
     start: a_without_invalid 'z' NEWLINE | b NEWLINE ;  a_without_invalid: x 'q' ;  b: x 'w' ;
     x: invalid_x | NAME ;  invalid_x: n=NAME { foo(n) }         on the tokens  k w NEWLINE
   With the cache, x's result computed inside a_without_invalid is replayed for b and the parse
   succeeds; without it invalid_x runs, x's first alternative returns None and the parse fails. *)
Definition plain_alt (conjs : list conj) (act : string) (names : list string) : ialt :=
  {| a_has_cut := false; a_guard := false; a_conjs := conjs; a_locations := false; a_action := act; a_names := names;
     a_explicit := false; a_unreachable := false |}.
Definition cjv (x : string) (c : call) : conj := {| cj_var := Some x; cj_call := c; cj_notnone := false |}.
Definition mk_meth (n : string) (wo : bool) (alts : list ialt) : meth :=
  {| m_name := n; m_deco := DMemo; m_type := "Any"; m_comment := ""; m_nullable := false; m_without_invalid := wo;
     m_locations := false; m_loop := false; m_gather := false; m_alts := alts |}.
Definition e_mod : ir_module :=
  {| i_header := None; i_subheader := ""; i_class := "P"; i_keywords := ["q"; "w"; "z"]; i_soft_keywords := []; i_trailer := None;
     i_meths :=
       [mk_meth "start" false
          [plain_alt [cjv "a_without_invalid" (CMeth "a_without_invalid"); cjv "literal" (CExpect "'z'");
                      cjv "_newline" (CExpect "'NEWLINE'")] "[a_without_invalid, literal, _newline]"
                     ["a_without_invalid"; "literal"; "_newline"];
           plain_alt [cjv "b" (CMeth "b"); cjv "_newline" (CExpect "'NEWLINE'")] "[b, _newline]" ["b"; "_newline"]];
        mk_meth "a_without_invalid" true
          [plain_alt [cjv "x" (CMeth "x"); cjv "literal" (CExpect "'q'")] "[x, literal]" ["x"; "literal"]];
        mk_meth "b" false
          [plain_alt [cjv "x" (CMeth "x"); cjv "literal" (CExpect "'w'")] "[x, literal]" ["x"; "literal"]];
        mk_meth "x" false
          [{| a_has_cut := false; a_guard := true;
              a_conjs := [{| cj_var := None; cj_call := CMeth "invalid_x"; cj_notnone := false |}];
              a_locations := false; a_action := "None  # pragma: no cover"; a_names := []; a_explicit := true; a_unreachable := false |};
           plain_alt [cjv "name" (CMeth "name")] "name" ["name"]];
        mk_meth "invalid_x" false
          [{| a_has_cut := false; a_guard := false; a_conjs := [cjv "n" (CMeth "name")]; a_locations := false;
              a_action := "foo ( n )"; a_names := ["n"]; a_explicit := true; a_unreachable := false |}]] |}.
Definition e_toks : list rtok := [mkt 1 "k" 0; mkt 1 "w" 2; mkt 4 "" 3; mkt 0 "" 4].
Definition e_aeval (text : string) (e : env) : option value :=
  if String.eqb text "None  # pragma: no cover" then Some VNone else Some VTrue.
Definition e_run (use_cache : bool) :=
  let '(o, s) := run KD e_toks false use_cache e_mod e_aeval [] [("NEWLINE", 4%N)] 40 "start" (with_invalid init_state true) in
  (match o with Ok v => truthy v | _ => false end, pos s).

Theorem C04_cache_refuted_in_error_mode : e_run true = (true, 3) /\ e_run false = (false, 0).
Proof. vm_compute. split; reflexivity. Qed.
Print Assumptions C04_cache_refuted_in_error_mode.

(* What is proved for every module, input and state: a cache hit replays exactly the recorded
   result and end position without running the body (quiet and verbose alike) ... *)
Theorem C04_cache_hit_replays : forall toks verbose name arg body st tree endmark,
  cache_find (pos st, name, arg) (cache st) = Some (tree, endmark) ->
  memoize toks verbose true name arg body st = (Ok tree, with_pos st endmark).
Proof. intros toks verbose name arg body st tree endmark H. unfold memoize. cbn. rewrite H. reflexivity. Qed.
Print Assumptions C04_cache_hit_replays.

(* ... and every entry that can be in the cache was produced from that position and records an end
   position consistent with its result (the cache half of the invariant of Props/C05.v). *)
Theorem C04_cache_entries_consistent :
  forall K toks verbose use_cache M aeval ex td,
  (forall text e v, aeval text e = Some v -> truthy v = true) -> ir_wf M = true ->
  forall fuel n,
  cache_ok (cache (snd (run K toks verbose use_cache M aeval ex td fuel n init_state))).
Proof.
  intros K toks verbose use_cache M aeval ex td Ht Hw fuel n.
  assert (HI : Inv init_state) by (split; [intros p m a r H; discriminate H | split; [constructor | reflexivity]]).
  exact (proj1 (proj1 (position_invariant K toks verbose use_cache M aeval ex td Ht Hw fuel n init_state HI))).
Qed.
Print Assumptions C04_cache_entries_consistent.

(* The general equality "cache on = cache off", where it is TRUE.  For every module WITHOUT a
   left-recursive leader, run quietly (verbose off) from any state with error mode off and an empty
   cache -- or with error mode ON if the module has no *_without_invalid method --, every method, token
   list, interpretation of actions and fuel: whenever the uncached run
   terminates, the cached run returns the same outcome -- the same value, the same failure, or the
   same exception INCLUDING the token a SyntaxError points at -- and on a normal outcome the same
   final position and the same furthest token fetched (what make_syntax_error reports for a soft
   failure).  (Proofs/FuelMono.v: more fuel never changes an answer; Proofs/CacheStable.v: the
   uncached run reads its state only through the position; Proofs/CacheSim.v: simulation with the
   invariant that every memo entry is what the uncached invocation at its position returns.)
   "_partial": the full statement also quantifies over verbose tracing and over error mode with
   *_without_invalid methods, where it is REFUTED above (C04_verbose_refuted,
   C04_cache_refuted_in_error_mode: exactly the excluded combination), and over left-recursive
   leaders, whose seed growing reads and overwrites the cache by design (Props/C02.v and the
   four-configuration correspondence cover those). *)
From Pegen Require Import Proofs.FuelMono Proofs.CacheStable Proofs.CacheSim.
Theorem C04_cache_transparent_partial :
  forall K toks M aeval ex td fuel n s,
  no_left_rec M = true -> (invalid s = false \/ no_wi M = true) -> cache s = [] ->
  let rU := run K toks false false M aeval ex td fuel n s in
  let rC := run K toks false true M aeval ex td fuel n s in
  fst rU <> OutOfFuel ->
  fst rC = fst rU /\
  (forall v, fst rU = Ok v -> pos (snd rC) = pos (snd rU) /\ fetched (snd rC) = fetched (snd rU)).
Proof.
  intros K toks M aeval ex td fuel n s Hn Hi Hc rU rC Hd.
  assert (Hs : sim K toks M aeval ex td (invalid s) s s).
  { unfold sim. repeat split; auto. rewrite Hc. intros k r H. discriminate H. }
  destruct (cache_transparent K toks M aeval ex td Hn (invalid s) Hi fuel n s s Hs Hd) as (Ho & Hok).
  split; [exact Ho|]. intros v Hv. destruct (Hok v Hv) as (Hp & Hf & _). split; assumption.
Qed.
Print Assumptions C04_cache_transparent_partial.

(* non-vacuity: a module without leaders where the cache is HIT (the cached run logs fewer invocations),
   the hypotheses hold and the runs agree.   start: a NUMBER | a NEWLINE ;  a: NAME   on  x NEWLINE *)
Definition t_mod : ir_module :=
  {| i_header := None; i_subheader := ""; i_class := "P"; i_keywords := []; i_soft_keywords := []; i_trailer := None;
     i_meths := [mk_meth "start" false
                   [plain_alt [cjv "a" (CMeth "a"); cjv "number" (CMeth "number")] "[a, number]" ["a"; "number"];
                    plain_alt [cjv "a" (CMeth "a"); cjv "_newline" (CExpect "'NEWLINE'")] "[a, _newline]" ["a"; "_newline"]];
                 mk_meth "a" false [plain_alt [cjv "name" (CMeth "name")] "name" ["name"]]] |}.
Definition t_toks : list rtok := [mkt 1 "x" 0; mkt 4 "" 1; mkt 0 "" 2].
Definition t_run (use_cache : bool) :=
  let '(o, s) := run KD t_toks false use_cache t_mod (fun _ _ => Some VTrue) [] [("NEWLINE", 4%N)] 20 "start" init_state in
  (match o with Ok v => truthy v | _ => false end, pos s, fetched s, List.length (events s)).
Example C04_transparent_example :
  no_left_rec t_mod = true /\ t_run true = (true, 2, 2, 6) /\ t_run false = (true, 2, 2, 7).
Proof. vm_compute. repeat split; reflexivity. Qed.
Print Assumptions C04_transparent_example.

(* The same at the level of the generator: for EVERY grammar in which the analysis finds no left-recursive
   leader (whatever the tables), the module the generator model emits has no @memoize_left_rec method
   (Proofs/GenDeco.v), so the parser generated from it behaves the same with and without its memo cache. *)
From Pegen Require Import Grammar.Ast Analysis.Nullable Proofs.GenDeco.
Theorem C04_generated_parsers_without_leaders_are_cache_transparent :
  forall invalid_tbl iter_fields pre suf file fb g an M,
  a_leaders an = [] -> generate invalid_tbl iter_fields pre suf file fb g an = inl M ->
  forall K toks aeval ex td fuel n s,
  (invalid s = false \/ no_wi M = true) -> cache s = [] ->
  let rU := run K toks false false M aeval ex td fuel n s in
  let rC := run K toks false true M aeval ex td fuel n s in
  fst rU <> OutOfFuel ->
  fst rC = fst rU /\
  (forall v, fst rU = Ok v -> pos (snd rC) = pos (snd rU) /\ fetched (snd rC) = fetched (snd rU)).
Proof.
  intros tbl itf pre suf file fb g an M Hl HM K toks aeval ex td fuel n s Hi Hc.
  exact (C04_cache_transparent_partial K toks M aeval ex td fuel n s (no_leaders_no_left_rec tbl itf pre suf file fb g an M Hl HM) Hi Hc).
Qed.
Print Assumptions C04_generated_parsers_without_leaders_are_cache_transparent.
