(* C07 — error construction path of the Python parser (partial: clauses ii-iv on the path owned
   by this repository; "refuses exactly what the interpreter refuses" has no model). *)
From Coq Require Import List String NArith Bool Arith Lia.
From Pegen Require Import Base.StrUtil Runtime.Tokenizer Proofs.TokenizerProofs Proofs.TokenizerLines.
Import ListNotations.
Open Scope string_scope.

(* _build_syntax_error asks the tokenizer wrapper for the lines start[0] .. end[0] of a range taken
   from fetched tokens.  For every raw token stream obeying tokenize's contract for TokenInfo.line,
   every history of cursor operations and every such range all of whose lines have been touched by
   a pulled token, the request does not raise and yields the real lines of the text -- without a
   path; with a path (file content = the text) likewise for every line of the text; the two answers
   are equal.  (Instance of the C14 line theorems for ranges.) *)
Theorem C07_error_text_total_and_real : forall C raw text,
  (forall t, In t raw -> tok_line_ok text t) ->
  forall ops st outs l1 l2, run C false [] (init raw) ops = (st, outs) -> l1 <= l2 ->
  (forall n, l1 <= n <= l2 -> seen raw st n) ->
  exists L, step C false [] st (GetLines (seq l1 (S l2 - l1))) = (st, OLines L) /\ real_lines text (seq l1 (S l2 - l1)) L.
Proof.
  intros C raw text Hwf ops st outs l1 l2 Hrun Hle Hseen.
  apply (get_lines_string_reachable C raw text Hwf ops st outs); auto.
  - destruct (S l2 - l1) eqn:E; [lia|discriminate].
  - intros n Hn. apply in_seq in Hn. apply Hseen. lia.
Qed.
Print Assumptions C07_error_text_total_and_real.

Theorem C07_same_text_with_and_without_path : forall text ns L L',
  real_lines text ns L -> real_lines text ns L' -> L = L'.
Proof. exact real_lines_unique. Qed.
Print Assumptions C07_same_text_with_and_without_path.
