(* C18 — the unreachable-alternative check is exact on item sequences. *)
From Coq Require Import List String Bool NArith.
From Pegen Require Import Base.StrUtil Grammar.Ast Grammar.Printer Analysis.Validator Proofs.ValidatorProofs.
Import ListNotations.
Open Scope string_scope.

(* An alternative pair is reported exactly when the earlier one's item sequence is a prefix of
   (or equal to) the later one's — for either setting of SIMPLE_STR. *)
Theorem C18_pair_exact : forall simple a b,
  check_intersection simple a b = true <-> item_prefix simple a b.
Proof. exact check_intersection_exact. Qed.
Print Assumptions C18_pair_exact.

(* Validation of a whole grammar is silent exactly when no rule has such a pair ... *)
Theorem C18_silent_iff_no_prefix : forall simple g,
  validate_grammar simple g = None <->
  forall r, In r (rules g) -> forall a b, before a b (rhs_alts (rrhs r)) -> ~ item_prefix simple a b.
Proof. intros simple g. exact (validate_rules_none simple (rules g)). Qed.
Print Assumptions C18_silent_iff_no_prefix.

(* ... and what it reports is a true item-wise prefix pair of the named rule (never a miss,
   never a character-level coincidence). *)
Theorem C18_report_is_true_prefix : forall simple g n s,
  validate_grammar simple g = Some (n, s) ->
  exists r a b, In r (rules g) /\ rname r = n /\ before a b (rhs_alts (rrhs r)) /\
                item_prefix simple a b /\ s = alt_str simple b.
Proof. intros simple g n s. exact (validate_rules_some simple (rules g) n s). Qed.
Print Assumptions C18_report_is_true_prefix.

(* Non-vacuity: a character-wise prefix that is not an item-wise prefix is not reported, a true
   item-wise prefix is. *)
Definition ni (s : string) := NItem 0%N None None (NameLeaf s).
Example C18_char_prefix_not_reported :
  validate_alts true [Alt [ni "foo"] None; Alt [ni "foo_bar"] None] = None.
Proof. vm_compute. reflexivity. Qed.
Print Assumptions C18_char_prefix_not_reported.
Example C18_item_prefix_reported :
  validate_alts true [Alt [ni "foo"] None; Alt [ni "foo"; ni "bar"] None] = Some (Alt [ni "foo"; ni "bar"] None).
Proof. vm_compute. reflexivity. Qed.
Print Assumptions C18_item_prefix_reported.
