(* C08 — the shipped meta-parser is the generator's own output (bootstrap fixpoint). *)
From Coq Require Import List String NArith Bool Arith.
Import ListNotations.

(* Lifting lemma: once one regeneration step reproduces its input (the step being: read the
   meta-grammar with the current parser, generate), EVERY later stage is the same text.  The two
   computed facts it lifts are re-established on every run: (a) the generator model's text for the
   meta-grammar equals what the real generator writes (instance of K-gen, evaluated by vm_compute),
   and (b) the parser regenerated from that text reads the meta-grammar to the same grammar, so the
   step maps the text to itself (checked on the implementation by exact text comparison). *)
Theorem C08_fixpoint_lifts_to_every_stage : forall (A : Type) (step : A -> A) (x : A),
  step x = x -> forall n, Nat.iter n step x = x.
Proof.
  intros A step x H n. induction n as [|n IH]; [reflexivity|].
  change (Nat.iter (S n) step x) with (step (Nat.iter n step x)). rewrite IH. exact H.
Qed.
Print Assumptions C08_fixpoint_lifts_to_every_stage.

(* and if stage 1 already equals the shipped text, every stage equals the shipped text *)
Corollary C08_all_stages_equal_shipped : forall (A : Type) (step : A -> A) (shipped : A),
  step shipped = shipped -> forall n, Nat.iter n step shipped = shipped.
Proof. intros A step shipped. exact (C08_fixpoint_lifts_to_every_stage A step shipped). Qed.
Print Assumptions C08_all_stages_equal_shipped.
