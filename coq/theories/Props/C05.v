(* C05 — failure consumes nothing; success never moves backwards. *)
From Coq Require Import List String NArith Bool Arith.
From Pegen Require Import Base.StrUtil Base.Values Runtime.Tokenizer Sem.Peg Gen.Gen Runtime.Exec Proofs.ExecInv.
Import ListNotations.
Open Scope string_scope.

(* For EVERY IR module that is well-formed (decidable [ir_wf]: no lookahead directly over a forced
   item, loop methods without a cut of their own -- re-checked by evaluation for every generated
   module the check explores), every token list, both verbosity settings, cache on or off, every
   interpretation of actions whose results are truthy, every amount of fuel and every reachable
   state: each invocation (rule method, token primitive, lookahead helper; cache hits and
   seed-growing iterations included) that yields a falsy value leaves the cursor where it was, a
   successful one never moves it backwards, lookahead helpers never move it, and the cache only
   holds entries with these properties. *)
Theorem C05_position_invariant :
  forall K toks verbose use_cache M aeval exact_types token_dict,
  (forall text e v, aeval text e = Some v -> truthy v = true) ->
  ir_wf M = true ->
  forall fuel n st, Inv st ->
  post st (run K toks verbose use_cache M aeval exact_types token_dict fuel n st).
Proof. intros K toks verbose use_cache M aeval ex td Ht Hw fuel. exact (position_invariant K toks verbose use_cache M aeval ex td Ht Hw fuel). Qed.
Print Assumptions C05_position_invariant.

(* In particular, for a whole parse from the initial state every logged invocation is fine. *)
Theorem C05_every_invocation :
  forall K toks verbose use_cache M aeval exact_types token_dict,
  (forall text e v, aeval text e = Some v -> truthy v = true) ->
  ir_wf M = true ->
  forall fuel n,
  Forall event_ok (events (snd (run K toks verbose use_cache M aeval exact_types token_dict fuel n init_state))).
Proof.
  intros K toks verbose use_cache M aeval ex td Ht Hw fuel n.
  assert (HI : Inv init_state) by (split; [intros p m a r H; discriminate H | split; [constructor | reflexivity]]).
  exact (proj1 (proj2 (proj1 (position_invariant K toks verbose use_cache M aeval ex td Ht Hw fuel n init_state HI)))).
Qed.
Print Assumptions C05_every_invocation.
