(* C05 — failure consumes nothing; success never moves backwards. *)
From Coq Require Import List String NArith Bool Arith.
From Pegen Require Import Base.StrUtil Base.Values Runtime.Tokenizer Sem.Peg Gen.Gen Runtime.Exec Proofs.ExecInv.
Import ListNotations.
Open Scope string_scope.

(* For EVERY IR module that is well-formed (decidable [ir_wf]: no lookahead directly over a forced
   item, loop methods without a cut of their own -- re-checked by evaluation for every generated
   module the check explores), every token list, both verbosity settings, cache on or off, every
   interpretation of actions whose results are truthy, every amount of fuel and every reachable
   state: each invocation (rule method, token primitive, lookahead helper; cache hits and
   seed-growing iterations included) that yields a falsy value leaves the cursor where it was, a
   successful one never moves it backwards, lookahead helpers never move it, and the cache only
   holds entries with these properties. *)
Theorem C05_position_invariant :
  forall K toks verbose use_cache M aeval exact_types token_dict,
  (forall text e v, aeval text e = Some v -> truthy v = true) ->
  ir_wf M = true ->
  forall fuel n st, Inv st ->
  post st (run K toks verbose use_cache M aeval exact_types token_dict fuel n st).
Proof. intros K toks verbose use_cache M aeval ex td Ht Hw fuel. exact (position_invariant K toks verbose use_cache M aeval ex td Ht Hw fuel). Qed.
Print Assumptions C05_position_invariant.

(* In particular, for a whole parse from the initial state every logged invocation is fine. *)
Theorem C05_every_invocation :
  forall K toks verbose use_cache M aeval exact_types token_dict,
  (forall text e v, aeval text e = Some v -> truthy v = true) ->
  ir_wf M = true ->
  forall fuel n,
  Forall event_ok (events (snd (run K toks verbose use_cache M aeval exact_types token_dict fuel n init_state))).
Proof.
  intros K toks verbose use_cache M aeval ex td Ht Hw fuel n.
  assert (HI : Inv init_state) by (split; [intros p m a r H; discriminate H | split; [constructor | reflexivity]]).
  exact (proj1 (proj2 (proj1 (position_invariant K toks verbose use_cache M aeval ex td Ht Hw fuel n init_state HI)))).
Qed.
Print Assumptions C05_every_invocation.

(* ... and [ir_wf] is a THEOREM about the generator (Proofs/GenWf.v): for EVERY grammar in which forced
   items stand directly among the items of an alternative (not inside groups, optionals, repetitions,
   gathers or lookaheads -- which excludes exactly the recorded finding "lookahead over a forced
   item"), no repetition or gather is applied directly to a cut, and no rule name starts with an
   underscore, whatever the analysis results and tables, the module the generator model emits is
   well-formed.  Hence every parser generated from such a grammar keeps the position invariant, for
   every invocation of every method on every input. *)
From Pegen Require Import Grammar.Ast Analysis.Nullable Proofs.GenWf.
Theorem C05_generated_parsers_keep_the_position_invariant :
  forall invalid_tbl iter_fields pre suf file fb g an M,
  grammar_shape_ok g = true ->
  generate invalid_tbl iter_fields pre suf file fb g an = inl M ->
  forall K toks verbose use_cache aeval exact_types token_dict,
  (forall text e v, aeval text e = Some v -> truthy v = true) ->
  forall fuel n,
  Forall event_ok (events (snd (run K toks verbose use_cache M aeval exact_types token_dict fuel n init_state))) /\
  (forall st, Inv st -> post st (run K toks verbose use_cache M aeval exact_types token_dict fuel n st)).
Proof.
  intros tbl itf pre suf file fb g an M Hg HM K toks verbose use_cache aeval ex td Ht fuel n.
  pose proof (generated_ir_wf tbl itf pre suf file fb g an M Hg HM) as Hw.
  split; [exact (C05_every_invocation K toks verbose use_cache M aeval ex td Ht Hw fuel n)|].
  intros st HI. exact (C05_position_invariant K toks verbose use_cache M aeval ex td Ht Hw fuel n st HI).
Qed.
Print Assumptions C05_generated_parsers_keep_the_position_invariant.

(* non-vacuity: a grammar with a forced item, a gather, a repetition, an optional, lookaheads and a cut meets the
   shape hypothesis and is generated.   start: 'if' ~ &&NAME ','.(a | NUMBER)+ [b] !'x' NEWLINE ; a: NAME ; b: 'x'* *)
Definition g05 : grammar :=
  {| rules :=
       [{| rname := "start"; rtype := None; rmemo := false;
           rrhs := Rhs 1 [Alt [NItem 20 None None (StringLeaf "'if'"); NItem 21 None None Cut;
                                NItem 22 None None (Forced (NameLeaf "NAME"));
                                NItem 2 None None (Gather 3 (StringLeaf "','")
                                   (Group (Rhs 4 [Alt [NItem 5 None None (NameLeaf "a")] None; Alt [NItem 6 None None (NameLeaf "NUMBER")] None])));
                                NItem 7 None None (Opt (NameLeaf "b"));
                                NItem 8 None None (NegLook (StringLeaf "'x'"));
                                NItem 9 None None (NameLeaf "NEWLINE")] None] |};
        {| rname := "a"; rtype := None; rmemo := false; rrhs := Rhs 10 [Alt [NItem 11 None None (NameLeaf "NAME")] None] |};
        {| rname := "b"; rtype := None; rmemo := false; rrhs := Rhs 12 [Alt [NItem 13 None None (Repeat0 14 (StringLeaf "'x'"))] None] |}];
     metas := [] |}.
Example C05_generated_example :
  grammar_shape_ok g05 = true /\
  match generate [] [] "" "" "g" 100 g05 {| a_nullable := ["b"]; a_item_nullable := [7%N; 13%N]; a_graph := []; a_left_rec := []; a_leaders := [] |} with
  | inl M => ir_wf M = true /\ List.length (i_meths M) = 7
  | inr _ => False
  end.
Proof. vm_compute. repeat split; reflexivity. Qed.
Print Assumptions C05_generated_example.
