(* C13 — ill-formed grammars are refused up front (reference / name checks). *)
From Coq Require Import List String NArith Bool.
From Pegen Require Import Base.StrUtil Grammar.Ast Analysis.Visitor Analysis.RuleCheck Proofs.RuleCheckProofs
  Base.Values Runtime.Tokenizer Sem.Peg Gen.Gen Runtime.Exec Proofs.ExecRefs.
Import ListNotations.
Open Scope string_scope.

(* With the __iter__ table extracted from grammar.py satisfying [fields_ok] (re-checked on every
   run for the current source), the up-front check accepts a grammar exactly when: no rule name
   starts with an underscore; it has a trailer or a start rule; and EVERY name referenced anywhere
   in any rule (any nesting depth: groups, optionals, repetitions, gather element and separator,
   lookahead operands, forced items) is a rule or a known token, and no item name starts with an
   underscore. *)
Theorem C13_accept_iff_wellformed : forall tbl tokens g, fields_ok tbl ->
  (check_grammar tbl tokens g = None <->
   (forall r, In r (rules g) -> startswith "_" (rname r) = false) /\
   (has_meta g "trailer" = true \/ has_rule g "start" = true) /\
   (forall r, In r (rules g) ->
      good_names (known_in g tokens) (rhs_names (rrhs r)) /\ good_vars (rhs_vars (rrhs r)))).
Proof. exact check_grammar_accepts. Qed.
Print Assumptions C13_accept_iff_wellformed.

(* In particular a dangling reference at any position is refused ... *)
Theorem C13_dangling_refused : forall tbl tokens g r n, fields_ok tbl ->
  In r (rules g) -> In n (rhs_names (rrhs r)) -> known_in g tokens n = false ->
  check_grammar tbl tokens g <> None.
Proof.
  intros tbl tokens g r n Hok Hr Hn Hk H. apply (check_grammar_accepts tbl tokens g Hok) in H.
  destruct H as (_ & _ & H). destruct (H r Hr) as [Hg _]. specialize (Hg n Hn). congruence.
Qed.
Print Assumptions C13_dangling_refused.

(* ... and so is an underscore item name at any position. *)
Theorem C13_underscore_var_refused : forall tbl tokens g r x, fields_ok tbl ->
  In r (rules g) -> In x (rhs_vars (rrhs r)) -> bad_var x = true ->
  check_grammar tbl tokens g <> None.
Proof.
  intros tbl tokens g r x Hok Hr Hx Hb H. apply (check_grammar_accepts tbl tokens g Hok) in H.
  destruct H as (_ & _ & H). destruct (H r Hr) as [_ Hg]. specialize (Hg x Hx). congruence.
Qed.
Print Assumptions C13_underscore_var_refused.

(* The second half, "accepted grammars never crash the parser" for references: if every call of the
   generated module names one of its methods or a runtime primitive and every expect() argument is
   a quoted literal ([refs_ok]: decidable, evaluated each run on the module the generator model
   produces for every explored accepted grammar), then NO run -- any input, configuration, fuel,
   state, entry rule -- ends in AttributeError for a missing method. *)
Theorem C13_every_reference_resolves :
  forall K toks verbose use_cache M aeval exact_types token_dict,
  refs_ok K M = true ->
  forall fuel n st, find_meth M n <> None ->
  match fst (run K toks verbose use_cache M aeval exact_types token_dict fuel n st) with
  | Raise (XAttributeError _) => False
  | _ => True
  end.
Proof.
  intros K toks verbose use_cache M aeval ex td H fuel n st Hn.
  exact (references_resolve K toks verbose use_cache M aeval ex td H fuel n Hn st).
Qed.
Print Assumptions C13_every_reference_resolves.

(* decidable form of the side condition, evaluated on the extracted table on every run *)
Theorem C13_fields_ok_decidable : forall tbl, fields_ok_b tbl = true -> fields_ok tbl.
Proof. exact fields_ok_b_spec. Qed.
Print Assumptions C13_fields_ok_decidable.

(* Non-vacuity / sensitivity: with the separator missing from Gather's table entry (the defect
   that was repaired in commit c4b7e36) a dangling separator is accepted. *)
Definition good_tbl : list (string * list string) :=
  [("Rule", ["rhs"]); ("Rhs", ["alts"]); ("Alt", ["items"]); ("NamedItem", ["item"]); ("NameLeaf", []);
   ("StringLeaf", []); ("Group", ["rhs"]); ("Opt", ["node"]); ("Repeat0", ["node"]); ("Repeat1", ["node"]);
   ("Gather", ["separator"; "node"]); ("PositiveLookahead", ["node"]); ("NegativeLookahead", ["node"]);
   ("Forced", ["node"]); ("Cut", [])].
Definition old_tbl := map (fun kv => if String.eqb (fst kv) "Gather" then ("Gather", ["node"]) else kv) good_tbl.
Definition g_sep : grammar :=
  {| rules := [{| rname := "start"; rtype := None; rmemo := false;
                  rrhs := Rhs 1 [Alt [NItem 2 None None (Gather 3 (NameLeaf "foo") (NameLeaf "NAME"))] None] |}];
     metas := [] |}.
Example C13_demo : fields_ok_b good_tbl = true /\ check_grammar good_tbl ["NAME"] g_sep = Some (Dangling "foo")
                   /\ fields_ok_b old_tbl = false /\ check_grammar old_tbl ["NAME"] g_sep = None.
Proof. vm_compute. repeat split; reflexivity. Qed.
Print Assumptions C13_demo.

(* ... and that side condition is a THEOREM about the generator: for EVERY grammar whose leaf names are
   rules of the grammar or token kinds the call maker knows (NAME, NUMBER, STRING, OP, TYPE_COMMENT,
   the three FSTRING kinds, SOFT_KEYWORD, NEWLINE, INDENT, DEDENT, ENDMARKER, ASYNC, AWAIT) and whose
   string literals carry their quotes, whatever the analysis results and tables, everything the
   generator model emits satisfies [refs_ok]: each self.n() names a rule of the grammar, a helper
   rule the generator queued (_tmp_/_loop/_gather, which it then emits: the work list is processed
   to the end) or a runtime primitive.  Hence no parser generated from such a grammar can end in
   AttributeError for a missing method, on any input.  (Token names outside that list -- the
   recorded finding `start: LPAR NEWLINE` -- are exactly what the hypothesis excludes.) *)
From Pegen Require Import Grammar.Ast Analysis.Nullable Proofs.GenRefs.
Theorem C13_generated_modules_resolve_every_reference :
  forall K invalid_tbl iter_fields pre suf file fb g an M,
  grammar_names_ok g = true ->
  generate invalid_tbl iter_fields pre suf file fb g an = inl M ->
  refs_ok K M = true /\
  forall toks verbose use_cache aeval exact_types token_dict fuel n st, find_meth M n <> None ->
  match fst (run K toks verbose use_cache M aeval exact_types token_dict fuel n st) with
  | Raise (XAttributeError _) => False
  | _ => True
  end.
Proof.
  intros K tbl itf pre suf file fb g an M Hg HM.
  pose proof (generated_refs_ok K tbl itf pre suf file fb g an M Hg HM) as Hr. split; [exact Hr|].
  intros toks verbose use_cache aeval ex td fuel n st Hn.
  exact (references_resolve K toks verbose use_cache M aeval ex td Hr fuel n Hn st).
Qed.
Print Assumptions C13_generated_modules_resolve_every_reference.

(* non-vacuity: a grammar with a gather over a group, an optional, a repetition and a forced literal (five helper
   rules are queued) meets the hypothesis and is generated.   start: ','.(a | NUMBER)+ [b] &&'end' NEWLINE ; a: NAME ; b: 'x'* *)
Definition g13 : grammar :=
  {| rules :=
       [{| rname := "start"; rtype := None; rmemo := false;
           rrhs := Rhs 1 [Alt [NItem 2 None None (Gather 3 (StringLeaf "','")
                                   (Group (Rhs 4 [Alt [NItem 5 None None (NameLeaf "a")] None; Alt [NItem 6 None None (NameLeaf "NUMBER")] None])));
                                NItem 7 None None (Opt (NameLeaf "b"));
                                NItem 8 None None (Forced (StringLeaf "'end'"));
                                NItem 9 None None (NameLeaf "NEWLINE")] None] |};
        {| rname := "a"; rtype := None; rmemo := false; rrhs := Rhs 10 [Alt [NItem 11 None None (NameLeaf "NAME")] None] |};
        {| rname := "b"; rtype := None; rmemo := false; rrhs := Rhs 12 [Alt [NItem 13 None None (Repeat0 14 (StringLeaf "'x'"))] None] |}];
     metas := [] |}.
Definition an13 : analysis := {| a_nullable := ["b"]; a_item_nullable := [7%N; 13%N]; a_graph := []; a_left_rec := []; a_leaders := [] |}.
Example C13_generated_example :
  grammar_names_ok g13 = true /\
  match generate [] [] "" "" "g" 100 g13 an13 with
  | inl M => map m_name (i_meths M) = ["start"; "a"; "b"; "_loop0_2"; "_gather_1"; "_loop0_3"; "_tmp_4"]
  | inr _ => False
  end.
Proof. vm_compute. split; reflexivity. Qed.
Print Assumptions C13_generated_example.

(* END TO END.  A grammar the up-front check accepts -- when the token kinds it is given are all kinds the call maker
   knows (an instance lemma re-proved on every run for the token set of the real generator, which since fix [see DESIGN]
   is restricted to the kinds a generated parser can match) and the literals carry their quotes -- yields, through the
   generator model, a module none of whose runs ends in AttributeError for a missing method: any input, any entry rule,
   any configuration.  (RuleCheckProofs: acceptance = every leaf is a rule or a token; GenRefs: then every emitted call
   resolves; ExecRefs: then no run raises AttributeError.) *)
From Pegen Require Import Proofs.GenAccepted.
Theorem C13_accepted_grammars_resolve :
  forall K toks verbose use_cache aeval exact_types token_dict tbl tokens invalid_tbl iter_fields pre suf file fb g an M,
  fields_ok tbl -> forallb is_tok tokens = true -> strs_rules g = true ->
  check_grammar tbl tokens g = None ->
  generate invalid_tbl iter_fields pre suf file fb g an = inl M ->
  forall fuel n st, find_meth M n <> None ->
  match fst (run K toks verbose use_cache M aeval exact_types token_dict fuel n st) with
  | Raise (XAttributeError _) => False
  | _ => True
  end.
Proof. exact accepted_grammars_resolve. Qed.
Print Assumptions C13_accepted_grammars_resolve.
