(* C13 — ill-formed grammars are refused up front (reference / name checks). *)
From Coq Require Import List String NArith Bool.
From Pegen Require Import Base.StrUtil Grammar.Ast Analysis.Visitor Analysis.RuleCheck Proofs.RuleCheckProofs
  Base.Values Runtime.Tokenizer Sem.Peg Gen.Gen Runtime.Exec Proofs.ExecRefs.
Import ListNotations.
Open Scope string_scope.

(* With the __iter__ table extracted from grammar.py satisfying [fields_ok] (re-checked on every
   run for the current source), the up-front check accepts a grammar exactly when: no rule name
   starts with an underscore; it has a trailer or a start rule; and EVERY name referenced anywhere
   in any rule (any nesting depth: groups, optionals, repetitions, gather element and separator,
   lookahead operands, forced items) is a rule or a known token, and no item name starts with an
   underscore. *)
Theorem C13_accept_iff_wellformed : forall tbl tokens g, fields_ok tbl ->
  (check_grammar tbl tokens g = None <->
   (forall r, In r (rules g) -> startswith "_" (rname r) = false) /\
   (has_meta g "trailer" = true \/ has_rule g "start" = true) /\
   (forall r, In r (rules g) ->
      good_names (known_in g tokens) (rhs_names (rrhs r)) /\ good_vars (rhs_vars (rrhs r)))).
Proof. exact check_grammar_accepts. Qed.
Print Assumptions C13_accept_iff_wellformed.

(* In particular a dangling reference at any position is refused ... *)
Theorem C13_dangling_refused : forall tbl tokens g r n, fields_ok tbl ->
  In r (rules g) -> In n (rhs_names (rrhs r)) -> known_in g tokens n = false ->
  check_grammar tbl tokens g <> None.
Proof.
  intros tbl tokens g r n Hok Hr Hn Hk H. apply (check_grammar_accepts tbl tokens g Hok) in H.
  destruct H as (_ & _ & H). destruct (H r Hr) as [Hg _]. specialize (Hg n Hn). congruence.
Qed.
Print Assumptions C13_dangling_refused.

(* ... and so is an underscore item name at any position. *)
Theorem C13_underscore_var_refused : forall tbl tokens g r x, fields_ok tbl ->
  In r (rules g) -> In x (rhs_vars (rrhs r)) -> bad_var x = true ->
  check_grammar tbl tokens g <> None.
Proof.
  intros tbl tokens g r x Hok Hr Hx Hb H. apply (check_grammar_accepts tbl tokens g Hok) in H.
  destruct H as (_ & _ & H). destruct (H r Hr) as [_ Hg]. specialize (Hg x Hx). congruence.
Qed.
Print Assumptions C13_underscore_var_refused.

(* The second half, "accepted grammars never crash the parser" for references: if every call of the
   generated module names one of its methods or a runtime primitive and every expect() argument is
   a quoted literal ([refs_ok]: decidable, evaluated each run on the module the generator model
   produces for every explored accepted grammar), then NO run -- any input, configuration, fuel,
   state, entry rule -- ends in AttributeError for a missing method. *)
Theorem C13_every_reference_resolves :
  forall K toks verbose use_cache M aeval exact_types token_dict,
  refs_ok K M = true ->
  forall fuel n st, find_meth M n <> None ->
  match fst (run K toks verbose use_cache M aeval exact_types token_dict fuel n st) with
  | Raise (XAttributeError _) => False
  | _ => True
  end.
Proof.
  intros K toks verbose use_cache M aeval ex td H fuel n st Hn.
  exact (references_resolve K toks verbose use_cache M aeval ex td H fuel n Hn st).
Qed.
Print Assumptions C13_every_reference_resolves.

(* decidable form of the side condition, evaluated on the extracted table on every run *)
Theorem C13_fields_ok_decidable : forall tbl, fields_ok_b tbl = true -> fields_ok tbl.
Proof. exact fields_ok_b_spec. Qed.
Print Assumptions C13_fields_ok_decidable.

(* Non-vacuity / sensitivity: with the separator missing from Gather's table entry (the defect
   that was repaired in commit c4b7e36) a dangling separator is accepted. *)
Definition good_tbl : list (string * list string) :=
  [("Rule", ["rhs"]); ("Rhs", ["alts"]); ("Alt", ["items"]); ("NamedItem", ["item"]); ("NameLeaf", []);
   ("StringLeaf", []); ("Group", ["rhs"]); ("Opt", ["node"]); ("Repeat0", ["node"]); ("Repeat1", ["node"]);
   ("Gather", ["separator"; "node"]); ("PositiveLookahead", ["node"]); ("NegativeLookahead", ["node"]);
   ("Forced", ["node"]); ("Cut", [])].
Definition old_tbl := map (fun kv => if String.eqb (fst kv) "Gather" then ("Gather", ["node"]) else kv) good_tbl.
Definition g_sep : grammar :=
  {| rules := [{| rname := "start"; rtype := None; rmemo := false;
                  rrhs := Rhs 1 [Alt [NItem 2 None None (Gather 3 (NameLeaf "foo") (NameLeaf "NAME"))] None] |}];
     metas := [] |}.
Example C13_demo : fields_ok_b good_tbl = true /\ check_grammar good_tbl ["NAME"] g_sep = Some (Dangling "foo")
                   /\ fields_ok_b old_tbl = false /\ check_grammar old_tbl ["NAME"] g_sep = None.
Proof. vm_compute. repeat split; reflexivity. Qed.
Print Assumptions C13_demo.
