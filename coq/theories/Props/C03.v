(* C03 — grammar analysis is complete and independent of rule order. *)
From Coq Require Import List String NArith Bool Permutation Arith.
From Pegen Require Import Base.StrUtil Grammar.Ast Analysis.Visitor Analysis.Nullable Proofs.VisitorSim
  Proofs.NullableProofs.
Import ListNotations.
Open Scope string_scope.

(* For every method table extracted from NullableVisitor that is monotone (re-checked on every
   run for the current source), every grammar and every rule order: the set of rules flagged
   nullable by the model of compute_nullables (depth-first passes with a visited set, repeated
   until no flag changes) is the LEAST set closed under the nullability equations read off the
   table. *)
Theorem C03_nullable_is_least_fixed_point : forall methods iter_fields rs st,
  monotone_tbl methods = true -> NoDup (map rname rs) -> ids_consistent rs ->
  compute_nullables methods iter_fields rs = Some st ->
  prefixed methods rs (flags_of st) /\
  (forall G, prefixed methods rs G -> forall x, flags_of st x = true -> G x = true).
Proof. exact nullable_least. Qed.
Print Assumptions C03_nullable_is_least_fixed_point.

(* Hence the flags do not depend on the order in which the rules are written. *)
Theorem C03_nullable_order_independent : forall methods iter_fields rs rs' st st',
  monotone_tbl methods = true -> NoDup (map rname rs) -> Permutation rs rs' -> ids_consistent rs ->
  compute_nullables methods iter_fields rs = Some st ->
  compute_nullables methods iter_fields rs' = Some st' ->
  forall x, flags_of st x = flags_of st' x.
Proof. exact nullable_order_independent. Qed.
Print Assumptions C03_nullable_order_independent.

(* Non-vacuity with the table as extracted from the repaired source: the nullable helper rule is
   recognised whether it is written before or after its user, and `a` is left-recursive. *)
Definition tbl : list (string * bexp) :=
  [("visit_Rule", BSpecial "visit_Rule"); ("visit_Rhs", BAnyEager "alts"); ("visit_Alt", BAllEager "items");
   ("visit_Forced", BSeq (BVisit "node") (BConst true)); ("visit_PositiveLookahead", BSeq (BVisit "node") (BConst true));
   ("visit_NegativeLookahead", BSeq (BVisit "node") (BConst true)); ("visit_Opt", BSeq (BVisit "node") (BConst true));
   ("visit_Repeat0", BSeq (BVisit "node") (BConst true)); ("visit_Repeat1", BVisit "node");
   ("visit_Gather", BSeq (BVisit "separator") (BVisit "node")); ("visit_Cut", BConst true);
   ("visit_Group", BVisit "rhs"); ("visit_NamedItem", BSpecial "visit_NamedItem");
   ("visit_NameLeaf", BSpecial "visit_NameLeaf"); ("visit_StringLeaf", BNotField "value")].
Definition itf : list (string * list string) :=
  [("Rule", ["rhs"]); ("Rhs", ["alts"]); ("Alt", ["items"]); ("NamedItem", ["item"]); ("NameLeaf", []);
   ("StringLeaf", []); ("Group", ["rhs"]); ("Opt", ["node"]); ("Repeat0", ["node"]); ("Repeat1", ["node"]);
   ("Gather", ["separator"; "node"]); ("PositiveLookahead", ["node"]); ("NegativeLookahead", ["node"]);
   ("Forced", ["node"]); ("Cut", [])].
Definition r_opt := {| rname := "opt"; rtype := None; rmemo := false;
  rrhs := Rhs 1 [Alt [NItem 2 None None (Opt (StringLeaf "'x'")); NItem 3 None None (Opt (StringLeaf "'w'"))] None] |}.
Definition r_a := {| rname := "a"; rtype := None; rmemo := false;
  rrhs := Rhs 4 [Alt [NItem 5 None None (NameLeaf "opt"); NItem 6 None None (NameLeaf "a"); NItem 7 None None (StringLeaf "'y'")] None;
                 Alt [NItem 8 None None (StringLeaf "'z'")] None] |}.
Definition lr_of (rs : list rule) := match analyse tbl itf rs with AOk a => Some (a_nullable a, a_left_rec a) | _ => None end.
Example C03_demo : monotone_tbl tbl = true /\ wf_tbl tbl itf = true /\
  lr_of [r_opt; r_a] = Some (["opt"], ["a"]) /\ lr_of [r_a; r_opt] = Some (["opt"], ["a"]).
Proof. vm_compute. repeat split; reflexivity. Qed.
Print Assumptions C03_demo.

(* "No accepted well-formed grammar makes its parser recurse without bound", at the level of the reference
   semantics (Sem/Peg.v) and for ALL grammars, token lists and interpretations of actions.  Given
   - a set of nullable flags closed under the nullability equations of the extracted table (the set the
     analysis computes is the least such set, theorem above),
   - a rank of the rules that strictly decreases along every INITIAL INVOCATION -- a reference to a rule in a
     position that can be reached without consuming a token: after items that can match nothing, inside
     groups, optionals, repetitions, forced items, a gather's element (and its separator when the element can
     match nothing) and inside LOOKAHEAD OPERANDS -- i.e. no rule reaches itself at the same position,
   - every name is a rule or a token kind and no repetition repeats something that can match nothing,
   every rule has a result (a value and an end position, a failure, or an error) at every position: the
   big-step relation has no infinite derivation.  The three conditions are a decidable checker
   ([term_verdict] = 0) evaluated by the C03 check on every explored grammar that the real analysis finds free of
   left recursion, with the REAL nullable flags and a rank computed from the REAL first graph: an initial
   invocation the real graph misses makes the rank check fail (verdict 2).  Proving this is how the missing
   lookahead-operand edges of grammar.py were found (`a: &a 'x' | 'y'` recursed without bound). *)
From Pegen Require Import Base.Values Runtime.Tokenizer Sem.Peg Proofs.NullSem Proofs.PegTotal.
Theorem C03_no_cycle_at_one_position_means_every_parse_terminates :
  forall methods K rs keywords soft_keywords nullable_rules ranks,
  nul_tbl_ok methods = true ->
  term_verdict methods K rs keywords soft_keywords nullable_rules ranks = 0 ->
  forall toks aeval item_name forced_msg n r p, find_rule rs n = Some r ->
  exists res, peg_item K rs toks keywords soft_keywords aeval item_name forced_msg (NameLeaf n) p res.
Proof. exact checked_total. Qed.
Print Assumptions C03_no_cycle_at_one_position_means_every_parse_terminates.

(* Non-vacuity: a grammar with a lookahead over a rule, a nullable prefix, a loop and a gather meets the conditions;
   a rule that looks ahead for itself meets them for NO rank. *)
Definition K03 : kinds := {| kNAME := 1; kNUMBER := 2; kSTRING := 3; kOP := 55; kNEWLINE := 4; kINDENT := 5; kDEDENT := 6;
  kENDMARKER := 0; kTYPE_COMMENT := 59; kFSTRING_START := 61; kFSTRING_MIDDLE := 62; kFSTRING_END := 63; kASYNC := 57; kAWAIT := 56 |}.
Definition ni (k : N) (i : item) := NItem k None None i.
Definition mkr (n : string) (id : N) (alts : list alt) := {| rname := n; rtype := None; rmemo := false; rrhs := Rhs id alts |}.
(* start: a NEWLINE ;  a: &b 'x' | opt ('w' a)* ','.b+ ;  b: 'q'? NAME ;  opt: 'o'? *)
Definition g_term : list rule :=
  [mkr "start" 1 [Alt [ni 2 (NameLeaf "a"); ni 3 (NameLeaf "NEWLINE")] None];
   mkr "a" 4 [Alt [ni 5 (PosLook (NameLeaf "b")); ni 6 (StringLeaf "'x'")] None;
              Alt [ni 7 (NameLeaf "opt");
                   ni 8 (Repeat0 9 (Group (Rhs 10 [Alt [ni 11 (StringLeaf "'w'"); ni 12 (NameLeaf "a")] None])));
                   ni 13 (Gather 14 (StringLeaf "','") (NameLeaf "b"))] None];
   mkr "b" 15 [Alt [ni 16 (Opt (StringLeaf "'q'")); ni 17 (NameLeaf "NAME")] None];
   mkr "opt" 18 [Alt [ni 19 (Opt (StringLeaf "'o'"))] None]].
Definition g_self : list rule :=
  [mkr "a" 1 [Alt [ni 2 (PosLook (NameLeaf "a")); ni 3 (StringLeaf "'x'")] None; Alt [ni 4 (StringLeaf "'y'")] None]].
Example C03_termination_example :
  nul_tbl_ok tbl = true /\
  term_verdict tbl K03 g_term [] [] ["opt"] [("start", 3); ("a", 2); ("b", 1); ("opt", 0)] = 0 /\
  (* forgetting that `a` starts with `b` (through the lookahead) or with `opt` is noticed *)
  term_verdict tbl K03 g_term [] [] ["opt"] [("start", 3); ("a", 1); ("b", 1); ("opt", 0)] = 2 /\
  term_verdict tbl K03 g_term [] [] [] [("start", 3); ("a", 2); ("b", 1); ("opt", 0)] = 1 /\
  (forall ranks, term_verdict tbl K03 g_self [] [] [] ranks = 2).
Proof.
  split; [vm_compute; reflexivity|]. split; [vm_compute; reflexivity|]. split; [vm_compute; reflexivity|].
  split; [vm_compute; reflexivity|].
  intros ranks. unfold term_verdict.
  replace (prefixed_b tbl g_self []) with true by (vm_compute; reflexivity).
  replace (ranks_b tbl g_self [] ranks) with false; [reflexivity|].
  unfold ranks_b. cbn. change (match rank_of ranks "a" with 0 => false | S m' => Nat.leb (rank_of ranks "a") m' end) with (Nat.ltb (rank_of ranks "a") (rank_of ranks "a")).
  rewrite Nat.ltb_irrefl. reflexivity.
Qed.
Print Assumptions C03_termination_example.

(* The per-item flags and the first graph.  For every monotone table whose methods visit all the children of their class
   ([visit_all_ok]: decidable, re-proved for the extracted table on every run), every grammar and every rule order:
   after the analysis a NamedItem of the grammar is flagged nullable EXACTLY when the pure reading of the table, with the
   final (least) rule flags, says so -- the flag is not an artefact of the moment at which the item happened to be
   visited.  (Upper bound: invariant of all passes; lower bound: the last pass visits every rule, the table-driven
   visitor reaches every NamedItem inside it, Proofs/VisitAll.v, and computes at least the pure value there.) *)
From Pegen Require Import Proofs.VisitAll Proofs.NullableItems.
Theorem C03_item_flags_are_exact : forall methods iter_fields rs st,
  monotone_tbl methods = true -> NoDup (map rname rs) -> visit_all_ok methods iter_fields = true -> ids_consistent rs ->
  compute_nullables methods iter_fields rs = Some st ->
  forall r n, In r rs -> In n (inside_rhs (rrhs r)) ->
  memN (ni_id n) (n_items st) = pvi methods rs (flags_of st) (ni_item n).
Proof. intros m itf rs st Hm Hn Hv Hi Hc. exact (item_flags_exact m itf rs Hm Hn Hv st Hi Hc). Qed.
Print Assumptions C03_item_flags_are_exact.

(* Hence every row of the first graph -- the rules a rule may invoke at its initial position, which decide what is
   left-recursive -- is the same whatever the order in which the rules are written. *)
Theorem C03_first_graph_order_independent : forall methods iter_fields rs rs' st st',
  monotone_tbl methods = true -> visit_all_ok methods iter_fields = true ->
  NoDup (map rname rs) -> Permutation rs rs' -> ids_consistent rs ->
  compute_nullables methods iter_fields rs = Some st ->
  compute_nullables methods iter_fields rs' = Some st' ->
  forall r, In r rs ->
  in_rhs (fun k => memN k (n_items st)) (rrhs r) = in_rhs (fun k => memN k (n_items st')) (rrhs r).
Proof. intros m itf rs rs' st st' Hm Hv. exact (first_graph_order_independent m itf Hm Hv rs rs' st st'). Qed.
Print Assumptions C03_first_graph_order_independent.

Example C03_table_visits_everything : visit_all_ok tbl itf = true.
Proof. vm_compute. reflexivity. Qed.
Print Assumptions C03_table_visits_everything.
