(* C03 — grammar analysis is complete and independent of rule order. *)
From Coq Require Import List String NArith Bool Permutation.
From Pegen Require Import Base.StrUtil Grammar.Ast Analysis.Visitor Analysis.Nullable Proofs.VisitorSim
  Proofs.NullableProofs.
Import ListNotations.
Open Scope string_scope.

(* For every method table extracted from NullableVisitor that is monotone (re-checked on every
   run for the current source), every grammar and every rule order: the set of rules flagged
   nullable by the model of compute_nullables (depth-first passes with a visited set, repeated
   until no flag changes) is the LEAST set closed under the nullability equations read off the
   table. *)
Theorem C03_nullable_is_least_fixed_point : forall methods iter_fields rs st,
  monotone_tbl methods = true -> NoDup (map rname rs) -> ids_consistent rs ->
  compute_nullables methods iter_fields rs = Some st ->
  prefixed methods rs (flags_of st) /\
  (forall G, prefixed methods rs G -> forall x, flags_of st x = true -> G x = true).
Proof. exact nullable_least. Qed.
Print Assumptions C03_nullable_is_least_fixed_point.

(* Hence the flags do not depend on the order in which the rules are written. *)
Theorem C03_nullable_order_independent : forall methods iter_fields rs rs' st st',
  monotone_tbl methods = true -> NoDup (map rname rs) -> Permutation rs rs' -> ids_consistent rs ->
  compute_nullables methods iter_fields rs = Some st ->
  compute_nullables methods iter_fields rs' = Some st' ->
  forall x, flags_of st x = flags_of st' x.
Proof. exact nullable_order_independent. Qed.
Print Assumptions C03_nullable_order_independent.

(* Non-vacuity with the table as extracted from the repaired source: the nullable helper rule is
   recognised whether it is written before or after its user, and `a` is left-recursive. *)
Definition tbl : list (string * bexp) :=
  [("visit_Rule", BSpecial "visit_Rule"); ("visit_Rhs", BAnyEager "alts"); ("visit_Alt", BAllEager "items");
   ("visit_Forced", BSeq (BVisit "node") (BConst true)); ("visit_PositiveLookahead", BSeq (BVisit "node") (BConst true));
   ("visit_NegativeLookahead", BSeq (BVisit "node") (BConst true)); ("visit_Opt", BSeq (BVisit "node") (BConst true));
   ("visit_Repeat0", BSeq (BVisit "node") (BConst true)); ("visit_Repeat1", BVisit "node");
   ("visit_Gather", BSeq (BVisit "separator") (BVisit "node")); ("visit_Cut", BConst true);
   ("visit_Group", BVisit "rhs"); ("visit_NamedItem", BSpecial "visit_NamedItem");
   ("visit_NameLeaf", BSpecial "visit_NameLeaf"); ("visit_StringLeaf", BNotField "value")].
Definition itf : list (string * list string) :=
  [("Rule", ["rhs"]); ("Rhs", ["alts"]); ("Alt", ["items"]); ("NamedItem", ["item"]); ("NameLeaf", []);
   ("StringLeaf", []); ("Group", ["rhs"]); ("Opt", ["node"]); ("Repeat0", ["node"]); ("Repeat1", ["node"]);
   ("Gather", ["separator"; "node"]); ("PositiveLookahead", ["node"]); ("NegativeLookahead", ["node"]);
   ("Forced", ["node"]); ("Cut", [])].
Definition r_opt := {| rname := "opt"; rtype := None; rmemo := false;
  rrhs := Rhs 1 [Alt [NItem 2 None None (Opt (StringLeaf "'x'")); NItem 3 None None (Opt (StringLeaf "'w'"))] None] |}.
Definition r_a := {| rname := "a"; rtype := None; rmemo := false;
  rrhs := Rhs 4 [Alt [NItem 5 None None (NameLeaf "opt"); NItem 6 None None (NameLeaf "a"); NItem 7 None None (StringLeaf "'y'")] None;
                 Alt [NItem 8 None None (StringLeaf "'z'")] None] |}.
Definition lr_of (rs : list rule) := match analyse tbl itf rs with AOk a => Some (a_nullable a, a_left_rec a) | _ => None end.
Example C03_demo : monotone_tbl tbl = true /\ wf_tbl tbl itf = true /\
  lr_of [r_opt; r_a] = Some (["opt"], ["a"]) /\ lr_of [r_a; r_opt] = Some (["opt"], ["a"]).
Proof. vm_compute. repeat split; reflexivity. Qed.
Print Assumptions C03_demo.
