(* C15 — position information spans exactly the matched tokens. *)
From Coq Require Import List String NArith ZArith Bool Arith Lia.
From Pegen Require Import Base.StrUtil Base.Values Runtime.Tokenizer Sem.Peg Gen.Gen Runtime.Exec Proofs.LocProofs Proofs.LocRun.
Import ListNotations.
Open Scope string_scope.

(* START: a method whose alternatives use LOCATIONS takes its start position from the token at
   the position where it was entered (before any alternative runs), for every module and state. *)
Theorem C15_start_is_first_token : forall toks st,
  fst (peek toks st) = nth_error toks (pos st).
Proof. intros toks st. unfold peek. destruct (nth_error toks (pos st)); reflexivity. Qed.
Print Assumptions C15_start_is_first_token.

(* END: whatever backtracking, lookahead or cache reuse happened before (the fetched array may
   extend far beyond the cursor), the token used for the end position of an alternative that
   ends at cursor e is the LAST token before e that is not NEWLINE / INDENT / DEDENT / ENDMARKER
   -- for every token list and every such position. *)
Theorem C15_end_is_last_non_layout_token : forall K toks st j t,
  j < pos st -> pos st <= List.length toks -> nth_error toks j = Some t ->
  is_ws (tok_consts K) t = false ->
  (forall k x, j < k < pos st -> nth_error toks k = Some x -> is_ws (tok_consts K) x = true) ->
  last_tok K toks st = Some t.
Proof. intros K toks st j t. unfold last_tok. apply end_token_spec. Qed.
Print Assumptions C15_end_is_last_non_layout_token.

(* Non-vacuity: after a lookahead fetched two more tokens, the end token of `NAME '+'` consumed up
   to cursor 2 is still the '+'. *)
Definition KD : kinds := {| kNAME := 1; kNUMBER := 2; kSTRING := 3; kOP := 55; kNEWLINE := 4; kINDENT := 5; kDEDENT := 6;
  kENDMARKER := 0; kTYPE_COMMENT := 59; kFSTRING_START := 61; kFSTRING_MIDDLE := 62; kFSTRING_END := 63; kASYNC := 57; kAWAIT := 56 |}.
Definition tk (k : N) (s : string) (c : nat) : rtok := {| ty := k; tstr := s; sline := 1; scol := c; eline := 1; ecol := c + 1; tline := ""; tspace := false |}.
Example C15_demo :
  last_tok KD [tk 1 "a" 0; tk 55 "+" 2; tk 2 "1" 4; tk 4 "" 5]
           {| pos := 2; fetched := 4; cache := []; invalid := false; events := [] |} = Some (tk 55 "+" 2).
Proof. vm_compute. reflexivity. Qed.
Print Assumptions C15_demo.

(* INTERPRETER LEVEL (fifth session, Proofs/LocRun.v).  For EVERY IR module, every behaviour of the
   methods it calls ([rec] is arbitrary: cache replays, seed growing, tracing, error mode, anything),
   every state the method is entered in -- i.e. every history of backtracking, lookahead and cache
   reuse, however far the fetched array extends -- and every fuel: when a method that captures the
   start position returns a truthy value v, then v is what the action of one of its alternatives
   [a] produced, evaluated in an environment in which
     - start_lineno / start_col_offset are those of the token at the position the method was
       entered at (t0), and
     - if the alternative uses LOCATIONS and the matched range [pos st, pos st2) holds at least one
       token that is not NEWLINE / INDENT / DEDENT / ENDMARKER: end_lineno / end_col_offset are those
       of the LAST such token of the range (index j: inside the range, everything after it up to
       the end of the match is layout) -- never a token from before the match, never one that a
       failed earlier attempt or a lookahead fetched beyond it.
   [matched_by] also records that the conjunction of [a] ran from the entry position to the final
   position of the method. *)
Theorem C15_action_receives_the_span_of_the_match :
  forall K toks verbose use_cache M aeval exact_types token_dict rec fuel m st v st2,
  m_loop m = false -> m_locations m = true ->
  run_body K toks verbose use_cache M aeval exact_types token_dict rec fuel m st = (Ok v, st2) ->
  truthy v = true ->
  (exists j x, pos st <= j < pos st2 /\ nth_error toks j = Some x /\ is_ws (tok_consts K) x = false) ->
  exists t0 a st' j tend,
    nth_error toks (pos st) = Some t0 /\ In a (m_alts m) /\ pos st2 = pos st' /\
    matched_by K toks verbose use_cache M aeval exact_types token_dict rec (pos st) (Some t0) a v st' /\
    pos st <= j < pos st2 /\ nth_error toks j = Some tend /\ is_ws (tok_consts K) tend = false /\
    (forall k x, j < k < pos st2 -> nth_error toks k = Some x -> is_ws (tok_consts K) x = true) /\
    forall e,
      env_get (act_env K toks a (Some t0) st' e) "start_lineno" = Some (VInt (Z.of_nat (sline t0))) /\
      env_get (act_env K toks a (Some t0) st' e) "start_col_offset" = Some (VInt (Z.of_nat (scol t0))) /\
      (a_locations a = true ->
       env_get (act_env K toks a (Some t0) st' e) "end_lineno" = Some (VInt (Z.of_nat (eline tend))) /\
       env_get (act_env K toks a (Some t0) st' e) "end_col_offset" = Some (VInt (Z.of_nat (ecol tend)))).
Proof.
  intros K toks verbose use_cache M aeval ex td rec fuel m st v st2 Hl Hloc H Hv Hex.
  destruct (run_body_action K toks verbose use_cache M aeval ex td rec fuel m st v st2 Hl Hloc H Hv)
    as (t0 & a & st' & Ht0 & Hin & Hm & Hq).
  destruct (last_in_range (tok_consts K) toks (pos st) (pos st2) Hex) as (j & tend & Hr & Hn & Hw & Hk & Hlast).
  exists t0, a, st', j, tend. repeat split; try assumption; try lia.
  - apply act_env_start.
  - apply act_env_start.
  - apply (act_env_end K toks a t0 st' e tend H0). unfold last_tok. rewrite <- Hq. exact Hlast.
  - apply (act_env_end K toks a t0 st' e tend H0). unfold last_tok. rewrite <- Hq. exact Hlast.
Qed.
Print Assumptions C15_action_receives_the_span_of_the_match.

(* Non-vacuity: a method `s: n=NAME l='+' { LOCATIONS }` entered at 0 in a state in which earlier attempts have
   fetched all four tokens of `a + 1 NEWLINE`: it returns the action's value, the matched range [0,2) holds
   non-layout tokens, and the action saw start (1,0) and end (1,3) = the end of '+'. *)
Definition demo_alt : ialt :=
  {| a_has_cut := false; a_guard := false;
     a_conjs := [ {| cj_var := Some "n"; cj_call := CMeth "name"; cj_notnone := false |};
                  {| cj_var := Some "l"; cj_call := CExpect "'+'"; cj_notnone := false |} ];
     a_locations := true; a_action := "LOC"; a_names := ["n"; "l"]; a_explicit := true; a_unreachable := false |}.
Definition demo_meth : meth :=
  {| m_name := "s"; m_deco := DMemo; m_type := ""; m_comment := ""; m_nullable := false; m_without_invalid := false;
     m_locations := true; m_loop := false; m_gather := false; m_alts := [demo_alt] |}.
Definition demo_mod : ir_module :=
  {| i_header := None; i_subheader := ""; i_class := "P"; i_meths := [demo_meth]; i_keywords := []; i_soft_keywords := [];
     i_trailer := None |}.
Definition demo_aeval (_ : string) (e : env) : option value :=
  match env_get e "start_lineno", env_get e "start_col_offset", env_get e "end_lineno", env_get e "end_col_offset" with
  | Some a, Some b, Some c, Some d => Some (VTuple [a; b; c; d])
  | _, _, _, _ => None
  end.
Definition demo_toks := [tk 1 "a" 0; tk 55 "+" 2; tk 2 "1" 4; tk 4 "" 5].
Definition demo_st := {| pos := 0; fetched := 4; cache := []; invalid := false; events := [] |}.
Example C15_action_demo :
  let r := run_body KD demo_toks false true demo_mod demo_aeval [] [] (fun _ st => (Ok VNone, st)) 3 demo_meth demo_st in
  fst r = Ok (VTuple [VInt 1; VInt 0; VInt 1; VInt 3]) /\ pos (snd r) = 2 /\
  m_loop demo_meth = false /\ m_locations demo_meth = true /\
  (exists j x, pos demo_st <= j < 2 /\ nth_error demo_toks j = Some x /\ is_ws (tok_consts KD) x = false).
Proof. vm_compute. repeat split. exists 0, (tk 1 "a" 0). repeat split; auto. Qed.
Print Assumptions C15_action_demo.

(* ... and the two hypotheses on the method are a THEOREM about the generator (Proofs/GenWf.v, [generated_loc_ok]): in the
   module generated from EVERY grammar in which forced items stand directly among the items of an alternative, no
   repetition or gather is applied directly to a cut and no rule name starts with an underscore (the class of C05's
   generator theorem), whatever the analysis results and tables, every method with an alternative that asks for
   LOCATIONS has [m_locations] and is not a loop helper (invariant over the call maker and the work list: a queued loop
   helper has no action of its own, or the gather's `elem`).  Hence in every parser generated from such a grammar,
   every truthy result of a method with a LOCATIONS alternative is what one of its actions produced on the
   span of its match, as stated above. *)
From Pegen Require Import Grammar.Ast Analysis.Nullable Proofs.GenWf.
Theorem C15_generated_parsers_give_actions_the_span_of_the_match :
  forall invalid_tbl iter_fields pre suf file fb g an M,
  grammar_shape_ok g = true ->
  generate invalid_tbl iter_fields pre suf file fb g an = inl M ->
  forall m, In m (i_meths M) -> existsb a_locations (m_alts m) = true ->
  forall K toks verbose use_cache aeval exact_types token_dict rec fuel st v st2,
  run_body K toks verbose use_cache M aeval exact_types token_dict rec fuel m st = (Ok v, st2) ->
  truthy v = true ->
  (exists j x, pos st <= j < pos st2 /\ nth_error toks j = Some x /\ is_ws (tok_consts K) x = false) ->
  exists t0 a st' j tend,
    nth_error toks (pos st) = Some t0 /\ In a (m_alts m) /\ pos st2 = pos st' /\
    matched_by K toks verbose use_cache M aeval exact_types token_dict rec (pos st) (Some t0) a v st' /\
    pos st <= j < pos st2 /\ nth_error toks j = Some tend /\ is_ws (tok_consts K) tend = false /\
    (forall k x, j < k < pos st2 -> nth_error toks k = Some x -> is_ws (tok_consts K) x = true) /\
    forall e,
      env_get (act_env K toks a (Some t0) st' e) "start_lineno" = Some (VInt (Z.of_nat (sline t0))) /\
      env_get (act_env K toks a (Some t0) st' e) "start_col_offset" = Some (VInt (Z.of_nat (scol t0))) /\
      (a_locations a = true ->
       env_get (act_env K toks a (Some t0) st' e) "end_lineno" = Some (VInt (Z.of_nat (eline tend))) /\
       env_get (act_env K toks a (Some t0) st' e) "end_col_offset" = Some (VInt (Z.of_nat (ecol tend)))).
Proof.
  intros tbl itf pre suf file fb g an M Hg HM m Hin Hloc K toks verbose use_cache aeval ex td rec fuel st v st2 H Hv Hex.
  pose proof (generated_loc_ok tbl itf pre suf file fb g an M Hg HM) as Hall.
  rewrite forallb_forall in Hall. specialize (Hall m Hin). unfold meth_loc_ok in Hall. rewrite Hloc in Hall.
  apply andb_prop in Hall as [Hml Hnl]. apply negb_true_iff in Hnl.
  exact (C15_action_receives_the_span_of_the_match K toks verbose use_cache M aeval ex td rec fuel m st v st2 Hnl Hml H Hv Hex).
Qed.
Print Assumptions C15_generated_parsers_give_actions_the_span_of_the_match.
