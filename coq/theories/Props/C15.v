(* C15 — position information spans exactly the matched tokens. *)
From Coq Require Import List String NArith Bool Arith.
From Pegen Require Import Base.StrUtil Base.Values Runtime.Tokenizer Sem.Peg Gen.Gen Runtime.Exec Proofs.LocProofs.
Import ListNotations.
Open Scope string_scope.

(* START: a method whose alternatives use LOCATIONS takes its start position from the token at
   the position where it was entered (before any alternative runs), for every module and state. *)
Theorem C15_start_is_first_token : forall toks st,
  fst (peek toks st) = nth_error toks (pos st).
Proof. intros toks st. unfold peek. destruct (nth_error toks (pos st)); reflexivity. Qed.
Print Assumptions C15_start_is_first_token.

(* END: whatever backtracking, lookahead or cache reuse happened before (the fetched array may
   extend far beyond the cursor), the token used for the end position of an alternative that
   ends at cursor e is the LAST token before e that is not NEWLINE / INDENT / DEDENT / ENDMARKER
   -- for every token list and every such position. *)
Theorem C15_end_is_last_non_layout_token : forall K toks st j t,
  j < pos st -> pos st <= List.length toks -> nth_error toks j = Some t ->
  is_ws (tok_consts K) t = false ->
  (forall k x, j < k < pos st -> nth_error toks k = Some x -> is_ws (tok_consts K) x = true) ->
  last_tok K toks st = Some t.
Proof. intros K toks st j t. unfold last_tok. apply end_token_spec. Qed.
Print Assumptions C15_end_is_last_non_layout_token.

(* Non-vacuity: after a lookahead fetched two more tokens, the end token of `NAME '+'` consumed up
   to cursor 2 is still the '+'. *)
Definition KD : kinds := {| kNAME := 1; kNUMBER := 2; kSTRING := 3; kOP := 55; kNEWLINE := 4; kINDENT := 5; kDEDENT := 6;
  kENDMARKER := 0; kTYPE_COMMENT := 59; kFSTRING_START := 61; kFSTRING_MIDDLE := 62; kFSTRING_END := 63; kASYNC := 57; kAWAIT := 56 |}.
Definition tk (k : N) (s : string) (c : nat) : rtok := {| ty := k; tstr := s; sline := 1; scol := c; eline := 1; ecol := c + 1; tline := ""; tspace := false |}.
Example C15_demo :
  last_tok KD [tk 1 "a" 0; tk 55 "+" 2; tk 2 "1" 4; tk 4 "" 5]
           {| pos := 2; fetched := 4; cache := []; invalid := false; events := [] |} = Some (tk 55 "+" 2).
Proof. vm_compute. reflexivity. Qed.
Print Assumptions C15_demo.
