(* C16 — cycle analysis: components, cycles and the chosen leader are right. *)
From Coq Require Import List String NArith Bool Arith.
From Pegen Require Import Base.StrUtil Analysis.Scc Proofs.LeaderProofs Proofs.SccBounded Proofs.SccBounded4 Proofs.SccCheck.
Import ListNotations.

(* Unbounded, for every graph, every component list and every iteration order (the adjacency
   lists and the component are arbitrary lists): the rule designated for a multi-member group
   is a member of the group and lies on every simple cycle of the group ... *)
Theorem C16_leader_on_every_cycle : forall g a b rest v,
  leader_of g (a :: b :: rest) = Leader v ->
  In v (a :: b :: rest) /\ on_every_cycle string String.eqb g (a :: b :: rest) v.
Proof. exact leader_of_multi. Qed.
Print Assumptions C16_leader_on_every_cycle.

(* ... the grammar is refused only when every member is avoided by some cycle of the group ... *)
Theorem C16_refused_only_without_leader : forall g scc,
  leader_of g scc = Refuse ->
  forall v, In v scc -> exists c, cycle_in_scc string String.eqb g scc c /\ ~ In v c.
Proof. exact leader_of_refuse. Qed.
Print Assumptions C16_refused_only_without_leader.

(* ... and never when some member lies on every cycle. *)
Theorem C16_not_refused_with_leader : forall g scc v,
  In v scc -> on_every_cycle string String.eqb g scc v -> leader_of g scc <> Refuse.
Proof. exact leader_of_not_refused. Qed.
Print Assumptions C16_not_refused_with_leader.

(* The candidate set computed from the enumerated cycles is exactly the set of members lying on
   every simple cycle, for any vertex type. *)
Theorem C16_candidates_exact : forall (V : Type) (veqb : V -> V -> bool),
  (forall a b, veqb a b = true <-> a = b) ->
  forall g scc r, candidates V veqb g scc = Some r ->
  forall v, In v r <-> In v scc /\ on_every_cycle V veqb g scc v.
Proof. exact candidates_some. Qed.
Print Assumptions C16_candidates_exact.

(* A one-member group is left-recursive (and its own leader) exactly when it has a self-loop. *)
Theorem C16_singleton : forall g n,
  leader_of g [n] = (if smem n (succs string String.eqb g n) then Leader n else NoLeader).
Proof. exact leader_of_single. Qed.
Print Assumptions C16_singleton.

(* Components: the path-based algorithm yields exactly the mutual-reachability classes, each
   vertex once — for ALL digraphs on at most 3 vertices under every vertex order and every
   adjacency order, and for all 65 536 digraphs on 4 vertices under increasing/decreasing vertex
   and adjacency order (finite statements decided by evaluation in the kernel). *)
Theorem C16_scc_le3_all_orders :
  check_all_orders 1 2 = true /\ check_all_orders 2 16 = true /\ check_all_orders 3 512 = true.
Proof. exact (conj scc_correct_1 (conj scc_correct_2 scc_correct_3)). Qed.
Print Assumptions C16_scc_le3_all_orders.

Theorem C16_scc_4 : allN 65536 check4 0 = true.
Proof. exact scc_correct_4. Qed.
Print Assumptions C16_scc_4.

(* Non-vacuity: two cycles sharing one vertex; two disjoint-through cycles with no common vertex. *)
Example C16_demo_leader :
  compute_left_recursives [("a", ["b"]); ("b", ["a"; "c"]); ("c", ["b"])]%string
  = LRFlags ["a"; "b"; "c"]%string ["b"]%string.
Proof. vm_compute. reflexivity. Qed.
Print Assumptions C16_demo_leader.
Example C16_demo_refuse :
  compute_left_recursives [("a", ["b"; "c"]); ("b", ["a"; "c"]); ("c", ["a"; "b"])]%string = LRValueError.
Proof. vm_compute. reflexivity. Qed.
Print Assumptions C16_demo_refuse.

(* Unbounded, by translation validation: for ANY graph (any size), any vertex list and any list of
   components -- in particular the ones sccutils really yields, whatever the iteration order --
   if the decidable [scc_check] accepts them then they are exactly the classes of mutual
   reachability, each vertex once; and if [lr_check] accepts a set of flagged vertices then these
   are exactly the vertices lying on a cycle.  The checks are evaluated on every explored graph
   with the components and flags the real code produced. *)
Theorem C16_checked_components_are_exact :
  forall g vs cs, scc_check string String.eqb g vs cs = true ->
  NoDup (List.concat cs) /\
  forall u w, In u vs -> In w vs ->
    ((exists C, In C cs /\ In u C /\ In w C) <-> (path string String.eqb g u w /\ path string String.eqb g w u)).
Proof. intros g vs cs H. exact (scc_check_sound string String.eqb String.eqb_eq g vs cs H). Qed.
Print Assumptions C16_checked_components_are_exact.

Theorem C16_checked_flags_are_exact :
  forall g vs cs lr, scc_check string String.eqb g vs cs = true -> lr_check string String.eqb g cs lr = true ->
  forall v, In v vs -> (In v lr <-> on_cycle string String.eqb g v).
Proof. intros g vs cs lr H Hl. exact (lr_check_sound string String.eqb String.eqb_eq g vs cs H lr Hl). Qed.
Print Assumptions C16_checked_flags_are_exact.

Example C16_checker_accepts :
  let g := [("a", ["b"]); ("b", ["a"; "c"]); ("c", ["c"]); ("d", [])]%string in
  scc_check string String.eqb g ["a"; "b"; "c"; "d"]%string [["c"]; ["b"; "a"]; ["d"]]%string = true
  /\ lr_check string String.eqb g [["c"]; ["b"; "a"]; ["d"]]%string ["a"; "b"; "c"]%string = true
  /\ scc_check string String.eqb g ["a"; "b"; "c"; "d"]%string [["c"]; ["b"]; ["a"]; ["d"]]%string = false.
Proof. vm_compute. repeat split; reflexivity. Qed.
Print Assumptions C16_checker_accepts.
