(* C19 — FIRST sets over-approximate what a rule can start with. *)
From Coq Require Import List String NArith Bool Arith.
From Pegen Require Import Base.StrUtil Base.Values Grammar.Ast Runtime.Tokenizer Sem.Peg Analysis.Visitor Analysis.Nullable
  Proofs.VisitorSim Proofs.NullableProofs Proofs.NullSem Analysis.FirstSets Analysis.FirstPure Proofs.FirstSound.
Import ListNotations.
Open Scope string_scope.

(* Whenever, under the reference semantics, an item (in particular a rule) succeeds WITHOUT
   consuming anything, it is nullable under every assignment that is closed under the nullability
   equations read off the extracted table -- for all grammars, token lists, positions, action
   interpretations; the conditions on the table ([nul_tbl_ok]) are decidable and re-proved on every
   run for the current source. *)
Theorem C19_empty_match_is_nullable :
  forall tbl, nul_tbl_ok tbl = true ->
  forall K rs toks kw soft aeval item_name forced_msg F, prefixed tbl rs F ->
  forall i p v, peg_item K rs toks kw soft aeval item_name forced_msg i p (PSucc v p) ->
  pv_item tbl (pleaf rs F) i = true.
Proof.
  intros tbl Hok K rs toks kw soft aeval item_name forced_msg F HF i p v H.
  exact (proj1 (nullable_sem tbl Hok K rs toks kw soft aeval item_name forced_msg F HF) i p _ H v eq_refl).
Qed.
Print Assumptions C19_empty_match_is_nullable.

(* With Props/C03.v: the flags computed by the analysis are such a closed assignment, so a rule
   that can match nothing is flagged nullable -- which is when FirstSetCalculator adds the empty
   marker to its FIRST set. *)
Corollary C19_rule_matching_nothing_is_flagged :
  forall methods iter_fields rs st, nul_tbl_ok methods = true -> monotone_tbl methods = true ->
  NoDup (map rname rs) -> ids_consistent rs ->
  compute_nullables methods iter_fields rs = Some st ->
  forall K toks kw soft aeval item_name forced_msg n r p v,
  find_rule rs n = Some r ->
  peg_item K rs toks kw soft aeval item_name forced_msg (NameLeaf n) p (PSucc v p) ->
  flags_of st n = true.
Proof.
  intros methods itf rs st Hok Hm Hn Hids Hc K toks kw soft aeval item_name forced_msg n r p v Hf H.
  destruct (nullable_least methods itf rs st Hm Hn Hids Hc) as [HP _].
  pose proof (C19_empty_match_is_nullable methods Hok K rs toks kw soft aeval item_name forced_msg _ HP _ _ _ H) as Hv.
  rewrite pv_item_eq in Hv. unfold nul_tbl_ok in Hok.
  assert (Hs : special methods "NameLeaf" = true) by (repeat (apply andb_prop in Hok as [Hok ?]); assumption).
  rewrite (special_spec methods "NameLeaf" _ _ Hs) in Hv. unfold pleaf in Hv. rewrite Hf in Hv. exact Hv.
Qed.
Print Assumptions C19_rule_matching_nothing_is_flagged.

(* The first-token half.  For every grammar whose lookahead operands are single tokens ([lk_rules],
   the class the property speaks about) and every table T that is CLOSED under the FIRST equations
   of Analysis/FirstPure.v evaluated with the nullability flags of the analysis ([closed_b] --
   decidable, evaluated on every run on the table the real FirstSetCalculator computes): whenever a
   rule matches and consumes, under the reference semantics, for any token list, position and
   action interpretation, the first token it consumed is described by a member of T(rule): its
   literal, or its token kind. *)
Theorem C19_first_token_sound :
  forall methods iter_fields rs st, nul_tbl_ok methods = true -> monotone_tbl methods = true ->
  NoDup (map rname rs) -> ids_consistent rs ->
  compute_nullables methods iter_fields rs = Some st ->
  forall T, closed_b rs T (pv_item methods (pleaf rs (flags_of st))) = true -> lk_rules rs = true ->
  forall K toks kw soft aeval item_name forced_msg n r p v p',
  find_rule rs n = Some r ->
  peg_item K rs toks kw soft aeval item_name forced_msg (NameLeaf n) p (PSucc v p') -> p < p' ->
  exists t m, nth_error toks p = Some t /\ In m (T n) /\ describes K kw soft m t.
Proof.
  intros methods itf rs st Hok Hm Hn Hids Hc T Hcl Hlk K toks kw soft aeval item_name forced_msg n r p v p' Hf H Hlt.
  destruct (nullable_least methods itf rs st Hm Hn Hids Hc) as [HP _].
  pose proof (proj1 (first_sound methods Hok K rs toks kw soft aeval item_name forced_msg _ HP T Hcl Hlk) _ _ _ H) as Hfs.
  assert (Hl : lk_item rs (NameLeaf n) = true) by (cbn [lk_item]; rewrite Hf; reflexivity).
  destruct (Hfs Hl _ _ eq_refl Hlt) as (t & m & Ht & Hin & Hd).
  exists t, m. split; [exact Ht|]. split; [|exact Hd].
  cbn [effg pf_item] in Hin. rewrite Hf in Hin. exact Hin.
Qed.
Print Assumptions C19_first_token_sound.

(* The closedness premise, as a theorem about the calculator (end of the third session).  For every grammar in which no
   rule reaches itself at one position -- [acyclic_b]: a rank, given as a table and checked, strictly decreases along the
   initial invocations computed with the per-item flags of the analysis; this is the class "without left recursion" of the
   property -- the table the model of FirstSetCalculator computes IS closed under the FIRST equations.  (Proofs/FirstClosed.v:
   entries are never overwritten; a value returned for an item equals the pure value under every table that agrees with the
   entries stored so far; the recursion guard is never hit because the rules in progress have a larger rank than anything
   visited at an initial position.  Uses C03_item_flags_are_exact for the flags and, for "an item whose FIRST set holds the
   empty marker can match nothing", the conditions [nul_tbl_ok] on the extracted table.) *)
From Pegen Require Import Proofs.VisitAll Proofs.FirstClosed Proofs.FirstClosedInst Analysis.FirstSets.
Theorem C19_computed_table_is_closed :
  forall methods iter_fields rs st T ranks,
  monotone_tbl methods = true -> visit_all_ok methods iter_fields = true -> nul_tbl_ok methods = true ->
  NoDup (map rname rs) -> ids_consistent rs -> ne_rules rs = true ->
  compute_nullables methods iter_fields rs = Some st ->
  acyclic_b rs (fun k => memN k (n_items st)) ranks = true ->
  first_sets methods iter_fields rs = Some T ->
  closed_b rs (table_fun T) (pv_item methods (pleaf rs (flags_of st))) = true.
Proof. exact first_sets_closed. Qed.
Print Assumptions C19_computed_table_is_closed.

(* Hence FIRST, as computed, is sound for every grammar of the class and every input: *)
Theorem C19_computed_first_sets_are_sound :
  forall methods iter_fields rs st T ranks,
  monotone_tbl methods = true -> visit_all_ok methods iter_fields = true -> nul_tbl_ok methods = true ->
  NoDup (map rname rs) -> ids_consistent rs -> ne_rules rs = true -> lk_rules rs = true ->
  compute_nullables methods iter_fields rs = Some st ->
  acyclic_b rs (fun k => memN k (n_items st)) ranks = true ->
  first_sets methods iter_fields rs = Some T ->
  forall K toks kw soft aeval item_name forced_msg n r p v p',
  find_rule rs n = Some r ->
  peg_item K rs toks kw soft aeval item_name forced_msg (NameLeaf n) p (PSucc v p') -> p < p' ->
  exists t m, nth_error toks p = Some t /\ In m (table_fun T n) /\ describes K kw soft m t.
Proof.
  intros m itf rs st T ranks Hm Hv Hok Hn Hids Hne Hlk Hc Hac Hfs.
  exact (C19_first_token_sound m itf rs st Hok Hm Hn Hids Hc (table_fun T)
           (first_sets_closed m itf rs st T ranks Hm Hv Hok Hn Hids Hne Hc Hac Hfs) Hlk).
Qed.
Print Assumptions C19_computed_first_sets_are_sound.

(* Non-vacuity: the decidable premises hold for a grammar with a nullable prefix, a loop, a gather and a lookahead, with the
   table as extracted from the source; the computed table is the expected one. *)
Definition tbl19 : list (string * bexp) :=
  [("visit_Rule", BSpecial "visit_Rule"); ("visit_Rhs", BAnyEager "alts"); ("visit_Alt", BAllEager "items");
   ("visit_Forced", BSeq (BVisit "node") (BConst true)); ("visit_PositiveLookahead", BSeq (BVisit "node") (BConst true));
   ("visit_NegativeLookahead", BSeq (BVisit "node") (BConst true)); ("visit_Opt", BSeq (BVisit "node") (BConst true));
   ("visit_Repeat0", BSeq (BVisit "node") (BConst true)); ("visit_Repeat1", BVisit "node");
   ("visit_Gather", BSeq (BVisit "separator") (BVisit "node")); ("visit_Cut", BConst true);
   ("visit_Group", BVisit "rhs"); ("visit_NamedItem", BSpecial "visit_NamedItem");
   ("visit_NameLeaf", BSpecial "visit_NameLeaf"); ("visit_StringLeaf", BNotField "value")].
Definition itf19 : list (string * list string) :=
  [("Rule", ["rhs"]); ("Rhs", ["alts"]); ("Alt", ["items"]); ("NamedItem", ["item"]); ("NameLeaf", []);
   ("StringLeaf", []); ("Group", ["rhs"]); ("Opt", ["node"]); ("Repeat0", ["node"]); ("Repeat1", ["node"]);
   ("Gather", ["separator"; "node"]); ("PositiveLookahead", ["node"]); ("NegativeLookahead", ["node"]);
   ("Forced", ["node"]); ("Cut", [])].
Definition ni19 (k : N) (i : item) := NItem k None None i.
Definition mkr19 (n : string) (id : N) (alts : list alt) := {| rname := n; rtype := None; rmemo := false; rrhs := Rhs id alts |}.
(* start: a NEWLINE ;  a: !'z' opt ('w' b)* ','.b+ ;  b: 'q'? NAME ;  opt: 'o'? *)
Definition g19 : list rule :=
  [mkr19 "start" 1 [Alt [ni19 2 (NameLeaf "a"); ni19 3 (NameLeaf "NEWLINE")] None];
   mkr19 "a" 4 [Alt [ni19 5 (NegLook (StringLeaf "'z'")); ni19 7 (NameLeaf "opt");
                     ni19 8 (Repeat0 9 (Group (Rhs 10 [Alt [ni19 11 (StringLeaf "'w'"); ni19 12 (NameLeaf "b")] None])));
                     ni19 13 (Gather 14 (StringLeaf "','") (NameLeaf "b"))] None];
   mkr19 "b" 15 [Alt [ni19 16 (Opt (StringLeaf "'q'")); ni19 17 (NameLeaf "NAME")] None];
   mkr19 "opt" 18 [Alt [ni19 19 (Opt (StringLeaf "'o'"))] None]].
Example C19_closed_example :
  visit_all_ok tbl19 itf19 = true /\ nul_tbl_ok tbl19 = true /\ monotone_tbl tbl19 = true /\ ne_rules g19 = true /\ lk_rules g19 = true /\
  match compute_nullables tbl19 itf19 g19 with
  | Some st => acyclic_b g19 (fun k => memN k (n_items st)) [("start", 3); ("a", 2); ("b", 1); ("opt", 0)]
  | None => false
  end = true /\
  option_map (fun T => (table_fun T "a", table_fun T "b", table_fun T "opt")) (first_sets tbl19 itf19 g19) =
    Some (["'o'"; "'w'"; "'q'"; "NAME"], ["'q'"; "NAME"], ["'o'"; ""]).
Proof. vm_compute. repeat split; reflexivity. Qed.
Print Assumptions C19_closed_example.
