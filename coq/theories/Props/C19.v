(* C19 — FIRST sets over-approximate what a rule can start with. *)
From Coq Require Import List String NArith Bool Arith.
From Pegen Require Import Base.StrUtil Base.Values Grammar.Ast Runtime.Tokenizer Sem.Peg Analysis.Visitor Analysis.Nullable
  Proofs.VisitorSim Proofs.NullableProofs Proofs.NullSem Analysis.FirstSets Analysis.FirstPure Proofs.FirstSound.
Import ListNotations.
Open Scope string_scope.

(* Whenever, under the reference semantics, an item (in particular a rule) succeeds WITHOUT
   consuming anything, it is nullable under every assignment that is closed under the nullability
   equations read off the extracted table -- for all grammars, token lists, positions, action
   interpretations; the conditions on the table ([nul_tbl_ok]) are decidable and re-proved on every
   run for the current source. *)
Theorem C19_empty_match_is_nullable :
  forall tbl, nul_tbl_ok tbl = true ->
  forall K rs toks kw soft aeval item_name forced_msg F, prefixed tbl rs F ->
  forall i p v, peg_item K rs toks kw soft aeval item_name forced_msg i p (PSucc v p) ->
  pv_item tbl (pleaf rs F) i = true.
Proof.
  intros tbl Hok K rs toks kw soft aeval item_name forced_msg F HF i p v H.
  exact (proj1 (nullable_sem tbl Hok K rs toks kw soft aeval item_name forced_msg F HF) i p _ H v eq_refl).
Qed.
Print Assumptions C19_empty_match_is_nullable.

(* With Props/C03.v: the flags computed by the analysis are such a closed assignment, so a rule
   that can match nothing is flagged nullable -- which is when FirstSetCalculator adds the empty
   marker to its FIRST set. *)
Corollary C19_rule_matching_nothing_is_flagged :
  forall methods iter_fields rs st, nul_tbl_ok methods = true -> monotone_tbl methods = true ->
  NoDup (map rname rs) -> ids_consistent rs ->
  compute_nullables methods iter_fields rs = Some st ->
  forall K toks kw soft aeval item_name forced_msg n r p v,
  find_rule rs n = Some r ->
  peg_item K rs toks kw soft aeval item_name forced_msg (NameLeaf n) p (PSucc v p) ->
  flags_of st n = true.
Proof.
  intros methods itf rs st Hok Hm Hn Hids Hc K toks kw soft aeval item_name forced_msg n r p v Hf H.
  destruct (nullable_least methods itf rs st Hm Hn Hids Hc) as [HP _].
  pose proof (C19_empty_match_is_nullable methods Hok K rs toks kw soft aeval item_name forced_msg _ HP _ _ _ H) as Hv.
  rewrite pv_item_eq in Hv. unfold nul_tbl_ok in Hok.
  assert (Hs : special methods "NameLeaf" = true) by (repeat (apply andb_prop in Hok as [Hok ?]); assumption).
  rewrite (special_spec methods "NameLeaf" _ _ Hs) in Hv. unfold pleaf in Hv. rewrite Hf in Hv. exact Hv.
Qed.
Print Assumptions C19_rule_matching_nothing_is_flagged.

(* The first-token half.  For every grammar whose lookahead operands are single tokens ([lk_rules],
   the class the property speaks about) and every table T that is CLOSED under the FIRST equations
   of Analysis/FirstPure.v evaluated with the nullability flags of the analysis ([closed_b] --
   decidable, evaluated on every run on the table the real FirstSetCalculator computes): whenever a
   rule matches and consumes, under the reference semantics, for any token list, position and
   action interpretation, the first token it consumed is described by a member of T(rule): its
   literal, or its token kind. *)
Theorem C19_first_token_sound :
  forall methods iter_fields rs st, nul_tbl_ok methods = true -> monotone_tbl methods = true ->
  NoDup (map rname rs) -> ids_consistent rs ->
  compute_nullables methods iter_fields rs = Some st ->
  forall T, closed_b rs T (pv_item methods (pleaf rs (flags_of st))) = true -> lk_rules rs = true ->
  forall K toks kw soft aeval item_name forced_msg n r p v p',
  find_rule rs n = Some r ->
  peg_item K rs toks kw soft aeval item_name forced_msg (NameLeaf n) p (PSucc v p') -> p < p' ->
  exists t m, nth_error toks p = Some t /\ In m (T n) /\ describes K kw soft m t.
Proof.
  intros methods itf rs st Hok Hm Hn Hids Hc T Hcl Hlk K toks kw soft aeval item_name forced_msg n r p v p' Hf H Hlt.
  destruct (nullable_least methods itf rs st Hm Hn Hids Hc) as [HP _].
  pose proof (proj1 (first_sound methods Hok K rs toks kw soft aeval item_name forced_msg _ HP T Hcl Hlk) _ _ _ H) as Hfs.
  assert (Hl : lk_item rs (NameLeaf n) = true) by (cbn [lk_item]; rewrite Hf; reflexivity).
  destruct (Hfs Hl _ _ eq_refl Hlt) as (t & m & Ht & Hin & Hd).
  exists t, m. split; [exact Ht|]. split; [|exact Hd].
  cbn [effg pf_item] in Hin. rewrite Hf in Hin. exact Hin.
Qed.
Print Assumptions C19_first_token_sound.
