(* C14 — the tokenizer wrapper is a faithful, lazy, rewindable cursor. *)
From Coq Require Import List String NArith Bool Arith.
From Pegen Require Import Base.StrUtil Runtime.Tokenizer Proofs.TokenizerProofs Proofs.TokenizerLines.
Import ListNotations.
Open Scope string_scope.

(* Every interleaving of peek / getnext / mark / reset / diagnose / last-non-whitespace (and
   get_lines) on every raw stream behaves as the abstract cursor [astep] over the filtered list
   K = filt raw: the token returned by peek/getnext is nth K cursor — a function of the cursor
   index alone, so reset followed by getnext replays the same tokens; diagnose returns the
   furthest fetched filtered token. *)
Theorem C14_cursor_refinement : forall C has_path file_lines raw ops st outs,
  run C has_path file_lines (init raw) ops = (st, outs) ->
  exists aouts, arun C raw {| ac := 0; af := 0 |} ops = (abs st, aouts) /\ Forall2 out_ok outs aouts.
Proof.
  intros C hp fl raw ops st outs H.
  exact (proj2 (run_refines C hp fl raw ops _ _ _ (inv_init C raw) H)).
Qed.
Print Assumptions C14_cursor_refinement.

(* diagnose never moves the cursor, in any reachable state *)
Theorem C14_diagnose_keeps_cursor : forall C has_path file_lines raw ops st outs st' r,
  run C has_path file_lines (init raw) ops = (st, outs) ->
  step C has_path file_lines st Diagnose = (st', r) -> idx st' = idx st.
Proof.
  intros C hp fl raw ops st outs st' r H. apply diagnose_keeps_cursor with (raw0 := raw).
  exact (reachable_inv C hp fl raw ops st outs H).
Qed.
Print Assumptions C14_diagnose_keeps_cursor.

(* laziness: whenever the k-th raw token was pulled, fewer filtered tokens than the furthest
   examined position (hw = 1 + highest index handed to peek) were available before it *)
Theorem C14_lazy : forall C has_path file_lines raw ops st outs,
  run C has_path file_lines (init raw) ops = (st, outs) ->
  forall k, k < pulled st -> List.length (filt C (firstn k raw)) < hw st.
Proof. exact lazy_pull. Qed.
Print Assumptions C14_lazy.

(* source lines: under tokenize's contract for TokenInfo.line, every requested line that a pulled
   token touches is reported as the real line of the text without a path ... *)
Theorem C14_lines_string : forall C raw text,
  (forall t, In t raw -> tok_line_ok text t) ->
  forall ops st outs ns, run C false [] (init raw) ops = (st, outs) -> ns <> [] ->
  (forall n, In n ns -> seen raw st n) ->
  exists L, step C false [] st (GetLines ns) = (st, OLines L) /\ real_lines text ns L.
Proof.
  intros C raw text Hwf ops st outs ns. exact (get_lines_string_reachable C raw text Hwf ops st outs ns).
Qed.
Print Assumptions C14_lines_string.

(* ... and with a path (file content = the text) for every line of the text; the two answers
   coincide *)
Theorem C14_lines_path : forall C text st ns, lines st = [] ->
  (forall n, In n ns -> 1 <= n <= List.length text) ->
  exists L, step C true text st (GetLines ns) = (st, OLines L) /\ real_lines text ns L.
Proof. exact get_lines_path. Qed.
Print Assumptions C14_lines_path.

Theorem C14_lines_same : forall text ns L L', real_lines text ns L -> real_lines text ns L' -> L = L'.
Proof. exact real_lines_unique. Qed.
Print Assumptions C14_lines_same.

(* Non-vacuity: a concrete stream with a comment, a non-logical newline and a doubled NEWLINE. *)
Definition PC : tokconsts := {| cNL := 65; cCOMMENT := 64; cERRORTOKEN := 66; cNEWLINE := 4; cENDMARKER := 0; cDEDENT := 6 |}.
Definition mk (k : N) (s : string) (l : nat) : rtok :=
  {| ty := k; tstr := s; sline := l; scol := 0; eline := l; ecol := 1; tline := s; tspace := false |}.
Definition demo : list rtok := [mk 64 "# c" 1; mk 65 "" 1; mk 1 "x" 2; mk 4 "" 2; mk 4 "" 3; mk 1 "y" 4; mk 0 "" 5].
Example C14_demo :
  snd (run PC false [] (init demo) [Diagnose; Mark; GetNext; GetNext; Reset 0; GetNext; GetNext; GetNext; Diagnose; Mark])
  = [OTok (mk 1 "x" 2); ONat 0; OTok (mk 1 "x" 2); OTok (mk 4 "" 2); ONone; OTok (mk 1 "x" 2); OTok (mk 4 "" 2);
     OTok (mk 1 "y" 4); OTok (mk 1 "y" 4); ONat 3].
Proof. vm_compute. reflexivity. Qed.
Print Assumptions C14_demo.
