(* C01 — generated parsers implement the PEG semantics of their grammar (partial). *)
From Coq Require Import List String NArith Bool Arith.
From Pegen Require Import Base.StrUtil Base.Values Grammar.Ast Runtime.Tokenizer Sem.Peg Sem.PegEval Proofs.PegProofs
  Proofs.PegEvalSound.
Import ListNotations.
Open Scope string_scope.

(* The reference semantics is a function: for every grammar, token list, interpretation of actions
   and naming of items, an item at a position has at most one outcome (success with ONE value and
   ONE end position, failure, or a forced-item error). "The parser returns the value the grammar
   prescribes" is therefore a well-defined requirement. *)
Theorem C01_reference_semantics_deterministic :
  forall K rs toks kw soft aeval item_name forced_msg i p r1 r2,
  peg_item K rs toks kw soft aeval item_name forced_msg i p r1 ->
  peg_item K rs toks kw soft aeval item_name forced_msg i p r2 -> r1 = r2.
Proof. intros K rs toks kw soft aeval item_name forced_msg i p r1 r2 H1 H2. exact (peg_item_det K rs toks kw soft aeval item_name forced_msg i p r1 H1 r2 H2). Qed.
Print Assumptions C01_reference_semantics_deterministic.

(* A successful match never ends before it started. *)
Theorem C01_match_never_moves_backwards :
  forall K rs toks kw soft aeval item_name forced_msg i p v p',
  peg_item K rs toks kw soft aeval item_name forced_msg i p (PSucc v p') -> p <= p'.
Proof. intros K rs toks kw soft aeval item_name forced_msg i p v p' H. exact (peg_item_mono K rs toks kw soft aeval item_name forced_msg i p _ H v p' eq_refl). Qed.
Print Assumptions C01_match_never_moves_backwards.

(* The evaluator that every run executes inside Coq on each explored (grammar, input) and compares
   with the real generated parser is SOUND for the reference semantics: whatever it returns for the
   start rule is derivable in the relation (instantiated with the documented naming convention
   [ev_names] and with actions evaluated by [aeval_str] over the named items and the span), and by
   determinism it is the ONLY outcome the semantics allows.  So "real parser = evaluator" on a case
   is "real parser = the reference semantics" on that case. *)
Theorem C01_evaluator_sound :
  forall K rs toks kw soft aeval_str fuel start r,
  peg_eval K rs toks kw soft aeval_str fuel start = Some r ->
  peg_item K rs toks kw soft (ev_aeval K toks aeval_str) ev_names forced_text (NameLeaf start) 0 r
  /\ forall r', peg_item K rs toks kw soft (ev_aeval K toks aeval_str) ev_names forced_text (NameLeaf start) 0 r' -> r' = r.
Proof.
  intros K rs toks kw soft aeval_str fuel start r H. unfold peg_eval in H.
  destruct (ev K rs toks kw soft aeval_str fuel (GItem (NameLeaf start) 0)) as [[r0| |]|] eqn:E; try discriminate.
  injection H as <-. pose proof (ev_sound K rs toks kw soft aeval_str _ _ _ E) as Hs. cbn [sound] in Hs.
  split; [exact Hs|]. intros r' H'. exact (peg_item_det K rs toks kw soft _ _ _ _ _ _ H' _ Hs).
Qed.
Print Assumptions C01_evaluator_sound.

(* COMPILATION CORRECTNESS, first fragment as a theorem (end of the third session; Proofs/FlatSem.v).
   For every IR module of the fragment ([flat_module]: decidable -- every alternative is a sequence of calls of rule
   methods, token primitives and expect(), each possibly under ONE wrapper: optional `(x := c,)`, positive / negative
   lookahead, forced item, or a cut; value-carrying calls bound to pairwise distinct names; the default action; no
   guard, no LOCATIONS, no loops; methods decorated @memoize), read back as a grammar ([dec_module]), and for the
   interpreter with the cache off and tracing off: WHENEVER a method returns -- with a truthy value, or with a failure
   -- the reference semantics of Sem/Peg.v derives exactly that for the grammar read back: success with the SAME value
   and the SAME end position, or failure (and then the value is None and the position is where it was).  By
   C01_reference_semantics_deterministic that is THE answer the semantics prescribes.  (What is not covered: runs that
   raise -- StopIteration at the end of the token list, a forced item -- or run out of fuel.)  Every token list, every
   state, every amount of fuel.  The hypotheses concern the environment only: the action interpreter evaluates the
   default action text (a name, or a list display of names) as Python does, and on the given token list expect() matches
   literals by their text and token kinds by their kind (the conflation recorded in the C11 findings is excluded).
   With C04_cache_transparent the statement carries over to cached runs of modules without left-recursive leaders.
   After the generator has moved groups, repetitions and gathers into helper rules, this fragment is the shape of every
   alternative of a generated parser that has no explicit action; loops and gathers are the next step. *)
From Pegen Require Import Gen.Gen Runtime.Exec Proofs.FlatSem.
Theorem C01_interpreter_implements_the_reference_semantics_on_flat_modules :
  forall K toks M aeval exact_types token_dict aevalP item_name forced_msg,
  flat_module M = true ->
  (forall xs e vs, nodup_s xs = true -> Forall2 (fun x v => env_get e x = Some v) xs vs ->
     aeval (default_text xs) e = Some (match vs with [v] => v | _ => VList vs end)) ->
  (forall s t, In t toks -> is_kind2 s = false -> expect_test K exact_types token_dict s t = String.eqb (tstr t) s) ->
  (forall s t, In t toks -> is_kind2 s = true -> expect_test K exact_types token_dict s t = kind2_test K M s t) ->
  forall fuel n st v st', find_meth M n <> None ->
  run K toks false false M aeval exact_types token_dict fuel n st = (Ok v, st') ->
  exists res, peg_item K (dec_module M) toks (i_keywords M) (i_soft_keywords M) aevalP item_name forced_msg (NameLeaf n) (pos st) res /\
              ((truthy v = true /\ res = PSucc v (pos st')) \/ (v = VNone /\ res = PFail /\ pos st' = pos st)).
Proof. exact flat_run_agrees. Qed.
Print Assumptions C01_interpreter_implements_the_reference_semantics_on_flat_modules.

(* Non-vacuity: the module the generator model emits for a grammar with an optional, a lookahead, a cut, a forced
   item and rule references IS in the fragment, and reads back as that grammar. *)
From Pegen Require Import Analysis.Nullable.
Definition ni01 (k : N) (nm : option string) (i : item) := NItem k nm None i.
Definition g01 : grammar :=
  {| rules :=
       [{| rname := "start"; rtype := None; rmemo := false;
           rrhs := Rhs 1 [Alt [ni01 2 None (NameLeaf "stmt"); ni01 3 None (NameLeaf "NEWLINE")] None] |};
        {| rname := "stmt"; rtype := None; rmemo := false;
           rrhs := Rhs 4 [Alt [ni01 5 None (StringLeaf "'if'"); ni01 6 None Cut; ni01 7 None (NameLeaf "NAME"); ni01 8 None (Forced (StringLeaf "':'"))] None;
                          Alt [ni01 9 None (PosLook (NameLeaf "NAME")); ni01 10 None (NameLeaf "expr"); ni01 11 None (Opt (StringLeaf "';'"))] None] |};
        {| rname := "expr"; rtype := None; rmemo := false;
           rrhs := Rhs 12 [Alt [ni01 13 None (NameLeaf "NAME"); ni01 14 None (NegLook (StringLeaf "'='")); ni01 15 None (NameLeaf "NUMBER")] None;
                           Alt [ni01 16 None (NameLeaf "NAME")] None] |}];
     metas := [] |}.
Example C01_flat_example :
  match generate [] [] "" "" "g" 100 g01 {| a_nullable := []; a_item_nullable := [11%N]; a_graph := []; a_left_rec := []; a_leaders := [] |} with
  | inl M => flat_module M = true /\
             map (fun r => (rname r, List.length (rhs_alts (rrhs r)))) (dec_module M) = [("start", 1); ("stmt", 2); ("expr", 2)]
  | inr _ => False
  end.
Proof. vm_compute. split; reflexivity. Qed.
Print Assumptions C01_flat_example.
