(* C01 — generated parsers implement the PEG semantics of their grammar (partial). *)
From Coq Require Import List String NArith Bool Arith.
From Pegen Require Import Base.StrUtil Base.Values Grammar.Ast Runtime.Tokenizer Sem.Peg Sem.PegEval Proofs.PegProofs
  Proofs.PegEvalSound.
Import ListNotations.
Open Scope string_scope.

(* The reference semantics is a function: for every grammar, token list, interpretation of actions
   and naming of items, an item at a position has at most one outcome (success with ONE value and
   ONE end position, failure, or a forced-item error). "The parser returns the value the grammar
   prescribes" is therefore a well-defined requirement. *)
Theorem C01_reference_semantics_deterministic :
  forall K rs toks kw soft aeval item_name forced_msg i p r1 r2,
  peg_item K rs toks kw soft aeval item_name forced_msg i p r1 ->
  peg_item K rs toks kw soft aeval item_name forced_msg i p r2 -> r1 = r2.
Proof. intros K rs toks kw soft aeval item_name forced_msg i p r1 r2 H1 H2. exact (peg_item_det K rs toks kw soft aeval item_name forced_msg i p r1 H1 r2 H2). Qed.
Print Assumptions C01_reference_semantics_deterministic.

(* A successful match never ends before it started. *)
Theorem C01_match_never_moves_backwards :
  forall K rs toks kw soft aeval item_name forced_msg i p v p',
  peg_item K rs toks kw soft aeval item_name forced_msg i p (PSucc v p') -> p <= p'.
Proof. intros K rs toks kw soft aeval item_name forced_msg i p v p' H. exact (peg_item_mono K rs toks kw soft aeval item_name forced_msg i p _ H v p' eq_refl). Qed.
Print Assumptions C01_match_never_moves_backwards.

(* The evaluator that every run executes inside Coq on each explored (grammar, input) and compares
   with the real generated parser is SOUND for the reference semantics: whatever it returns for the
   start rule is derivable in the relation (instantiated with the documented naming convention
   [ev_names] and with actions evaluated by [aeval_str] over the named items and the span), and by
   determinism it is the ONLY outcome the semantics allows.  So "real parser = evaluator" on a case
   is "real parser = the reference semantics" on that case. *)
Theorem C01_evaluator_sound :
  forall K rs toks kw soft aeval_str fuel start r,
  peg_eval K rs toks kw soft aeval_str fuel start = Some r ->
  peg_item K rs toks kw soft (ev_aeval K toks aeval_str) ev_names forced_text (NameLeaf start) 0 r
  /\ forall r', peg_item K rs toks kw soft (ev_aeval K toks aeval_str) ev_names forced_text (NameLeaf start) 0 r' -> r' = r.
Proof.
  intros K rs toks kw soft aeval_str fuel start r H. unfold peg_eval in H.
  destruct (ev K rs toks kw soft aeval_str fuel (GItem (NameLeaf start) 0)) as [[r0| |]|] eqn:E; try discriminate.
  injection H as <-. pose proof (ev_sound K rs toks kw soft aeval_str _ _ _ E) as Hs. cbn [sound] in Hs.
  split; [exact Hs|]. intros r' H'. exact (peg_item_det K rs toks kw soft _ _ _ _ _ _ H' _ Hs).
Qed.
Print Assumptions C01_evaluator_sound.

(* COMPILATION CORRECTNESS, first fragment as a theorem (end of the third session; Proofs/FlatSem.v).
   For every IR module of the fragment ([flat_module]: decidable -- every alternative is a sequence of calls of rule
   methods, token primitives and expect(), each possibly under ONE wrapper: optional `(x := c,)`, positive / negative
   lookahead, forced item, or a cut; value-carrying calls bound to pairwise distinct names; the default action; no
   guard, no LOCATIONS, no loops; methods decorated @memoize), read back as a grammar ([dec_module]), and for the
   interpreter with the cache off and tracing off: WHENEVER a method returns -- with a truthy value, or with a failure
   -- the reference semantics of Sem/Peg.v derives exactly that for the grammar read back: success with the SAME value
   and the SAME end position, or failure (and then the value is None and the position is where it was).  By
   C01_reference_semantics_deterministic that is THE answer the semantics prescribes.  (What is not covered here: runs that
   raise -- StopIteration at the end of the token list; for a forced item see the SyntaxError theorems below -- or run out of fuel.)  Every token list, every
   state, every amount of fuel.  The hypotheses concern the environment only: the action interpreter evaluates the
   default action text (a name, or a list display of names) as Python does, and on the given token list expect() matches
   literals by their text and token kinds by their kind (the conflation recorded in the C11 findings is excluded).
   With C04_cache_transparent the statement carries over to cached runs of modules without left-recursive leaders.
   After the generator has moved groups, repetitions and gathers into helper rules, this fragment is the shape of every
   alternative of a generated parser that has no explicit action; loops and gathers are the next step. *)
From Pegen Require Import Gen.Gen Runtime.Exec Proofs.FlatSem.
Theorem C01_interpreter_implements_the_reference_semantics_on_flat_modules :
  forall K toks M aeval exact_types token_dict aevalP item_name forced_msg,
  flat_module M = true ->
  (forall xs e vs, nodup_s xs = true -> Forall2 (fun x v => env_get e x = Some v) xs vs ->
     aeval (default_text xs) e = Some (match vs with [v] => v | _ => VList vs end)) ->
  (forall s t, In t toks -> is_kind2 s = false -> expect_test K exact_types token_dict s t = String.eqb (tstr t) s) ->
  (forall s t, In t toks -> is_kind2 s = true -> expect_test K exact_types token_dict s t = kind2_test K M s t) ->
  forall fuel n st v st', find_meth M n <> None ->
  run K toks false false M aeval exact_types token_dict fuel n st = (Ok v, st') ->
  exists res, peg_item K (dec_module M) toks (i_keywords M) (i_soft_keywords M) aevalP item_name forced_msg (NameLeaf n) (pos st) res /\
              ((truthy v = true /\ res = PSucc v (pos st')) \/ (v = VNone /\ res = PFail /\ pos st' = pos st)).
Proof. exact flat_run_agrees'. Qed.
Print Assumptions C01_interpreter_implements_the_reference_semantics_on_flat_modules.

(* Non-vacuity: the module the generator model emits for a grammar with an optional, a lookahead, a cut, a forced
   item and rule references IS in the fragment, and reads back as that grammar. *)
From Pegen Require Import Analysis.Nullable.
Definition ni01 (k : N) (nm : option string) (i : item) := NItem k nm None i.
Definition g01 : grammar :=
  {| rules :=
       [{| rname := "start"; rtype := None; rmemo := false;
           rrhs := Rhs 1 [Alt [ni01 2 None (NameLeaf "stmt"); ni01 3 None (NameLeaf "NEWLINE")] None] |};
        {| rname := "stmt"; rtype := None; rmemo := false;
           rrhs := Rhs 4 [Alt [ni01 5 None (StringLeaf "'if'"); ni01 6 None Cut; ni01 7 None (NameLeaf "NAME"); ni01 8 None (Forced (StringLeaf "':'"))] None;
                          Alt [ni01 9 None (PosLook (NameLeaf "NAME")); ni01 10 None (NameLeaf "expr"); ni01 11 None (Opt (StringLeaf "';'"))] None] |};
        {| rname := "expr"; rtype := None; rmemo := false;
           rrhs := Rhs 12 [Alt [ni01 13 None (NameLeaf "NAME"); ni01 14 None (NegLook (StringLeaf "'='")); ni01 15 None (NameLeaf "NUMBER")] None;
                           Alt [ni01 16 None (NameLeaf "NAME")] None] |}];
     metas := [] |}.
Example C01_flat_example :
  match generate [] [] "" "" "g" 100 g01 {| a_nullable := []; a_item_nullable := [11%N]; a_graph := []; a_left_rec := []; a_leaders := [] |} with
  | inl M => flat_module M = true /\
             map (fun r => (rname r, List.length (rhs_alts (rrhs r)))) (dec_module M) = [("start", 1); ("stmt", 2); ("expr", 2)]
  | inr _ => False
  end.
Proof. vm_compute. split; reflexivity. Qed.
Print Assumptions C01_flat_example.

(* COMPILATION CORRECTNESS, second fragment (fourth session; Proofs/IrSem.v): repetitions and gathers.  The fragment
   [ir_ok] adds to the flat one the helper methods the generator creates for `x*`, `x+` (a loop method whose single
   alternative is collected until it fails) and for `s.x+` (a _gather_ method over a _loop0_ method with the action
   `[elem] + seq`).  The module is read back ([dec_module1]) with the repetitions INLINE (Repeat0 / Repeat1 over the loop's
   body) and each gather helper as a rule whose body is the gather.  WHENEVER a plain method returns -- truthy, or a failure
   -- the reference semantics derives exactly that for the grammar read back; a zero-or-more helper returns the list
   the greedy repetition of the semantics yields, a one-or-more helper that list or None when it is empty, a gather's
   loop the list of `s x` repetitions.  A one-or-more helper may be called wherever a rule may (bare, under an optional, a
   lookahead, a forced item); a zero-or-more helper as `self._loop0_k(),`.  Every token list, state and amount of fuel; environment hypotheses as above plus
   the gather action. *)
From Pegen Require Import Proofs.IrSem.
Theorem C01_interpreter_implements_the_reference_semantics_with_repetitions_and_gathers :
  forall K toks M aeval exact_types token_dict aevalP item_name forced_msg,
  ir_ok M = true ->
  (forall xs e vs, nodup_s xs = true -> Forall2 (fun x v => env_get e x = Some v) xs vs ->
     aeval (default_text xs) e = Some (match vs with [v] => v | _ => VList vs end)) ->
  (forall e v vs, env_get e "elem" = Some v -> env_get e "seq" = Some (VList vs) -> aeval "[elem] + seq" e = Some (VList (v :: vs))) ->
  (* EXPLICIT actions (fourth session): the alternatives of plain methods may carry any action text; the grammar read back
     carries the same text, and the reference semantics evaluates it with the same evaluator in the environment of the
     alternative's named items (the variables of its conjunctions) ... *)
  (forall alt ac vals env s e, alt_action alt = Some ac -> aevalP alt vals env s e = aeval (atext ac) env) ->
  (forall a k, item_name a k = match nth_error (alt_items a) k with Some n => ni_name n | None => None end) ->
  (* ... provided the value of an action does not depend on what EARLIER alternatives of the same method left bound
     (the interpreter, like the generated Python method, keeps those locals) once its own alternative has bound its names ... *)
  (forall a, plain_alt M a -> a_explicit a = true -> forall e1 e0,
     (forall x, In x (conj_vars (a_conjs a)) -> env_get e1 x <> None) -> aeval (a_action a) (e1 ++ e0)%list = aeval (a_action a) e1) ->
  (* ... and never is falsy (the recorded C05 finding: a falsy action value makes the alternative fail) *)
  (forall a, plain_alt M a -> a_explicit a = true -> forall e v, aeval (a_action a) e = Some v -> truthy v = true) ->
  (forall s t, In t toks -> is_kind2 s = false -> expect_test K exact_types token_dict s t = String.eqb (tstr t) s) ->
  (forall s t, In t toks -> is_kind2 s = true -> expect_test K exact_types token_dict s t = kind2_test K M s t) ->
  forall fuel n st v st',
  run K toks false false M aeval exact_types token_dict fuel n st = (Ok v, st') ->
  Spec K toks M aevalP item_name forced_msg n v st st'.
Proof. exact ir_run_agrees. Qed.
Print Assumptions C01_interpreter_implements_the_reference_semantics_with_repetitions_and_gathers.

(* ... and back to the SOURCE grammar (Proofs/Desugar.v, Proofs/GenSem.v).  [reads_back_as rs M] is decidable: M is in
   the fragment above, every source rule has a plain method, and the grammar read back from M is related to rs the way
   the generator relates them -- a group or a bracketed list of alternatives became a reference to a helper rule with
   related alternatives, or, when it held one value-carrying item, that item; a repetition repeats a one-item group;
   a gather became a reference to a rule whose body is the gather; an optional of what cannot fail (an optional, a
   zero-or-more repetition) was emitted as is; a rule whose body is one parenthesised group has the group's alternatives
   (Rule.flatten); nothing has an action.  The relation is proved sound
   for the reference semantics (desugar_sound: whatever is derivable for the grammar read back is derivable for the
   source, same value, same position, failure or error), so for EVERY grammar rs and module M with
   reads_back_as rs M = true -- in particular M := the generator model's output for rs, which every run compares
   character by character with the real generator's text -- whenever the method of a source rule returns, truthy or a
   failure, that is what the reference semantics of the SOURCE grammar prescribes.  This is the statement of C01
   (soundness direction, returning runs) for action-free, non-left-recursive grammars without invalid_ rules. *)
From Pegen Require Import Proofs.Desugar Proofs.GenSem.
Theorem C01_generated_parser_implements_the_source_grammar :
  forall K toks M aeval exact_types token_dict aevalP item_name fm rs,
  reads_back_as rs M = true ->
  (forall xs e vs, nodup_s xs = true -> Forall2 (fun x v => env_get e x = Some v) xs vs ->
     aeval (default_text xs) e = Some (match vs with [v] => v | _ => VList vs end)) ->
  (forall e v vs, env_get e "elem" = Some v -> env_get e "seq" = Some (VList vs) -> aeval "[elem] + seq" e = Some (VList (v :: vs))) ->
  (forall s t, In t toks -> is_kind2 s = false -> expect_test K exact_types token_dict s t = String.eqb (tstr t) s) ->
  (forall s t, In t toks -> is_kind2 s = true -> expect_test K exact_types token_dict s t = kind2_test K M s t) ->
  forall fuel n st v st', find_rule rs n <> None ->
  run K toks false false M aeval exact_types token_dict fuel n st = (Ok v, st') ->
  exists res, peg_item K rs toks (i_keywords M) (i_soft_keywords M) aevalP item_name (fun _ => fm) (NameLeaf n) (pos st) res /\
              ((truthy v = true /\ res = PSucc v (pos st')) \/ (v = VNone /\ res = PFail /\ pos st' = pos st)).
Proof. exact run_agrees_with_source. Qed.
Print Assumptions C01_generated_parser_implements_the_source_grammar.

(* The same with the packrat cache ON (what generated parsers run with), by C04's cache transparency: for modules
   without left-recursive leaders and without *_without_invalid methods, from a state with an empty cache, whenever the
   uncached run terminates within the fuel, what the CACHED run of a rule's method returns is what the reference
   semantics of the source grammar prescribes. *)
From Pegen Require Import Proofs.CacheStable.
Theorem C01_generated_parser_with_cache_implements_the_source_grammar :
  forall K toks M aeval exact_types token_dict aevalP item_name fm rs,
  reads_back_as rs M = true -> no_left_rec M = true -> no_wi M = true ->
  (forall xs e vs, nodup_s xs = true -> Forall2 (fun x v => env_get e x = Some v) xs vs ->
     aeval (default_text xs) e = Some (match vs with [v] => v | _ => VList vs end)) ->
  (forall e v vs, env_get e "elem" = Some v -> env_get e "seq" = Some (VList vs) -> aeval "[elem] + seq" e = Some (VList (v :: vs))) ->
  (forall s t, In t toks -> is_kind2 s = false -> expect_test K exact_types token_dict s t = String.eqb (tstr t) s) ->
  (forall s t, In t toks -> is_kind2 s = true -> expect_test K exact_types token_dict s t = kind2_test K M s t) ->
  forall fuel n st v st', find_rule rs n <> None -> cache st = [] ->
  fst (run K toks false false M aeval exact_types token_dict fuel n st) <> OutOfFuel ->
  run K toks false true M aeval exact_types token_dict fuel n st = (Ok v, st') ->
  exists res, peg_item K rs toks (i_keywords M) (i_soft_keywords M) aevalP item_name (fun _ => fm) (NameLeaf n) (pos st) res /\
              ((truthy v = true /\ res = PSucc v (pos st')) \/ (v = VNone /\ res = PFail /\ pos st' = pos st)).
Proof. exact cached_run_agrees_with_source. Qed.
Print Assumptions C01_generated_parser_with_cache_implements_the_source_grammar.

(* The third outcome of C01: a SyntaxError raised by the parse -- the only place the interpreter raises one is a forced
   item whose operand failed -- is a forced-item error (PErr) of the SOURCE grammar's reference semantics at that rule
   and position; uncached and cached.  (Messages and the token the error points at are not compared here; C07/C14 and
   the per-case checks cover them.)  With the two theorems above: every run of a rule's method that returns or raises
   SyntaxError has the outcome the semantics prescribes; runs ending in another exception (StopIteration past the end
   of the tokens, a raising action) or out of fuel are outside. *)
Theorem C01_syntax_errors_are_forced_errors_of_the_source_grammar :
  forall K toks M aeval exact_types token_dict aevalP item_name fm rs,
  reads_back_as rs M = true ->
  (forall xs e vs, nodup_s xs = true -> Forall2 (fun x v => env_get e x = Some v) xs vs ->
     aeval (default_text xs) e = Some (match vs with [v] => v | _ => VList vs end)) ->
  (forall e v vs, env_get e "elem" = Some v -> env_get e "seq" = Some (VList vs) -> aeval "[elem] + seq" e = Some (VList (v :: vs))) ->
  (forall s t, In t toks -> is_kind2 s = false -> expect_test K exact_types token_dict s t = String.eqb (tstr t) s) ->
  (forall s t, In t toks -> is_kind2 s = true -> expect_test K exact_types token_dict s t = kind2_test K M s t) ->
  forall fuel n st ea t st', find_rule rs n <> None ->
  run K toks false false M aeval exact_types token_dict fuel n st = (Raise (XSyntaxError ea t), st') ->
  exists msg q, peg_item K rs toks (i_keywords M) (i_soft_keywords M) aevalP item_name (fun _ => fm) (NameLeaf n) (pos st) (PErr msg q).
Proof. exact run_raise_agrees_with_source. Qed.
Print Assumptions C01_syntax_errors_are_forced_errors_of_the_source_grammar.

Theorem C01_syntax_errors_with_cache_are_forced_errors_of_the_source_grammar :
  forall K toks M aeval exact_types token_dict aevalP item_name fm rs,
  reads_back_as rs M = true -> no_left_rec M = true -> no_wi M = true ->
  (forall xs e vs, nodup_s xs = true -> Forall2 (fun x v => env_get e x = Some v) xs vs ->
     aeval (default_text xs) e = Some (match vs with [v] => v | _ => VList vs end)) ->
  (forall e v vs, env_get e "elem" = Some v -> env_get e "seq" = Some (VList vs) -> aeval "[elem] + seq" e = Some (VList (v :: vs))) ->
  (forall s t, In t toks -> is_kind2 s = false -> expect_test K exact_types token_dict s t = String.eqb (tstr t) s) ->
  (forall s t, In t toks -> is_kind2 s = true -> expect_test K exact_types token_dict s t = kind2_test K M s t) ->
  forall fuel n st ea t st', find_rule rs n <> None -> cache st = [] ->
  fst (run K toks false false M aeval exact_types token_dict fuel n st) <> OutOfFuel ->
  run K toks false true M aeval exact_types token_dict fuel n st = (Raise (XSyntaxError ea t), st') ->
  exists msg q, peg_item K rs toks (i_keywords M) (i_soft_keywords M) aevalP item_name (fun _ => fm) (NameLeaf n) (pos st) (PErr msg q).
Proof. exact cached_run_raise_agrees_with_source. Qed.
Print Assumptions C01_syntax_errors_with_cache_are_forced_errors_of_the_source_grammar.

(* Corollary, with C01_reference_semantics_deterministic: for grammars in the class, what the method of a rule returns at a
   position is a function of the grammar and the tokens -- two returning runs from states at the same position, with any
   amounts of fuel and whatever else the states hold, give the same value and the same end position. *)
Theorem C01_result_is_determined_by_grammar_and_input :
  forall K toks M aeval exact_types token_dict rs,
  reads_back_as rs M = true ->
  (forall xs e vs, nodup_s xs = true -> Forall2 (fun x v => env_get e x = Some v) xs vs ->
     aeval (default_text xs) e = Some (match vs with [v] => v | _ => VList vs end)) ->
  (forall e v vs, env_get e "elem" = Some v -> env_get e "seq" = Some (VList vs) -> aeval "[elem] + seq" e = Some (VList (v :: vs))) ->
  (forall s t, In t toks -> is_kind2 s = false -> expect_test K exact_types token_dict s t = String.eqb (tstr t) s) ->
  (forall s t, In t toks -> is_kind2 s = true -> expect_test K exact_types token_dict s t = kind2_test K M s t) ->
  forall f1 f2 n s1 s2 v1 v2 s1' s2', find_rule rs n <> None -> pos s1 = pos s2 ->
  run K toks false false M aeval exact_types token_dict f1 n s1 = (Ok v1, s1') ->
  run K toks false false M aeval exact_types token_dict f2 n s2 = (Ok v2, s2') ->
  v1 = v2 /\ pos s1' = pos s2'.
Proof. exact results_determined. Qed.
Print Assumptions C01_result_is_determined_by_grammar_and_input.

(* Non-vacuity: a grammar with a gather, an optional group, `[x]`, a one-or-more and a zero-or-more repetition; the
   module the generator model emits for it has five helper methods and reads back as the grammar. *)
Definition ni02 (k : N) (i : item) := NItem k None None i.
Definition g02 : grammar :=
  {| rules :=
       [{| rname := "start"; rtype := None; rmemo := false;
           rrhs := Rhs 1 [Alt [ni02 2 (Gather 3 (StringLeaf "','") (NameLeaf "item")); ni02 4 (NameLeaf "NEWLINE")] None] |};
        {| rname := "item"; rtype := None; rmemo := false;
           rrhs := Rhs 5 [Alt [ni02 6 (NameLeaf "NAME"); ni02 7 (Opt (Group (Rhs 8 [Alt [ni02 9 (StringLeaf "'='"); ni02 10 (NameLeaf "NUMBER")] None])))] None;
                          Alt [ni02 11 (Repeat1 12 (NameLeaf "NUMBER"))] None;
                          Alt [ni02 13 (StringLeaf "'('"); ni02 14 (Opt (RhsItem (Rhs 15 [Alt [ni02 16 (NameLeaf "item")] None]))); ni02 17 (StringLeaf "')'");
                               ni02 18 (Repeat0 19 (NameLeaf "STRING"))] None] |}];
     metas := [] |}.
Example C01_source_example :
  match generate [] [] "" "" "g" 100 g02 {| a_nullable := []; a_item_nullable := [7%N; 14%N; 18%N]; a_graph := []; a_left_rec := []; a_leaders := [] |} with
  | inl M => reads_back_as (rules g02) M = true /\ no_left_rec M = true /\ no_wi M = true /\
             map m_name (i_meths M) = ["start"; "item"; "_loop0_2"; "_gather_1"; "_tmp_3"; "_loop1_4"; "_loop0_5"]
  | inr _ => False
  end.
Proof. vm_compute. repeat split; reflexivity. Qed.
Print Assumptions C01_source_example.

(* Non-vacuity of the SyntaxError theorems: `start: (NAME &&':')+ NEWLINE` on  a : b NEWLINE  -- the second round of the
   repetition finds no ':' after b, the forced item raises; the module reads back as the grammar. *)
Definition KD01 : kinds := {| kNAME := 1; kNUMBER := 2; kSTRING := 3; kOP := 55; kNEWLINE := 4; kINDENT := 5; kDEDENT := 6;
  kENDMARKER := 0; kTYPE_COMMENT := 59; kFSTRING_START := 61; kFSTRING_MIDDLE := 62; kFSTRING_END := 63; kASYNC := 57; kAWAIT := 56 |}.
Definition mkt01 (k : N) (s : string) (c : nat) : rtok :=
  {| ty := k; tstr := s; sline := 1; scol := c; eline := 1; ecol := c + 1; tline := ""; tspace := false |}.
Definition g03 : grammar :=
  {| rules := [{| rname := "start"; rtype := None; rmemo := false;
                  rrhs := Rhs 1 [Alt [ni02 2 (Repeat1 3 (Group (Rhs 4 [Alt [ni02 5 (NameLeaf "NAME"); ni02 6 (Forced (StringLeaf "':'"))] None])));
                                      ni02 7 (NameLeaf "NEWLINE")] None] |}];
     metas := [] |}.
Example C01_syntax_error_example :
  match generate [] [] "" "" "g" 100 g03 {| a_nullable := []; a_item_nullable := []; a_graph := []; a_left_rec := []; a_leaders := [] |} with
  | inl M => reads_back_as (rules g03) M = true /\ no_left_rec M = true /\ no_wi M = true /\
             fst (run KD01 [mkt01 1 "a" 0; mkt01 55 ":" 1; mkt01 1 "b" 2; mkt01 4 "" 3; mkt01 0 "" 4] false true M
                      (fun _ _ => Some VTrue) [] [] 50 "start" init_state)
             = Raise (XSyntaxError "expected" (Some (mkt01 4 "" 3)))
  | inr _ => False
  end.
Proof. vm_compute. repeat split; reflexivity. Qed.
Print Assumptions C01_syntax_error_example.

(* ... and END TO END for grammars WITH explicit actions (Proofs/Desugar.v with related actions, Proofs/GenSem.v).  The
   reference semantics of the SOURCE grammar is taken with actions interpreted as Sem/PegEval.v documents them: the action
   text after the generator's substitutions, evaluated by the same evaluator in the environment of the alternative's items
   under the documented names ([src_names]: explicit names, default names of leaves, _1, _2 ... for repeats; only names
   the action uses are bound; a cut is the local `cut` the generated method binds).  [reads_back_with_actions rs M] is decidable: as [reads_back_as], but an alternative with
   an action is related to the alternative read back when the texts agree after substitution and the documented names are,
   position by position, the variables the generator bound.  Under the two hypotheses on explicit actions stated above
   (independence of earlier alternatives' leftovers; never falsy), whenever the method of a rule of rs returns -- or
   raises SyntaxError -- the reference semantics of rs derives exactly that. *)
Theorem C01_generated_parser_implements_the_source_grammar_with_explicit_actions :
  forall K toks M aeval exact_types token_dict fm rs,
  reads_back_with_actions rs M = true ->
  (forall xs e vs, nodup_s xs = true -> Forall2 (fun x v => env_get e x = Some v) xs vs ->
     aeval (default_text xs) e = Some (match vs with [v] => v | _ => VList vs end)) ->
  (forall e v vs, env_get e "elem" = Some v -> env_get e "seq" = Some (VList vs) -> aeval "[elem] + seq" e = Some (VList (v :: vs))) ->
  (forall a, plain_alt M a -> a_explicit a = true -> forall e1 e0,
     (forall x, In x (conj_vars (a_conjs a)) -> env_get e1 x <> None) -> aeval (a_action a) (e1 ++ e0)%list = aeval (a_action a) e1) ->
  (forall a, plain_alt M a -> a_explicit a = true -> forall e v, aeval (a_action a) e = Some v -> truthy v = true) ->
  (forall s t, In t toks -> is_kind2 s = false -> expect_test K exact_types token_dict s t = String.eqb (tstr t) s) ->
  (forall s t, In t toks -> is_kind2 s = true -> expect_test K exact_types token_dict s t = kind2_test K M s t) ->
  forall fuel n st, find_rule rs n <> None ->
  (forall v st', run K toks false false M aeval exact_types token_dict fuel n st = (Ok v, st') ->
     exists res, peg_item K rs toks (i_keywords M) (i_soft_keywords M) (src_aeval aeval) src_names (fun _ => fm) (NameLeaf n) (pos st) res /\
                 ((truthy v = true /\ res = PSucc v (pos st')) \/ (v = VNone /\ res = PFail /\ pos st' = pos st))) /\
  (forall ea t st', run K toks false false M aeval exact_types token_dict fuel n st = (Raise (XSyntaxError ea t), st') ->
     exists msg q, peg_item K rs toks (i_keywords M) (i_soft_keywords M) (src_aeval aeval) src_names (fun _ => fm) (NameLeaf n) (pos st) (PErr msg q)).
Proof. exact run_agrees_with_source_actions. Qed.
Print Assumptions C01_generated_parser_implements_the_source_grammar_with_explicit_actions.

(* Grammars with invalid_ rules: the FIRST pass.  With error mode off (every ordinary parse starts that way) the generated
   parser computes exactly what the parser without its guarded alternatives computes (C12_flag_off_equals_parser_without_
   guarded_alternatives), and a *_without_invalid method switches nothing (Proofs/ExecUnwi.v); composed with the theorem above:
   for every grammar rs' that the STRIPPED module ([first_pass_module]: guarded alternatives deleted, those marks removed) reads back as --
   decided per grammar with rs' := the source grammar without the alternatives that mention an invalid_ rule
   ([strip_rules] with the generator's own InvalidNodeVisitor table) -- whenever a rule's method returns or raises
   SyntaxError from a state whose flag is off, that is what the reference semantics of rs' prescribes. *)
From Pegen Require Import Proofs.ExecStrip.
Theorem C01_first_pass_implements_the_grammar_without_its_invalid_alternatives :
  forall K toks M aeval exact_types token_dict fm rs',
  reads_back_with_actions rs' (first_pass_module M) = true ->
  (forall xs e vs, nodup_s xs = true -> Forall2 (fun x v => env_get e x = Some v) xs vs ->
     aeval (default_text xs) e = Some (match vs with [v] => v | _ => VList vs end)) ->
  (forall e v vs, env_get e "elem" = Some v -> env_get e "seq" = Some (VList vs) -> aeval "[elem] + seq" e = Some (VList (v :: vs))) ->
  (forall a, plain_alt (first_pass_module M) a -> a_explicit a = true -> forall e1 e0,
     (forall x, In x (conj_vars (a_conjs a)) -> env_get e1 x <> None) -> aeval (a_action a) (e1 ++ e0)%list = aeval (a_action a) e1) ->
  (forall a, plain_alt (first_pass_module M) a -> a_explicit a = true -> forall e v, aeval (a_action a) e = Some v -> truthy v = true) ->
  (forall s t, In t toks -> is_kind2 s = false -> expect_test K exact_types token_dict s t = String.eqb (tstr t) s) ->
  (forall s t, In t toks -> is_kind2 s = true -> expect_test K exact_types token_dict s t = kind2_test K M s t) ->
  forall fuel n st, find_rule rs' n <> None -> invalid st = false ->
  (forall v st', run K toks false false M aeval exact_types token_dict fuel n st = (Ok v, st') ->
     exists res, peg_item K rs' toks (i_keywords M) (i_soft_keywords M) (src_aeval aeval) src_names (fun _ => fm) (NameLeaf n) (pos st) res /\
                 ((truthy v = true /\ res = PSucc v (pos st')) \/ (v = VNone /\ res = PFail /\ pos st' = pos st))) /\
  (forall ea t st', run K toks false false M aeval exact_types token_dict fuel n st = (Raise (XSyntaxError ea t), st') ->
     exists msg q, peg_item K rs' toks (i_keywords M) (i_soft_keywords M) (src_aeval aeval) src_names (fun _ => fm) (NameLeaf n) (pos st) (PErr msg q)).
Proof. exact first_pass_agrees_with_source. Qed.
Print Assumptions C01_first_pass_implements_the_grammar_without_its_invalid_alternatives.

(* The same for what generated parsers actually run -- the first pass WITH the packrat cache: modules without left-recursive
   leaders, from a state with the flag off and an empty cache, whenever the uncached run terminates within the fuel.
   (Explicit actions, invalid_ rules, repetitions, gathers, lookaheads, cuts, forced items, keywords: all inside; this is the
   widest statement of C01 that is a theorem.) *)
Theorem C01_cached_first_pass_implements_the_grammar_without_its_invalid_alternatives :
  forall K toks M aeval exact_types token_dict fm rs',
  reads_back_with_actions rs' (first_pass_module M) = true -> no_left_rec M = true ->
  (forall xs e vs, nodup_s xs = true -> Forall2 (fun x v => env_get e x = Some v) xs vs ->
     aeval (default_text xs) e = Some (match vs with [v] => v | _ => VList vs end)) ->
  (forall e v vs, env_get e "elem" = Some v -> env_get e "seq" = Some (VList vs) -> aeval "[elem] + seq" e = Some (VList (v :: vs))) ->
  (forall a, plain_alt (first_pass_module M) a -> a_explicit a = true -> forall e1 e0,
     (forall x, In x (conj_vars (a_conjs a)) -> env_get e1 x <> None) -> aeval (a_action a) (e1 ++ e0)%list = aeval (a_action a) e1) ->
  (forall a, plain_alt (first_pass_module M) a -> a_explicit a = true -> forall e v, aeval (a_action a) e = Some v -> truthy v = true) ->
  (forall s t, In t toks -> is_kind2 s = false -> expect_test K exact_types token_dict s t = String.eqb (tstr t) s) ->
  (forall s t, In t toks -> is_kind2 s = true -> expect_test K exact_types token_dict s t = kind2_test K M s t) ->
  forall fuel n st, find_rule rs' n <> None -> invalid st = false -> cache st = [] ->
  fst (run K toks false false M aeval exact_types token_dict fuel n st) <> OutOfFuel ->
  (forall v st', run K toks false true M aeval exact_types token_dict fuel n st = (Ok v, st') ->
     exists res, peg_item K rs' toks (i_keywords M) (i_soft_keywords M) (src_aeval aeval) src_names (fun _ => fm) (NameLeaf n) (pos st) res /\
                 ((truthy v = true /\ res = PSucc v (pos st')) \/ (v = VNone /\ res = PFail /\ pos st' = pos st))) /\
  (forall ea t st', run K toks false true M aeval exact_types token_dict fuel n st = (Raise (XSyntaxError ea t), st') ->
     exists msg q, peg_item K rs' toks (i_keywords M) (i_soft_keywords M) (src_aeval aeval) src_names (fun _ => fm) (NameLeaf n) (pos st) (PErr msg q)).
Proof. exact cached_first_pass_agrees_with_source. Qed.
Print Assumptions C01_cached_first_pass_implements_the_grammar_without_its_invalid_alternatives.

(* The SECOND pass (error mode on; what `parse(..., call_invalid_rules=True)` and the retry after a failed first pass run): a
   guard is then true, and the module behaves as the module with its guards removed (C12_flag_on_equals_parser_without_
   guards, Proofs/ExecUnguard.v; modules without *_without_invalid methods, which switch the flag off while they run).
   Composed with the theorem for explicit actions: from a state whose flag is on, the parser implements the reference
   semantics of the FULL source grammar -- its invalid_ alternatives being ordinary alternatives. *)
From Pegen Require Import Proofs.ExecUnguard.
Theorem C01_second_pass_implements_the_full_grammar :
  forall K toks M aeval exact_types token_dict fm rs,
  reads_back_with_actions rs (unguard_module M) = true -> no_wi_methods M = true ->
  (forall xs e vs, nodup_s xs = true -> Forall2 (fun x v => env_get e x = Some v) xs vs ->
     aeval (default_text xs) e = Some (match vs with [v] => v | _ => VList vs end)) ->
  (forall e v vs, env_get e "elem" = Some v -> env_get e "seq" = Some (VList vs) -> aeval "[elem] + seq" e = Some (VList (v :: vs))) ->
  (forall a, plain_alt (unguard_module M) a -> a_explicit a = true -> forall e1 e0,
     (forall x, In x (conj_vars (a_conjs a)) -> env_get e1 x <> None) -> aeval (a_action a) (e1 ++ e0)%list = aeval (a_action a) e1) ->
  (forall a, plain_alt (unguard_module M) a -> a_explicit a = true -> forall e v, aeval (a_action a) e = Some v -> truthy v = true) ->
  (forall s t, In t toks -> is_kind2 s = false -> expect_test K exact_types token_dict s t = String.eqb (tstr t) s) ->
  (forall s t, In t toks -> is_kind2 s = true -> expect_test K exact_types token_dict s t = kind2_test K M s t) ->
  forall fuel n st, find_rule rs n <> None -> invalid st = true ->
  (forall v st', run K toks false false M aeval exact_types token_dict fuel n st = (Ok v, st') ->
     exists res, peg_item K rs toks (i_keywords M) (i_soft_keywords M) (src_aeval aeval) src_names (fun _ => fm) (NameLeaf n) (pos st) res /\
                 ((truthy v = true /\ res = PSucc v (pos st')) \/ (v = VNone /\ res = PFail /\ pos st' = pos st))) /\
  (forall ea t st', run K toks false false M aeval exact_types token_dict fuel n st = (Raise (XSyntaxError ea t), st') ->
     exists msg q, peg_item K rs toks (i_keywords M) (i_soft_keywords M) (src_aeval aeval) src_names (fun _ => fm) (NameLeaf n) (pos st) (PErr msg q)).
Proof. exact second_pass_agrees_with_source. Qed.
Print Assumptions C01_second_pass_implements_the_full_grammar.

(* Non-vacuity of the explicit-action part: a rule with an explicit action over two of its three items (the third, unused,
   is not bound by the generator) and a parenthesised alternative with its own action: the module is in the fragment. *)
Definition g04 : grammar :=
  {| rules := [{| rname := "start"; rtype := None; rmemo := false;
                  rrhs := Rhs 1 [Alt [NItem 2 (Some "a") None (NameLeaf "NAME"); NItem 3 (Some "b") None (NameLeaf "NUMBER"); NItem 4 None None (NameLeaf "NEWLINE")]
                                      (Some {| atext := "foo(a, b)"; aused := ["foo"; "a"; "b"]; aparses := true |});
                                 Alt [NItem 5 None None (Group (Rhs 6 [Alt [NItem 7 (Some "x") None (NameLeaf "NUMBER")] (Some {| atext := "[x]"; aused := ["x"]; aparses := true |})]));
                                      NItem 8 None None (NameLeaf "NEWLINE")] None] |}];
     metas := [] |}.
Example C01_explicit_action_example :
  match generate [] [] "" "" "g" 100 g04 {| a_nullable := []; a_item_nullable := []; a_graph := []; a_left_rec := []; a_leaders := [] |} with
  | inl M => ir_ok M = true /\ no_explicit M = false /\ reads_back_with_actions (rules g04) M = true /\
             map (fun m => (m_name m, map (fun a => (a_explicit a, a_action a, map cj_var (a_conjs a))) (m_alts m))) (i_meths M) =
             [("start", [(true, "foo(a, b)", [Some "a"; Some "b"; None]); (false, "[_tmp_1, _newline]", [Some "_tmp_1"; Some "_newline"])]);
              ("_tmp_1", [(true, "[x]", [Some "x"])])]
  | inr _ => False
  end.
Proof. vm_compute. repeat split; reflexivity. Qed.
Print Assumptions C01_explicit_action_example.
