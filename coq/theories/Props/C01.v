(* C01 — generated parsers implement the PEG semantics of their grammar (partial). *)
From Coq Require Import List String NArith Bool Arith.
From Pegen Require Import Base.StrUtil Base.Values Grammar.Ast Runtime.Tokenizer Sem.Peg Sem.PegEval Proofs.PegProofs
  Proofs.PegEvalSound.
Import ListNotations.
Open Scope string_scope.

(* The reference semantics is a function: for every grammar, token list, interpretation of actions
   and naming of items, an item at a position has at most one outcome (success with ONE value and
   ONE end position, failure, or a forced-item error). "The parser returns the value the grammar
   prescribes" is therefore a well-defined requirement. *)
Theorem C01_reference_semantics_deterministic :
  forall K rs toks kw soft aeval item_name forced_msg i p r1 r2,
  peg_item K rs toks kw soft aeval item_name forced_msg i p r1 ->
  peg_item K rs toks kw soft aeval item_name forced_msg i p r2 -> r1 = r2.
Proof. intros K rs toks kw soft aeval item_name forced_msg i p r1 r2 H1 H2. exact (peg_item_det K rs toks kw soft aeval item_name forced_msg i p r1 H1 r2 H2). Qed.
Print Assumptions C01_reference_semantics_deterministic.

(* A successful match never ends before it started. *)
Theorem C01_match_never_moves_backwards :
  forall K rs toks kw soft aeval item_name forced_msg i p v p',
  peg_item K rs toks kw soft aeval item_name forced_msg i p (PSucc v p') -> p <= p'.
Proof. intros K rs toks kw soft aeval item_name forced_msg i p v p' H. exact (peg_item_mono K rs toks kw soft aeval item_name forced_msg i p _ H v p' eq_refl). Qed.
Print Assumptions C01_match_never_moves_backwards.

(* The evaluator that every run executes inside Coq on each explored (grammar, input) and compares
   with the real generated parser is SOUND for the reference semantics: whatever it returns for the
   start rule is derivable in the relation (instantiated with the documented naming convention
   [ev_names] and with actions evaluated by [aeval_str] over the named items and the span), and by
   determinism it is the ONLY outcome the semantics allows.  So "real parser = evaluator" on a case
   is "real parser = the reference semantics" on that case. *)
Theorem C01_evaluator_sound :
  forall K rs toks kw soft aeval_str fuel start r,
  peg_eval K rs toks kw soft aeval_str fuel start = Some r ->
  peg_item K rs toks kw soft (ev_aeval K toks aeval_str) ev_names forced_text (NameLeaf start) 0 r
  /\ forall r', peg_item K rs toks kw soft (ev_aeval K toks aeval_str) ev_names forced_text (NameLeaf start) 0 r' -> r' = r.
Proof.
  intros K rs toks kw soft aeval_str fuel start r H. unfold peg_eval in H.
  destruct (ev K rs toks kw soft aeval_str fuel (GItem (NameLeaf start) 0)) as [[r0| |]|] eqn:E; try discriminate.
  injection H as <-. pose proof (ev_sound K rs toks kw soft aeval_str _ _ _ E) as Hs. cbn [sound] in Hs.
  split; [exact Hs|]. intros r' H'. exact (peg_item_det K rs toks kw soft _ _ _ _ _ _ H' _ Hs).
Qed.
Print Assumptions C01_evaluator_sound.
