(* C01 — generated parsers implement the PEG semantics of their grammar (partial). *)
From Coq Require Import List String NArith Bool Arith.
From Pegen Require Import Base.StrUtil Base.Values Grammar.Ast Runtime.Tokenizer Sem.Peg Proofs.PegProofs.
Import ListNotations.
Open Scope string_scope.

(* The reference semantics is a function: for every grammar, token list, interpretation of actions
   and naming of items, an item at a position has at most one outcome (success with ONE value and
   ONE end position, failure, or a forced-item error). "The parser returns the value the grammar
   prescribes" is therefore a well-defined requirement. *)
Theorem C01_reference_semantics_deterministic :
  forall K rs toks kw soft aeval item_name forced_msg i p r1 r2,
  peg_item K rs toks kw soft aeval item_name forced_msg i p r1 ->
  peg_item K rs toks kw soft aeval item_name forced_msg i p r2 -> r1 = r2.
Proof. intros K rs toks kw soft aeval item_name forced_msg i p r1 r2 H1 H2. exact (peg_item_det K rs toks kw soft aeval item_name forced_msg i p r1 H1 r2 H2). Qed.
Print Assumptions C01_reference_semantics_deterministic.

(* A successful match never ends before it started. *)
Theorem C01_match_never_moves_backwards :
  forall K rs toks kw soft aeval item_name forced_msg i p v p',
  peg_item K rs toks kw soft aeval item_name forced_msg i p (PSucc v p') -> p <= p'.
Proof. intros K rs toks kw soft aeval item_name forced_msg i p v p' H. exact (peg_item_mono K rs toks kw soft aeval item_name forced_msg i p _ H v p' eq_refl). Qed.
Print Assumptions C01_match_never_moves_backwards.
