(* C11 — hard keywords are reserved, soft keywords are contextual; literal / token-kind matching. *)
From Coq Require Import List String NArith ZArith Bool Arith.
From Pegen Require Import Base.StrUtil Base.Values Runtime.Tokenizer Sem.Peg Gen.Gen Runtime.Exec Proofs.GenProofs Grammar.Ast Analysis.Literals.
Import ListNotations.
Open Scope string_scope.

(* In every generated parser (every IR module M): the NAME primitive accepts a token exactly when
   it is of kind NAME and its text is not in the module's KEYWORDS table; SOFT_KEYWORD exactly when
   it is of kind NAME and its text is in SOFT_KEYWORDS. *)
Theorem C11_name_excludes_keywords : forall K M t,
  exists test, prim_test K M "name" = Some test /\
  test t = (N.eqb (ty t) (kNAME K) && negb (mem_str (tstr t) (i_keywords M))).
Proof. intros K M t. eexists. split; reflexivity. Qed.
Print Assumptions C11_name_excludes_keywords.

Theorem C11_soft_keyword_membership : forall K M t,
  exists test, prim_test K M "soft_keyword" = Some test /\
  test t = (N.eqb (ty t) (kNAME K) && mem_str (tstr t) (i_soft_keywords M)).
Proof. intros K M t. eexists. split; reflexivity. Qed.
Print Assumptions C11_soft_keyword_membership.

(* A quoted literal whose text is not also the name of a token kind (not a key of
   token.EXACT_TOKEN_TYPES / token.__dict__) matches a token exactly when the token's text is the
   literal. *)
Theorem C11_literal_exact : forall K exact_types token_dict lit t,
  lookupN lit exact_types = None -> lookupN lit token_dict = None ->
  expect_test K exact_types token_dict lit t = String.eqb (tstr t) lit.
Proof.
  intros K ex td lit t H1 H2. unfold expect_test. rewrite H1, H2. cbn.
  destruct (String.eqb (tstr t) lit); cbn; [reflexivity|]. rewrite andb_false_r. reflexivity.
Qed.
Print Assumptions C11_literal_exact.

(* The keyword tables are sorted sets of what the call maker collected (shared with C10). *)
Theorem C11_tables_are_sorted_sets : forall l x, In x (sort_set l) <-> In x l.
Proof. exact sort_set_In. Qed.
Print Assumptions C11_tables_are_sorted_sets.

(* "A word that appears ANYWHERE in the grammar as a single-quoted identifier-like literal": the table
   [hard_keywords g] (a plain traversal, Analysis/Literals.v) contains exactly the unquoted texts of
   the single-quoted identifier-like literals occurring at any depth of any rule; likewise
   [soft_keywords g] for double-quoted ones.  The check compares them with the KEYWORDS /
   SOFT_KEYWORDS tables the REAL generator emits, on every explored grammar. *)
Theorem C11_keyword_tables_are_exactly_the_quoted_words :
  forall (g : grammar) (single : bool) (kw : string),
  In kw (if single then hard_keywords g else soft_keywords g) <->
  exists raw r, In r (rules g) /\ occ_rhs raw (rrhs r) /\ is_kw single raw = true /\ kw = strip_quotes raw.
Proof.
  intros g single kw.
  assert (H : forall b, In kw (sort_set (map strip_quotes (filter (is_kw b) (grammar_lits g)))) <->
                        exists raw r, In r (rules g) /\ occ_rhs raw (rrhs r) /\ is_kw b raw = true /\ kw = strip_quotes raw).
  { intros b. rewrite sort_set_In, in_map_iff. split.
    - intros (raw & <- & Hin). apply filter_In in Hin as [Hin Hk]. apply grammar_lits_spec in Hin as (r & Hr & Ho).
      exists raw, r. auto.
    - intros (raw & r & Hr & Ho & Hk & ->). exists raw. split; [reflexivity|]. apply filter_In. split; [|exact Hk].
      apply grammar_lits_spec. eauto. }
  destruct single; apply H.
Qed.
Print Assumptions C11_keyword_tables_are_exactly_the_quoted_words.

(* REFUTED on the unchanged tree (recorded findings): expect() conflates literal texts and
   token-kind names -- an identifier spelled NEWLINE is accepted where a NEWLINE token is required,
   and the literal 'NUMBER' matches any number token. *)
Definition KD : kinds := {| kNAME := 1; kNUMBER := 2; kSTRING := 3; kOP := 55; kNEWLINE := 4; kINDENT := 5; kDEDENT := 6;
  kENDMARKER := 0; kTYPE_COMMENT := 59; kFSTRING_START := 61; kFSTRING_MIDDLE := 62; kFSTRING_END := 63; kASYNC := 57; kAWAIT := 56 |}.
Definition tk (k : N) (s : string) : rtok := {| ty := k; tstr := s; sline := 1; scol := 0; eline := 1; ecol := 1; tline := ""; tspace := false |}.
Theorem C11_kind_name_refuted :
  expect_test KD [] [("NEWLINE", 4%N); ("NUMBER", 2%N)] "NEWLINE" (tk 1 "NEWLINE") = true /\
  expect_test KD [] [("NEWLINE", 4%N); ("NUMBER", 2%N)] "NUMBER" (tk 2 "42") = true.
Proof. vm_compute. split; reflexivity. Qed.
Print Assumptions C11_kind_name_refuted.

(* ... and the tables the GENERATOR emits are these, for EVERY grammar (Proofs/GenKw.v, Proofs/GenKwSound.v):
   whatever the analysis results and tables, if the repetition / gather / group nodes of the grammar carry
   pairwise distinct identities (they are distinct objects in the implementation; the translator numbers
   them), the KEYWORDS table of the module the generator model emits has exactly the members of
   [hard_keywords g] and SOFT_KEYWORDS exactly those of [soft_keywords g] -- every quoted
   identifier-like literal at any nesting depth is collected (through the call maker's node cache and
   the work list of helper rules, to the end), and nothing else is.  With C11_name_excludes_keywords
   and C11_soft_keyword_membership: in every generated parser NAME refuses exactly the single-quoted
   words of the grammar and SOFT_KEYWORD accepts exactly the double-quoted ones. *)
From Pegen Require Import Analysis.Nullable Proofs.GenKw Proofs.GenKwSound.
Theorem C11_generated_keyword_tables_are_exactly_the_quoted_words :
  forall invalid_tbl iter_fields pre suf file fb g an M,
  ids_distinct g ->
  generate invalid_tbl iter_fields pre suf file fb g an = inl M ->
  (forall w, In w (i_keywords M) <-> In w (hard_keywords g)) /\
  (forall w, In w (i_soft_keywords M) <-> In w (soft_keywords g)).
Proof. exact generated_keyword_tables_are_exact. Qed.
Print Assumptions C11_generated_keyword_tables_are_exactly_the_quoted_words.

(* non-vacuity: keywords hidden in a gather separator, a group alternative, an optional, under a forced item and
   inside a repetition.   start: 'sep'.(a | "soft")+ ['opt'] &&'end' NEWLINE ; a: NAME ; b: ('x' 'inner')* *)
Definition g11 : grammar :=
  {| rules :=
       [{| rname := "start"; rtype := None; rmemo := false;
           rrhs := Rhs 1 [Alt [NItem 2 None None (Gather 3 (StringLeaf "'sep'")
                                   (Group (Rhs 4 [Alt [NItem 5 None None (NameLeaf "a")] None; Alt [NItem 6 None None (StringLeaf """soft""")] None])));
                                NItem 7 None None (Opt (StringLeaf "'opt'"));
                                NItem 8 None None (Forced (StringLeaf "'end'"));
                                NItem 9 None None (NameLeaf "NEWLINE")] None] |};
        {| rname := "a"; rtype := None; rmemo := false; rrhs := Rhs 10 [Alt [NItem 11 None None (NameLeaf "NAME")] None] |};
        {| rname := "b"; rtype := None; rmemo := false;
           rrhs := Rhs 12 [Alt [NItem 13 None None (Repeat0 14 (Group (Rhs 15 [Alt [NItem 16 None None (StringLeaf "'x'");
                                                                                   NItem 17 None None (StringLeaf "'inner'")] None])))] None] |}];
     metas := [] |}.
Example C11_generated_example :
  ids_distinct g11 /\
  match generate [] [] "" "" "g" 100 g11 {| a_nullable := ["b"]; a_item_nullable := [7%N; 13%N]; a_graph := []; a_left_rec := []; a_leaders := [] |} with
  | inl M => i_keywords M = ["end"; "inner"; "opt"; "sep"; "x"] /\ i_soft_keywords M = ["soft"]
  | inr _ => False
  end.
Proof.
  split; [|vm_compute; split; reflexivity].
  intros n1 n2 H1 H2 Hid. vm_compute in H1, H2.
  repeat (destruct H1 as [<-|H1]); repeat (destruct H2 as [<-|H2]); try reflexivity; try (vm_compute in Hid; discriminate Hid); try contradiction.
Qed.
Print Assumptions C11_generated_example.
