(* C17 — a failed generation never damages an existing parser file. *)
From Coq Require Import List String NArith Bool Arith.
From Pegen Require Import Build.FsModel Proofs.FsProofs.
Import ListNotations.
Open Scope string_scope.

(* Whatever the grammar-level outcome, whatever the fault point and kind (exception or process
   kill, any partial write): afterwards the output path holds exactly what it held before, or the
   complete new parser — and the latter only if generation itself succeeded. *)
Theorem C17_old_or_complete : forall old gr f s o tr, build old gr f = (s, o, tr) ->
  target s = target old \/ (exists text, gr = GenOK text /\ target s = Some text).
Proof.
  intros old gr f s o tr H. destruct (build_cases _ _ _ _ _ _ H) as [[H1 _]|(text & H1 & H2 & _)]; eauto.
Qed.
Print Assumptions C17_old_or_complete.

(* Every reported failure (an exception reaches the caller) leaves the output path untouched. *)
Theorem C17_raised_untouched : forall old gr f s tr, build old gr f = (s, Raised, tr) -> target s = target old.
Proof.
  intros old gr f s tr H. destruct (build_cases _ _ _ _ _ _ H) as [[H1 _]|(text & _ & _ & [H2|H2])]; auto; discriminate.
Qed.
Print Assumptions C17_raised_untouched.

(* Success (no fault, generation fine) installs the complete parser and leaves no temporary file. *)
Theorem C17_success_complete : forall old text,
  build old (GenOK text) NoFault = ({| target := Some text; tmp := None |}, Done, [OOpen; OWrite; OClose; OReplace]).
Proof. reflexivity. Qed.
Print Assumptions C17_success_complete.

(* A grammar-level failure performs no file operation at all. *)
Theorem C17_grammar_failure_no_io : forall old f, build old GenFail f = (old, Raised, []).
Proof. reflexivity. Qed.
Print Assumptions C17_grammar_failure_no_io.

(* Non-vacuity: a write that fails half-way keeps the old parser and removes the partial file. *)
Example C17_demo : build {| target := Some "OLD"; tmp := None |} (GenOK "NEWPARSER") (FaultAt 1 Exn 3)
  = ({| target := Some "OLD"; tmp := None |}, Raised, [OOpen; OWrite; OClose; OUnlink]).
Proof. vm_compute. reflexivity. Qed.
Print Assumptions C17_demo.
