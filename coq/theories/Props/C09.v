(* C09 — grammar text and grammar objects round-trip.

   What is proved, for ALL grammars of the readable shapes (every operator, any nesting, names,
   types, actions, memo flag, both rule layouts):
     the reference reader (Meta/Reader.v: the PEG rules of metagrammar.gram transcribed, tied to the
     shipped GrammarParser by the K-read correspondences) applied to the token sequence of the full
     rendering (Meta/PrintToks.v: Grammar/Printer.v's layout decisions, tied to str() and the
     tokenizer by K-print and K-printtok) returns exactly [rt_grammar g] -- the grammar itself with
     the parentheses/brackets the printer adds -- and [rt_grammar g] equals g once redundant
     parentheses are stripped.  Nothing is dropped, merged or re-associated.
   The lexer of action/annotation texts is a parameter [lex]; the hypothesis on each text
   ([text_ok], decidable: Meta/Shape.v) says that the text is what the reader makes of its tokens. *)
From Coq Require Import List String NArith Bool Arith.
From Pegen Require Import Base.StrUtil Grammar.Ast Grammar.Printer
  Meta.Reader Meta.PrintToks Meta.Canon Meta.TargetAtoms Meta.RoundTripDefs Meta.RoundTrip Meta.Strip Meta.Shape Meta.ReaderTotal.
Import ListNotations.
Open Scope string_scope.

Theorem C09_print_then_read :
  forall (lex : string -> list gtok) (g : grammar),
  grammar_ok_b lex g = true ->
  read_grammar (read_fuel (grammar_toks lex g)) (grammar_toks lex g) = Ok (rt_grammar g) []
  /\ strip_rules (rt_grammar g) = strip_rules g.
Proof.
  intros lex g H. destruct (grammar_ok_b_sound lex g H) as [Hne Hall]. split.
  - exact (read_printed_grammar_default lex g Hne Hall).
  - exact (strip_rt_grammar g).
Qed.
Print Assumptions C09_print_then_read.

(* the same for every sufficient amount of fuel (the reader's answer does not depend on it) *)
Theorem C09_print_then_read_any_fuel :
  forall lex g, grammar_ok_b lex g = true ->
  forall f, 6 * List.length (grammar_toks lex g) + 10 <= f ->
  read_grammar f (grammar_toks lex g) = Ok (rt_grammar g) [].
Proof.
  intros lex g H f Hf. destruct (grammar_ok_b_sound lex g H) as [Hne Hall].
  exact (read_printed_grammar lex g Hne Hall f Hf).
Qed.
Print Assumptions C09_print_then_read_any_fuel.

(* The printer writes the postfix optional only for atoms. *)
(* The reference reader is total: with the fuel the checks give it ([read_fuel] = 8 * tokens + 16) it never
   runs out, on ANY token sequence -- so when the K-ref correspondence sees the reference reader say Fail, that
   is a rejection by the transcribed metagrammar rules and never an artefact of the fuel. *)
Theorem C09_reference_reader_total :
  forall ts : list gtok, read_grammar (read_fuel ts) ts <> Fuel.
Proof. exact reader_total. Qed.
Print Assumptions C09_reference_reader_total.

Theorem C09_opt_rendering :
  forall simple j,
  item_str simple (Opt j) = "[" ++ item_str simple j ++ "]"
  \/ (is_atom j = true /\ has_space (item_str simple j) = false
      /\ item_str simple (Opt j) = item_str simple j ++ "?").
Proof.
  intros simple j. cbn [item_str].
  destruct (has_space (item_str simple j)) eqn:Hs; cbn [orb]; [left; reflexivity|].
  destruct j; cbn [negb is_atom]; try (left; reflexivity); right; repeat split; reflexivity.
Qed.
Print Assumptions C09_opt_rendering.

(* ---- the hypotheses are satisfiable: a grammar using every operator, both layouts, a typed memo
   rule, typed and untyped names, nested brackets in an action, a wide repetition (parentheses are
   added by the printer) and a wide optional (printed in brackets) ---- *)
Definition ex_lex (s : string) : list gtok :=
  if String.eqb s "T" then [TName "T"]
  else if String.eqb s "f ( x , [y] )" then [TName "f"; TOp "("; TName "x"; TOp ","; TOp "["; TName "y"; TOp "]"; TOp ")"]
  else if String.eqb s "{1 : z*}" then [TOp "{"; TNum "1"; TOp ":"; TName "z"; TOp "*"; TOp "}"]
  else [].
Definition pl (i : item) : nitem := NItem 0 None None i.
Definition ex_grammar : grammar := {|
  rules := [
    {| rname := "start"; rtype := Some "T"; rmemo := true;
       rrhs := Rhs 1 [Alt [NItem 2 (Some "x") (Some "T") (NameLeaf "a"); pl (Opt (NameLeaf "b"))]
                          (Some {| atext := "f ( x , [y] )"; aused := ["x"]; aparses := true |});
                      Alt [pl (Repeat0 3 (Group (Rhs 4 [Alt [pl (NameLeaf "c"); pl (NameLeaf "d")] None])));
                           pl Cut; pl (NameLeaf "NEWLINE")] None] |};
    {| rname := "other_rule_with_a_long_name"; rtype := None; rmemo := false;
       rrhs := Rhs 5 [Alt [pl (Gather 6 (StringLeaf "','") (NameLeaf "element")); pl (PosLook (NameLeaf "b"));
                           pl (NegLook (StringLeaf "'lit'")); pl (Forced (Group (Rhs 7 [Alt [pl (NameLeaf "p")] None; Alt [pl (NameLeaf "q")] None])))]
                          (Some {| atext := "{1 : z*}"; aused := []; aparses := true |});
                      Alt [pl (Opt (RhsItem (Rhs 8 [Alt [pl (NameLeaf "d"); pl (NameLeaf "e")] None])));
                           NItem 9 (Some "k") None (Repeat1 10 (NameLeaf "w"));
                           pl (Opt (Group (Rhs 11 [Alt [pl (NameLeaf "u"); pl (NameLeaf "v")] None])))] None] |}
  ];
  metas := [] |}.

Example C09_hypotheses_hold : grammar_ok_b ex_lex ex_grammar = true.
Proof. vm_compute. reflexivity. Qed.
Print Assumptions C09_hypotheses_hold.

(* both layouts occur, parentheses and brackets are added, and the reader recovers the structure *)
Example C09_example_layouts :
  map (fun r => Nat.ltb (String.length (one_line r)) 88) (rules ex_grammar) = [true; false].
Proof. vm_compute. reflexivity. Qed.
Print Assumptions C09_example_layouts.
Example C09_example_adds_parentheses :
  grammar_eqb (rt_grammar ex_grammar) (canon_grammar ex_grammar) = false
  /\ list_eqb rule_eqb (strip_rules (rt_grammar ex_grammar)) (strip_rules ex_grammar) = true.
Proof. vm_compute. split; reflexivity. Qed.
Print Assumptions C09_example_adds_parentheses.
Example C09_example_reads :
  match read_grammar (read_fuel (grammar_toks ex_lex ex_grammar)) (grammar_toks ex_lex ex_grammar) with
  | Ok g [] => grammar_eqb g (rt_grammar ex_grammar)
  | _ => false
  end = true.
Proof. vm_compute. reflexivity. Qed.
Print Assumptions C09_example_reads.
