(* C09 — grammar text and grammar objects round-trip (partial: see DESIGN.md; the reader is tied to
   the model by the K-read correspondence, the printer by K-print, the round trip itself is swept
   on the implementation). *)
From Coq Require Import List String NArith Bool Arith.
From Pegen Require Import Base.StrUtil Grammar.Ast Grammar.Printer.
Import ListNotations.
Open Scope string_scope.

Definition is_atom (i : item) : bool :=
  match i with NameLeaf _ | StringLeaf _ | Group _ => true | _ => false end.

(* The printer never writes the postfix form `X?` for an X the reader's `atom '?'` alternative
   could not read back as the operand: every optional prints as `[X]` unless X is an atom whose
   rendering has no space. *)
Theorem C09_partial_opt_rendering :
  forall simple j,
  item_str simple (Opt j) = "[" ++ item_str simple j ++ "]"
  \/ (is_atom j = true /\ has_space (item_str simple j) = false
      /\ item_str simple (Opt j) = item_str simple j ++ "?").
Proof.
  intros simple j. cbn [item_str].
  destruct (has_space (item_str simple j)) eqn:Hs; cbn [orb]; [left; reflexivity|].
  destruct j; cbn [negb is_atom]; try (left; reflexivity); right; repeat split; reflexivity.
Qed.
Print Assumptions C09_partial_opt_rendering.
