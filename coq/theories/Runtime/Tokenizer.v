(* Model of src/pegen/tokenizer.py (class Tokenizer) as a state machine over a raw token list.
   The raw list stands for what the wrapped tokenize generator will yield. *)
From Coq Require Import List String Ascii NArith Bool Arith.
From Pegen Require Import Base.StrUtil.
Import ListNotations.
Open Scope string_scope.

Record rtok := {
  ty : N;                 (* tok.type *)
  tstr : string;          (* tok.string *)
  sline : nat; scol : nat;  (* tok.start *)
  eline : nat; ecol : nat;  (* tok.end *)
  tline : string;         (* tok.line *)
  tspace : bool           (* tok.string.isspace() *)
}.

(* numeric values of the token kinds the wrapper mentions; extracted from the running Python's
   `token` module on every run (harness/tables.py) *)
Record tokconsts := {
  cNL : N; cCOMMENT : N; cERRORTOKEN : N; cNEWLINE : N; cENDMARKER : N; cDEDENT : N
}.

(* s.splitlines(keepends=True), for text whose only line separator is "\n" *)
Fixpoint splitlines_acc (s : string) (cur : string) : list string :=
  match s with
  | EmptyString => if String.eqb cur "" then [] else [rev_string cur]
  | String c s' =>
      if Ascii.eqb c (ascii_of_nat 10)
      then rev_string (String c cur) :: splitlines_acc s' ""
      else splitlines_acc s' (String c cur)
  end.
Definition splitlines (s : string) : list string := splitlines_acc s "".

(* lines = tok.line.splitlines(keepends=True) or [tok.line] *)
Definition tok_lines (t : rtok) : list string :=
  match splitlines (tline t) with [] => [tline t] | l => l end.

Fixpoint assoc_nat {A} (k : nat) (l : list (nat * A)) : option A :=
  match l with [] => None | (k', v) :: l' => if Nat.eqb k k' then Some v else assoc_nat k l' end.

(* self._lines.setdefault(n, line) *)
Definition setdefault (ls : list (nat * string)) (n : nat) (line : string) : list (nat * string) :=
  match assoc_nat n ls with Some _ => ls | None => ls ++ [(n, line)] end.

Fixpoint record_lines (ls : list (nat * string)) (n : nat) (lines : list string) : list (nat * string) :=
  match lines with
  | [] => ls
  | l :: lines' => record_lines (setdefault ls n l) (S n) lines'
  end.

Record tkz := {
  src : list rtok;                 (* not yet pulled from the generator *)
  pulled : nat;                    (* how many items the generator has been asked for *)
  toks : list rtok;                (* self._tokens *)
  idx : nat;                       (* self._index *)
  lines : list (nat * string);     (* self._lines *)
  hw : nat                         (* ghost: 1 + highest index examined by peek so far *)
}.

Inductive op := Peek | GetNext | Mark | Reset (m : nat) | Diagnose | LastNonWs | GetLines (ls : list nat).
Inductive out :=
| OTok (t : rtok) | ONat (n : nat) | ONone | OLines (l : list string)
| OStop            (* StopIteration from the wrapped generator *)
| OAssert          (* AssertionError in reset *)
| OKeyError | OUnbound | OIndexError | OIOError.

Section Model.
Variable C : tokconsts.
Variable has_path : bool.            (* bool(self._path) *)
Variable file_lines : list string.   (* content of the file at self._path, by lines *)

Definition last_opt (l : list rtok) : option rtok :=
  match rev l with [] => None | t :: _ => Some t end.

(* the three `continue` tests of peek() *)
Definition dropped (prev : option rtok) (t : rtok) : bool :=
  N.eqb (ty t) (cNL C) || N.eqb (ty t) (cCOMMENT C)
  || (N.eqb (ty t) (cERRORTOKEN C) && tspace t)
  || (N.eqb (ty t) (cNEWLINE C) &&
      match prev with Some p => N.eqb (ty p) (cNEWLINE C) | None => false end).

Definition note_lines (ls : list (nat * string)) (t : rtok) : list (nat * string) :=
  if has_path then ls else record_lines ls (sline t) (tok_lines t).

(* the while loop of peek(): returns the new (src, pulled, toks, lines) and whether the loop
   ended normally (false = StopIteration escaped) *)
Fixpoint fetch (s : list rtok) (p : nat) (tk : list rtok) (ls : list (nat * string)) (i : nat)
  : list rtok * nat * list rtok * list (nat * string) * bool :=
  if negb (Nat.eqb i (List.length tk)) then (s, p, tk, ls, true)
  else match s with
       | [] => (s, p, tk, ls, false)           (* next() raises StopIteration *)
       | t :: s' =>
           let ls' := note_lines ls t in
           if dropped (last_opt tk) t then fetch s' (S p) tk ls' i
           else fetch s' (S p) (tk ++ [t]) ls' i
       end.

Definition do_peek (st : tkz) : tkz * out :=
  let '(s, p, tk, ls, ok) := fetch (src st) (pulled st) (toks st) (lines st) (idx st) in
  let st' := {| src := s; pulled := p; toks := tk; idx := idx st; lines := ls;
                hw := Nat.max (hw st) (S (idx st)) |} in
  if ok then match nth_error tk (idx st) with
             | Some t => (st', OTok t)
             | None => (st', OIndexError)
             end
  else (st', OStop).

Definition set_idx (st : tkz) (i : nat) : tkz :=
  {| src := src st; pulled := pulled st; toks := toks st; idx := i; lines := lines st; hw := hw st |}.

Definition is_ws (t : rtok) : bool :=
  (* not (tok.type != ENDMARKER and (tok.type < NEWLINE or tok.type > DEDENT)) *)
  negb (negb (N.eqb (ty t) (cENDMARKER C)) && (N.ltb (ty t) (cNEWLINE C) || N.ltb (cDEDENT C) (ty t))).

(* for tok in reversed(l): if <not ws>: break  -- value of tok afterwards; l given reversed *)
Fixpoint last_non_ws (rl : list rtok) : option rtok :=
  match rl with
  | [] => None
  | t :: rl' => if is_ws t then match last_non_ws rl' with None => Some t | r => r end else Some t
  end.

Fixpoint get_all {A} (f : nat -> option A) (ns : list nat) : option (list A) :=
  match ns with
  | [] => Some []
  | n :: ns' => match f n, get_all f ns' with Some x, Some r => Some (x :: r) | _, _ => None end
  end.

Definition step (st : tkz) (o : op) : tkz * out :=
  match o with
  | Peek => do_peek st
  | GetNext => let '(st', r) := do_peek st in
               match r with OTok t => (set_idx st' (S (idx st')), r) | _ => (st', r) end
  | Mark => (st, ONat (idx st))
  | Reset m => if Nat.eqb m (idx st) then (st, ONone)
               else if Nat.leb m (List.length (toks st)) then (set_idx st m, ONone)
               else (st, OAssert)
  | Diagnose =>
      match toks st with
      | [] => let '(st', r) := do_peek st in
              match r with
              | OTok _ => match last_opt (toks st') with Some t => (st', OTok t) | None => (st', OIndexError) end
              | _ => (st', r)
              end
      | _ => match last_opt (toks st) with Some t => (st, OTok t) | None => (st, OIndexError) end
      end
  | LastNonWs => match last_non_ws (rev (firstn (idx st) (toks st))) with
                 | Some t => (st, OTok t)
                 | None => (st, OUnbound)
                 end
  | GetLines ns =>
      match lines st with
      | _ :: _ => match get_all (fun n => assoc_nat n (lines st)) ns with
                  | Some l => (st, OLines l)
                  | None => (st, OKeyError)
                  end
      | [] => if has_path
              then match get_all (fun n => match n with
                                           | O => None
                                           | S k => match nth_error file_lines k with
                                                    | Some l => Some l
                                                    | None => if Nat.eqb k (List.length file_lines) then Some "" else None
                                                    end
                                           end) ns with
                   | Some l => (st, OLines l)
                   | None => (st, OKeyError)
                   end
              else (st, OIOError)       (* open("") fails *)
      end
  end.

Definition init (raw : list rtok) : tkz :=
  {| src := raw; pulled := 0; toks := []; idx := 0; lines := []; hw := 0 |}.

Fixpoint run (st : tkz) (ops : list op) : tkz * list out :=
  match ops with
  | [] => (st, [])
  | o :: ops' => let '(st1, r) := step st o in
                 let '(st2, rs) := run st1 ops' in (st2, r :: rs)
  end.

(* ---------------- specification: a cursor over the filtered list ---------------- *)
Definition filt_step (acc : list rtok) (t : rtok) : list rtok :=
  if dropped (last_opt acc) t then acc else acc ++ [t].
Definition filt (l : list rtok) : list rtok := fold_left filt_step l [].

End Model.
