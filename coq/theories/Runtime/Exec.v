(* Model of src/pegen/parser.py (memoize, memoize_left_rec, logger, the token primitives, the
   lookahead helpers, expect_forced) together with a big-step interpreter of the IR the generator
   model emits.  Open recursion over the callee ("rec") so that invariants are proved by one
   induction on fuel. *)
From Coq Require Import List String Ascii NArith ZArith Bool Arith.
From Pegen Require Import Base.StrUtil Base.Values Runtime.Tokenizer Sem.Peg Gen.Gen.
Import ListNotations.
Open Scope string_scope.

Inductive exn :=
| XSyntaxError (msg : string) (tok : option rtok)     (* make_syntax_error: at the furthest token fetched *)
| XStopIteration                                      (* peeking beyond the end of the token stream *)
| XNameError (n : string) | XAttributeError (n : string) | XAssertion | XUnbound (n : string).

Inductive outcome := Ok (v : value) | Raise (e : exn) | OutOfFuel.

Definition ckey := (nat * string * option string)%type.      (* (mark, method name, argument of expect) *)
Definition ckey_eqb (a b : ckey) : bool :=
  let '(m1, n1, a1) := a in let '(m2, n2, a2) := b in
  Nat.eqb m1 m2 && String.eqb n1 n2 && option_eqb String.eqb a1 a2.

(* one entry per invocation of a rule method / primitive / lookahead helper *)
Record event := { ev_name : string; ev_before : nat; ev_ok : bool; ev_after : nat; ev_lookahead : bool }.

Record pstate := {
  pos : nat;                                         (* tokenizer._index *)
  fetched : nat;                                     (* len(tokenizer._tokens) *)
  cache : list (ckey * (value * nat));               (* parser._cache *)
  invalid : bool;                                    (* parser.call_invalid_rules *)
  events : list event                                (* ghost: trace, newest first *)
}.

Definition with_pos (st : pstate) (p : nat) : pstate :=
  {| pos := p; fetched := fetched st; cache := cache st; invalid := invalid st; events := events st |}.
Definition with_invalid (st : pstate) (b : bool) : pstate :=
  {| pos := pos st; fetched := fetched st; cache := cache st; invalid := b; events := events st |}.
Definition log (e : event) (st : pstate) : pstate :=
  {| pos := pos st; fetched := fetched st; cache := cache st; invalid := invalid st; events := e :: events st |}.

Fixpoint cache_find (k : ckey) (c : list (ckey * (value * nat))) : option (value * nat) :=
  match c with [] => None | (k', v) :: c' => if ckey_eqb k k' then Some v else cache_find k c' end.
Definition cache_set (k : ckey) (v : value * nat) (st : pstate) : pstate :=
  {| pos := pos st; fetched := fetched st; cache := (k, v) :: cache st; invalid := invalid st; events := events st |}.

Definition R := (outcome * pstate)%type.

Section Exec.
Variable K : kinds.
Variable toks : list rtok.                           (* the filtered token list the tokenizer yields *)
Variable verbose : bool.                             (* parser._verbose *)
Variable use_cache : bool.                           (* false: memoize replaced by the identity (C04's "cache off") *)
Variable M : ir_module.
Variable aeval : string -> env -> option value.      (* value of an action expression in an environment; None: it raises *)
Variable exact_types token_dict : list (string * N). (* token.EXACT_TOKEN_TYPES, token.__dict__ (int entries) *)

(* tokenizer.peek(): fetches up to and including the current position *)
Definition peek (st : pstate) : option rtok * pstate :=
  match nth_error toks (pos st) with
  | Some t => (Some t, {| pos := pos st; fetched := Nat.max (fetched st) (S (pos st)); cache := cache st;
                          invalid := invalid st; events := events st |})
  | None => (None, {| pos := pos st; fetched := List.length toks; cache := cache st; invalid := invalid st;
                      events := events st |})
  end.

(* showpeek() of the verbose wrappers: a peek whose result is only printed *)
Definition showpeek (st : pstate) : R :=
  match peek st with (Some _, st') => (Ok VNone, st') | (None, st') => (Raise XStopIteration, st') end.

(* tok = peek(); if <test>: return getnext(); return None *)
Definition prim_tok (test : rtok -> bool) (st : pstate) : R :=
  match peek st with
  | (Some t, st') => if test t then (Ok (VTok t), with_pos st' (S (pos st'))) else (Ok VNone, st')
  | (None, st') => (Raise XStopIteration, st')
  end.

Definition lookupN (k : string) (l : list (string * N)) : option N :=
  match find (fun kv => String.eqb k (fst kv)) l with Some kv => Some (snd kv) | None => None end.

(* Parser.expect(type) *)
Definition expect_test (arg : string) (t : rtok) : bool :=
  String.eqb (tstr t) arg
  || match lookupN arg exact_types with Some k => N.eqb (ty t) k | None => false end
  || match lookupN arg token_dict with Some k => N.eqb (ty t) k | None => false end
  || (N.eqb (ty t) (kOP K) && String.eqb (tstr t) arg).

Definition prim_test (name : string) : option (rtok -> bool) :=
  if String.eqb name "name" then Some (fun t => N.eqb (ty t) (kNAME K) && negb (mem_str (tstr t) (i_keywords M)))
  else if String.eqb name "number" then Some (fun t => N.eqb (ty t) (kNUMBER K))
  else if String.eqb name "string" then Some (fun t => N.eqb (ty t) (kSTRING K))
  else if String.eqb name "op" then Some (fun t => N.eqb (ty t) (kOP K))
  else if String.eqb name "type_comment" then Some (fun t => N.eqb (ty t) (kTYPE_COMMENT K))
  else if String.eqb name "soft_keyword" then Some (fun t => N.eqb (ty t) (kNAME K) && mem_str (tstr t) (i_soft_keywords M))
  else if String.eqb name "fstring_start" then Some (fun t => N.eqb (ty t) (kFSTRING_START K))
  else if String.eqb name "fstring_middle" then Some (fun t => N.eqb (ty t) (kFSTRING_MIDDLE K))
  else if String.eqb name "fstring_end" then Some (fun t => N.eqb (ty t) (kFSTRING_END K))
  else None.

Definition bind_r (r : R) (k : value -> pstate -> R) : R :=
  match r with (Ok v, st) => k v st | other => other end.

(* the event is logged by the outermost wrapper of every invocation *)
Definition logged (name : string) (la : bool) (f : pstate -> R) (st : pstate) : R :=
  let p0 := pos st in
  match f st with
  | (Ok v, st') => (Ok v, log {| ev_name := name; ev_before := p0; ev_ok := truthy v; ev_after := pos st'; ev_lookahead := la |} st')
  | other => other
  end.

(* parser.memoize *)
Definition memoize (name : string) (arg : option string) (body : pstate -> R) (st : pstate) : R :=
  if negb use_cache then body st else
  let key : ckey := (pos st, name, arg) in
  match cache_find key (cache st) with
  | Some (tree, endmark) =>
      (* fast path (not verbose) and verbose cache-hit path both: reset(endmark); return tree *)
      (Ok tree, with_pos st endmark)
  | None =>
      bind_r (if verbose then showpeek st else (Ok VNone, st)) (fun _ st1 =>
      bind_r (body st1) (fun tree st2 =>
        (Ok tree, cache_set key (tree, pos st2) st2)))
  end.

(* parser.logger *)
Definition logger_wrap (body : pstate -> R) (st : pstate) : R :=
  if negb verbose then body st else bind_r (showpeek st) (fun _ st1 => body st1).

(* parser.memoize_left_rec: prime with failure, grow while the end mark advances *)
Fixpoint grow (fuel : nat) (key : ckey) (mark : nat) (body : pstate -> R)
              (lastresult : value) (lastmark : nat) (st : pstate) : R :=
  match fuel with
  | O => (OutOfFuel, st)
  | S f =>
      bind_r (body (with_pos st mark)) (fun result st1 =>
        let endmark := pos st1 in
        if negb (truthy result) then (Ok lastresult, with_pos st1 lastmark)
        (* the first result counts even if it consumes nothing; after that every round must get further *)
        else if truthy lastresult && Nat.leb endmark lastmark then (Ok lastresult, with_pos st1 lastmark)
        else grow f key mark body result endmark (cache_set key (result, endmark) st1))
  end.

Definition memoize_left_rec (fuel : nat) (name : string) (body : pstate -> R) (st : pstate) : R :=
  let mark := pos st in
  let key : ckey := (mark, name, None) in
  match cache_find key (cache st) with
  | Some (tree, endmark) =>
      (* if tree: reset(endmark)   -- a cached failure leaves the position alone *)
      (Ok tree, if truthy tree then with_pos st endmark else st)
  | None =>
      bind_r (if verbose then showpeek st else (Ok VNone, st)) (fun _ st0 =>
      bind_r (grow fuel key mark body VNone mark (cache_set key (VNone, mark) st0)) (fun tree st1 =>
        (* self._reset(lastmark) done by grow; if tree: endmark = mark() else: endmark = mark; reset(endmark) *)
        let st2 := if truthy tree then st1 else with_pos st1 mark in
        (Ok tree, cache_set key (tree, pos st2) st2)))
  end.

(* make_syntax_error: tok = diagnose() -> the furthest token fetched (fetches one if none yet) *)
Definition diagnose (st : pstate) : option rtok * pstate :=
  match fetched st with
  | O => match peek st with (t, st') => (match t with Some _ => nth_error toks 0 | None => None end, st') end
  | S k => (nth_error toks k, st)
  end.

Section Open.
Variable rec : string -> pstate -> R.      (* call of a generated method, wrappers included *)

Definition find_meth (n : string) : option meth := find (fun m => String.eqb (m_name m) n) (i_meths M).

(* evaluate the Python source of an argument of expect(): a quoted literal, or a bare name *)
Definition py_arg (a : string) : string + string :=
  match a with
  | String c _ => if Ascii.eqb c "'"%char || Ascii.eqb c """"%char then inl (strip_quotes a) else inr a
  | EmptyString => inr a
  end.

Fixpoint run_call (c : call) (st : pstate) : R :=
  match c with
  | CMeth n =>
      match find_meth n with
      | Some _ => rec n st
      | None => match prim_test n with
                | Some test => logged n false (memoize n None (prim_tok test)) st
                | None => (Raise (XAttributeError n), st)
                end
      end
  | CExpect a =>
      match py_arg a with
      | inl s => logged "expect" false (memoize "expect" (Some s) (prim_tok (expect_test s))) st
      | inr n => (Raise (XNameError n), st)
      end
  | CComma c' => bind_r (run_call c' st) (fun v st' => (Ok (VTuple [v]), st'))
  | CTrue => (Ok VTrue, st)
  | CForced c' _ =>
      bind_r (run_call c' st) (fun v st' =>
        match v with
        | VNone => let '(t, st'') := diagnose st' in (Raise (XSyntaxError "expected" t), st'')
        | _ => (Ok v, st')
        end)
  | CLook positive _ _ c' =>
      (* arguments of the helper are evaluated first: for a forced operand that is the inner call *)
      match c' with
      | CForced c'' _ =>
          bind_r (run_call c'' st) (fun v st1 =>
            logged (if positive then "positive_lookahead" else "negative_lookahead") true (fun st1 =>
              match v with
              | VNone => let '(t, st2) := diagnose st1 in (Raise (XSyntaxError "expected" t), st2)
              | _ => (Ok (if positive then v else VFalse), st1)
              end) st1)
      | _ =>
          logged (if positive then "positive_lookahead" else "negative_lookahead") true (fun st =>
            let mark := pos st in
            bind_r (run_call c' st) (fun v st1 =>
              (Ok (if positive then v else (if truthy v then VFalse else VTrue)), with_pos st1 mark))) st
      end
  end.

(* the conjunction of an alternative: `(x := call) and ...`; returns the bound environment *)
Fixpoint run_conjs (cs : list conj) (e : env) (st : pstate) : outcome * env * pstate :=
  match cs with
  | [] => (Ok VTrue, e, st)
  | c :: cs' =>
      match run_call (cj_call c) st with
      | (Ok v, st') =>
          (* `(x := call,)`: the walrus binds the call's value, the 1-tuple around it is what is tested *)
          let bound := match cj_call c, v with CComma _, VTuple [w] => w | _, _ => v end in
          let e' := match cj_var c with Some x => (x, bound) :: e | None => e end in
          let passed := if cj_notnone c then (match v with VNone => false | _ => true end) else truthy v in
          if passed then run_conjs cs' e' st' else (Ok VFalse, e', st')
      | (other, st') => (other, e, st')
      end
  end.

Definition loc_env (start_tok : option rtok) (end_tok : option rtok) (e : env) : env :=
  (match start_tok with
   | Some t => [("start_lineno", VInt (Z.of_nat (sline t))); ("start_col_offset", VInt (Z.of_nat (scol t)))]
   | None => [] end ++
   match end_tok with
   | Some t => [("end_lineno", VInt (Z.of_nat (eline t))); ("end_col_offset", VInt (Z.of_nat (ecol t)))]
   | None => [] end ++ e)%list.

(* tokenizer.get_last_non_whitespace_token() *)
Definition tok_consts : tokconsts :=
  {| cNL := 0; cCOMMENT := 0; cERRORTOKEN := 0; cNEWLINE := kNEWLINE K; cENDMARKER := kENDMARKER K; cDEDENT := kDEDENT K |}.
Definition last_tok (st : pstate) : option rtok := last_non_ws tok_consts (rev (firstn (pos st) toks)).

(* the alternatives of a non-loop method *)
Fixpoint run_alts (m : meth) (mark : nat) (start_tok : option rtok) (prev_invalid : bool) (alts : list ialt) (e0 : env) (st : pstate) : R :=
  match alts with
  | [] => (Ok VNone, if m_without_invalid m then with_invalid st prev_invalid else st)
  | a :: alts' =>
      let restore st := if m_without_invalid m then with_invalid st prev_invalid else st in
      if a_guard a && negb (invalid st)
      then run_alts m mark start_tok prev_invalid alts' e0 (with_pos st mark)   (* self.call_invalid_rules is falsy *)
      else
        (* names bound by earlier alternatives of the same call stay visible: they are locals of the method *)
        match run_conjs (a_conjs a) e0 st with
        | (Ok v, e, st') =>
            if truthy v
            then if a_locations a && (match last_tok st' with None => true | Some _ => false end)
                 then (Raise (XUnbound "tok"), st')        (* get_last_non_whitespace_token() on an empty prefix *)
                 else
                 let e' := if a_locations a then loc_env start_tok (last_tok st') e
                           else (match start_tok with Some _ => loc_env start_tok None e | None => e end) in
                 match aeval (a_action a) e' with
                 | Some v => (Ok v, restore st')
                 | None => (Raise (XNameError (a_action a)), st')
                 end
            else
              let st'' := with_pos st' mark in
              if a_has_cut a && (match env_get e "cut" with Some c => truthy c | None => false end)
              then (Ok VNone, restore st'')
              else run_alts m mark start_tok prev_invalid alts' e st''
        | (other, _, st') => (other, st')
        end
  end.

(* the single alternative of a _loop rule: while (...): children.append(action); mark = self._mark() *)
Fixpoint run_loop (fuel : nat) (m : meth) (a : ialt) (mark : nat) (start_tok : option rtok) (children : list value) (e0 : env) (st : pstate) : R :=
  match fuel with
  | O => (OutOfFuel, st)
  | S f =>
      if a_guard a && negb (invalid st) then (Ok (VList children), with_pos st mark)
      else
      match run_conjs (a_conjs a) e0 st with
      | (Ok v, e, st') =>
          if truthy v
          then if a_locations a && (match last_tok st' with None => true | Some _ => false end)
               then (Raise (XUnbound "tok"), st')
               else
               let e' := if a_locations a then loc_env start_tok (last_tok st') e
                         else (match start_tok with Some _ => loc_env start_tok None e | None => e end) in
               match aeval (a_action a) e' with
               | Some v => run_loop f m a (pos st') start_tok (children ++ [v])%list e st'
               | None => (Raise (XNameError (a_action a)), st')
               end
          else
            let st'' := with_pos st' mark in
            (* has_cut: `if cut: return None` comes after the loop falls through *)
            if a_has_cut a && (match env_get e "cut" with Some c => truthy c | None => false end)
            then (Ok VNone, st'')
            else (Ok (VList children), st'')
      | (other, _, st') => (other, st')
      end
  end.

(* `return children or None` of a one-or-more loop, `return children` of a zero-or-more loop *)
Definition loop_ret (m : meth) (v : value) : value :=
  if is_loop1_name (m_name m) then (if truthy v then v else VNone) else v.

Definition run_body (fuel : nat) (m : meth) (st : pstate) : R :=
  let prev := invalid st in
  let st0 := if m_without_invalid m then with_invalid st false else st in
  let mark := pos st0 in
  let go (start_tok : option rtok) (st1 : pstate) : R :=
    if m_loop m then
      match m_alts m with
      | [a] => match run_loop fuel m a mark start_tok [] [] st1 with
               | (Ok v, st2) => (Ok (loop_ret m v), if m_without_invalid m then with_invalid st2 prev else st2)
               | other => other
               end
      | _ => (Raise XAssertion, st1)
      end
    else run_alts m mark start_tok prev (m_alts m) [] st1 in
  if m_locations m
  then match peek st0 with
       | (Some t, st1) => go (Some t) st1
       | (None, st1) => (Raise XStopIteration, st1)
       end
  else go None st0.

End Open.

(* one generated method with its decorator *)
Definition run_meth (fuel : nat) (rec : string -> pstate -> R) (n : string) (st : pstate) : R :=
  match find_meth n with
  | None => (Raise (XAttributeError n), st)
  | Some m =>
      logged n false
        (match m_deco m with
         | DMemo => memoize n None (run_body rec fuel m)
         | DMemoLeftRec => memoize_left_rec fuel n (run_body rec fuel m)
         | DLogger => logger_wrap (run_body rec fuel m)
         end) st
  end.

Fixpoint run (fuel : nat) (n : string) (st : pstate) : R :=
  match fuel with
  | O => (OutOfFuel, st)
  | S f => run_meth f (run f) n st
  end.

Definition init_state : pstate := {| pos := 0; fetched := 0; cache := []; invalid := false; events := [] |}.

End Exec.
