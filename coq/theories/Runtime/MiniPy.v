(* A small evaluator for the action expressions used by the correspondence cases. *)
From Coq Require Import List String ZArith Bool.
From Pegen Require Import Base.StrUtil Base.Values Runtime.Tokenizer.
Import ListNotations.
Open Scope string_scope.
Notation "x |> f" := (f x) (at level 70, only parsing).

Inductive aexp :=
| AName (x : string)
| ANone | ATrue | AFalse
| AInt (z : Z) | AStr (s : string)
| AList (l : list aexp) | ATuple (l : list aexp)
| AAdd (a b : aexp)
| AOr (a b : aexp) | AAnd (a b : aexp)
| ACall (f : string) (args : list aexp)       (* positional and keyword values, in source order *)
| AAttr (a : aexp) (field : string)
| AIndex (a : aexp) (k : nat)               (* a[k] with a constant index *)
| AJoin (sep : string) (a : aexp)           (* "sep".join(a) *)
| AUnknown.

(* None = the evaluation raises (NameError for an unbound name, TypeError, AttributeError) *)
Fixpoint aev (a : aexp) (e : env) : option value :=
  match a with
  | AName x => env_get e x
  | ANone => Some VNone | ATrue => Some VTrue | AFalse => Some VFalse
  | AInt z => Some (VInt z) | AStr s => Some (VStr s)
  | AList l => option_map VList ((fix go (l : list aexp) : option (list value) :=
                 match l with [] => Some [] | x :: l' => match aev x e, go l' with Some v, Some r => Some (v :: r) | _, _ => None end end) l)
  | ATuple l => option_map VTuple ((fix go (l : list aexp) : option (list value) :=
                 match l with [] => Some [] | x :: l' => match aev x e, go l' with Some v, Some r => Some (v :: r) | _, _ => None end end) l)
  | AAdd a b => match aev a e, aev b e with
                | Some (VList x), Some (VList y) => Some (VList (x ++ y))
                | Some (VStr x), Some (VStr y) => Some (VStr (x ++ y))
                | Some (VInt x), Some (VInt y) => Some (VInt (x + y))
                | _, _ => None
                end
  | AOr a b => match aev a e with Some x => if truthy x then Some x else aev b e | None => None end
  | AAnd a b => match aev a e with Some x => if truthy x then aev b e else Some x | None => None end
  | ACall "literal_eval" [x] => match aev x e with Some (VStr q) => Some (VStr (strip_quotes q)) | _ => None end
  | ACall f args => option_map (VObj f) ((fix go (l : list aexp) : option (list value) :=
                 match l with [] => Some [] | x :: l' => match aev x e, go l' with Some v, Some r => Some (v :: r) | _, _ => None end end) args)
  | AAttr a f => match aev a e with
                 | Some (VTok t) => if String.eqb f "string" then Some (VStr (tstr t)) else None
                 | Some (VObj "Rhs" (alts :: _)) => if String.eqb f "alts" then Some alts else None
                 | _ => None
                 end
  | AIndex a k => match aev a e with
                  | Some (VTuple l) | Some (VList l) => nth_error l k
                  | _ => None
                  end
  | AJoin sep a => match aev a e with
                   | Some (VList l) =>
                       (fix go (l : list value) : option string :=
                          match l with
                          | [] => Some ""
                          | [VStr x] => Some x
                          | VStr x :: l' => match go l' with Some r => Some (x ++ sep ++ r) | None => None end
                          | _ => None
                          end) l |> option_map VStr
                   | _ => None
                   end
  | AUnknown => None
  end.

Fixpoint value_eqb (a b : value) : bool :=
  match a, b with
  | VNone, VNone | VTrue, VTrue | VFalse, VFalse => true
  | VInt x, VInt y => Z.eqb x y
  | VStr x, VStr y => String.eqb x y
  | VTok x, VTok y => N.eqb (ty x) (ty y) && String.eqb (tstr x) (tstr y) && Nat.eqb (sline x) (sline y) && Nat.eqb (scol x) (scol y)
  | VList x, VList y | VTuple x, VTuple y =>
      (fix go (l1 l2 : list value) : bool :=
         match l1, l2 with [], [] => true | u :: l1', v :: l2' => value_eqb u v && go l1' l2' | _, _ => false end) x y
  | VObj f x, VObj g y =>
      String.eqb f g &&
      (fix go (l1 l2 : list value) : bool :=
         match l1, l2 with [], [] => true | u :: l1', v :: l2' => value_eqb u v && go l1' l2' | _, _ => false end) x y
  | _, _ => false
  end.

Definition aeval_table (tbl : list (string * aexp)) (text : string) (e : env) : option value :=
  match find (fun kv => String.eqb text (fst kv)) tbl with
  | Some kv => aev (snd kv) e
  | None => None
  end.
