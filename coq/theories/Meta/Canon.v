(* Erasing what the reader does not produce (object ids, the translator's analysis of actions). *)
From Coq Require Import List String Ascii NArith Bool Arith.
From Pegen Require Import Base.StrUtil Grammar.Ast.
From Pegen Require Import Meta.Reader.
Import ListNotations.
Open Scope string_scope.

Fixpoint canon_item (i : item) : item :=
  match i with
  | NameLeaf n => NameLeaf n
  | StringLeaf s => StringLeaf s
  | Group r => Group (canon_rhs r)
  | Opt j => Opt (canon_item j)
  | Repeat0 _ j => Repeat0 0 (canon_item j)
  | Repeat1 _ j => Repeat1 0 (canon_item j)
  | Gather _ s e => Gather 0 (canon_item s) (canon_item e)
  | PosLook j => PosLook (canon_item j)
  | NegLook j => NegLook (canon_item j)
  | Forced j => Forced (canon_item j)
  | Cut => Cut
  | RhsItem r => RhsItem (canon_rhs r)
  end
with canon_rhs (r : rhs) : rhs :=
  match r with Rhs _ alts =>
    Rhs 0 ((fix go (l : list alt) : list alt := match l with [] => [] | a :: l' => canon_alt a :: go l' end) alts)
  end
with canon_alt (a : alt) : alt :=
  match a with Alt items act =>
    Alt ((fix go (l : list nitem) : list nitem := match l with [] => [] | n :: l' => canon_nitem n :: go l' end) items)
        (match act with Some ac => Some (mkact (atext ac)) | None => None end)
  end
with canon_nitem (n : nitem) : nitem :=
  match n with NItem _ name ty i => NItem 0 name ty (canon_item i) end.

Definition canon_rule (r : rule) : rule :=
  {| rname := rname r; rtype := rtype r; rrhs := canon_rhs (rrhs r); rmemo := rmemo r |}.
Definition canon_grammar (g : grammar) : grammar := {| rules := map canon_rule (rules g); metas := metas g |}.

(* decidable equality on the AST (for the correspondence cases) *)
Definition opt_eqb {A} (eqb : A -> A -> bool) (a b : option A) : bool :=
  match a, b with Some x, Some y => eqb x y | None, None => true | _, _ => false end.
Definition action_eqb (a b : action) : bool := String.eqb (atext a) (atext b).
Fixpoint item_eqb (a b : item) : bool :=
  match a, b with
  | NameLeaf x, NameLeaf y | StringLeaf x, StringLeaf y => String.eqb x y
  | Group r, Group s | RhsItem r, RhsItem s => rhs_eqb r s
  | Opt x, Opt y | PosLook x, PosLook y | NegLook x, NegLook y | Forced x, Forced y => item_eqb x y
  | Repeat0 _ x, Repeat0 _ y | Repeat1 _ x, Repeat1 _ y => item_eqb x y
  | Gather _ s e, Gather _ s' e' => item_eqb s s' && item_eqb e e'
  | Cut, Cut => true
  | _, _ => false
  end
with rhs_eqb (a b : rhs) : bool :=
  match a, b with Rhs _ l, Rhs _ m =>
    (fix go (l m : list alt) : bool :=
       match l, m with [], [] => true | x :: l', y :: m' => alt_eqb x y && go l' m' | _, _ => false end) l m
  end
with alt_eqb (a b : alt) : bool :=
  match a, b with Alt l x, Alt m y =>
    (fix go (l m : list nitem) : bool :=
       match l, m with [], [] => true | x :: l', y :: m' => nitem_eqb x y && go l' m' | _, _ => false end) l m
    && opt_eqb action_eqb x y
  end
with nitem_eqb (a b : nitem) : bool :=
  match a, b with NItem _ n t i, NItem _ n' t' i' =>
    opt_eqb String.eqb n n' && opt_eqb String.eqb t t' && item_eqb i i'
  end.
Definition rule_eqb (a b : rule) : bool :=
  String.eqb (rname a) (rname b) && opt_eqb String.eqb (rtype a) (rtype b) && rhs_eqb (rrhs a) (rrhs b)
  && Bool.eqb (rmemo a) (rmemo b).
Definition grammar_eqb (a b : grammar) : bool :=
  list_eqb rule_eqb (rules a) (rules b)
  && list_eqb (fun x y => String.eqb (fst x) (fst y) && opt_eqb String.eqb (snd x) (snd y)) (metas a) (metas b).

Definition gtok_eqb (a b : gtok) : bool :=
  match a, b with
  | TName x, TName y | TStr x, TStr y | TNum x, TNum y | TOp x, TOp y
  | TFStart x, TFStart y | TFMid x, TFMid y | TFEnd x, TFEnd y | TOther x, TOther y => String.eqb x y
  | TNl, TNl | TIndent, TIndent | TDedent, TDedent | TEnd, TEnd => true
  | _, _ => false
  end.
