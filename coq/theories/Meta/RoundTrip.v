(* Round trip print -> tokens -> read: proofs. *)
From Coq Require Import List String Ascii NArith Bool Arith Lia.
From Pegen Require Import Base.StrUtil Grammar.Ast Grammar.Induction Grammar.Printer.
From Pegen Require Import Meta.Reader Meta.PrintToks Meta.Canon Meta.TargetAtoms Meta.RoundTripDefs.
Import ListNotations.
Open Scope string_scope.
Open Scope list_scope.

(* ---- unfolding equations ---- *)
Lemma r_atom_S f ts : r_atom (S f) ts =
  match ts with
  | [] => Fail
  | t :: r0 =>
      if is "(" t then
        match r_alts f r0 with
        | Ok l (c :: r) => if is ")" c then Ok (Group (Rhs 0 l)) r else Fail
        | Ok _ [] => Fail
        | Fail => Fail
        | Fuel => Fuel
        end
      else match t with
           | TName n => Ok (NameLeaf n) r0
           | TStr s => Ok (StringLeaf s) r0
           | _ => Fail
           end
  end.
Proof. reflexivity. Qed.

Lemma r_item_S f ts : r_item (S f) ts =
  match ts with
  | [] => Fail
  | t :: r0 =>
      if is "[" t then
        match r_alts f r0 with
        | Ok l (c :: r) => if is "]" c then Ok (Opt (RhsItem (Rhs 0 l))) r else Fail
        | Ok _ [] => Fail
        | Fail => Fail
        | Fuel => Fuel
        end
      else
        match r_atom f ts with
        | Ok a r =>
            match r with
            | t1 :: r1 =>
                if is "?" t1 then Ok (Opt a) r1
                else if is "*" t1 then Ok (Repeat0 0 a) r1
                else if is "+" t1 then Ok (Repeat1 0 a) r1
                else if is "." t1 then
                  match r_atom f r1 with
                  | Ok b (t2 :: r2) => if is "+" t2 then Ok (Gather 0 a b) r2 else Ok a r
                  | Ok _ [] => Ok a r
                  | Fail => Ok a r
                  | Fuel => Fuel
                  end
                else Ok a r
            | [] => Ok a r
            end
        | Fail => Fail
        | Fuel => Fuel
        end
  end.
Proof. reflexivity. Qed.

Lemma r_items_S f ts : r_items (S f) ts =
  match r_named_item f ts with
  | Ok n r => match r_items f r with
              | Ok l r' => Ok (n :: l) r'
              | Fail => Ok [n] r
              | Fuel => Fuel
              end
  | Fail => Fail
  | Fuel => Fuel
  end.
Proof. reflexivity. Qed.

Lemma r_alts_S f ts : r_alts (S f) ts =
  match r_alt f ts with
  | Ok a r =>
      match r with
      | t :: r1 => if is "|" t then
                     match r_alts f r1 with
                     | Ok l r2 => Ok (a :: l) r2
                     | Fail => Ok [a] r
                     | Fuel => Fuel
                     end
                   else Ok [a] r
      | [] => Ok [a] r
      end
  | Fail => Fail
  | Fuel => Fuel
  end.
Proof. reflexivity. Qed.

Lemma r_alt_S f ts : r_alt (S f) ts =
  match r_items f ts with
  | Ok its r =>
      match r with
      | t :: r1 =>
          if is "$" t then
            match r_action r1 with
            | Ok a r2 => Ok (Alt (its ++ [endmarker_item]) (Some (mkact a))) r2
            | Fail => Ok (Alt (its ++ [endmarker_item]) None) r1
            | Fuel => Fuel
            end
          else
            match r_action r with
            | Ok a r2 => Ok (Alt its (Some (mkact a))) r2
            | Fail => Ok (Alt its None) r
            | Fuel => Fuel
            end
      | [] => Ok (Alt its None) r
      end
  | Fail => Fail
  | Fuel => Fuel
  end.
Proof. reflexivity. Qed.

Definition unnamed_alts (f : nat) (ts : list gtok) : res nitem :=
  match r_item f ts with
  | Ok i r => Ok (plain i) r
  | Fuel => Fuel
  | Fail =>
      match ts with
      | t1 :: r1 =>
          if is "&" t1 then
            match r1 with
            | t2 :: r2 =>
                if is "&" t2 then
                  match r_atom f r2 with Ok a r => Ok (plain (Forced a)) r | Fail => Fail | Fuel => Fuel end
                else match r_atom f r1 with Ok a r => Ok (plain (PosLook a)) r | Fail => Fail | Fuel => Fuel end
            | [] => Fail
            end
          else if is "!" t1 then
            match r_atom f r1 with Ok a r => Ok (plain (NegLook a)) r | Fail => Fail | Fuel => Fuel end
          else if is "~" t1 then Ok (plain Cut) r1
          else Fail
      | [] => Fail
      end
  end.

Definition named_alt (f : nat) (ts : list gtok) (x : string) (r : list gtok) : res nitem :=
  match r with
  | t :: r2 => if is "=" t then
                 match r_item f r2 with
                 | Ok i r3 => Ok (NItem 0 (Some x) None i) r3
                 | Fail => Fail
                 | Fuel => Fuel
                 end
               else unnamed_alts f ts
  | [] => unnamed_alts f ts
  end.

Lemma r_named_item_S f ts : r_named_item (S f) ts =
  match ts with
  | TName x :: r =>
      match r_annotation r with
      | Ok ann (t :: r2) =>
          if is "=" t then
            match r_item f r2 with
            | Ok i r3 => Ok (NItem 0 (Some x) (Some ann) i) r3
            | Fail => Fail
            | Fuel => Fuel
            end
          else named_alt f ts x r
      | Ok _ [] => named_alt f ts x r
      | Fail => named_alt f ts x r
      | Fuel => Fuel
      end
  | _ => unnamed_alts f ts
  end.
Proof. reflexivity. Qed.

(* ---- words ---- *)
Lemma is_name lit x : word_ok x -> mem_str lit OPS = true -> is lit (TName x) = false.
Proof.
  unfold word_ok, mem_str, is. cbn [tstring]. intros Hx Hl.
  destruct (String.eqb_spec x lit) as [->|]; [|reflexivity]. rewrite Hx in Hl. discriminate.
Qed.
Lemma is_str lit x : word_ok x -> mem_str lit OPS = true -> is lit (TStr x) = false.
Proof. exact (is_name lit x). Qed.

Ltac words := rewrite ?is_name, ?is_str by (first [assumption | reflexivity]).

Section RT.
Variable lex : string -> list gtok.
Notation item_toks := (item_toks lex).
Notation rhs_toks := (rhs_toks lex).
Notation alt_toks := (alt_toks lex).
Notation nitem_toks := (nitem_toks lex).
Notation text_ok := (text_ok lex).
Notation atom_ok := (atom_ok lex).
Notation item_ok := (item_ok lex).
Notation rhs_ok := (rhs_ok lex).
Notation alt_ok := (alt_ok lex).
Notation nitem_ok := (nitem_ok lex).

(* ---- actions and annotations ---- *)
Lemma text_ok_spec a : text_ok a -> ta_spec (lex a) a.
Proof.
  intros (Hb & Hne & Hrun). destruct (ta_bal _ Hb Hne) as [s Hs].
  assert (s = a) as <-; [|exact Hs].
  specialize (Hs (tfuel (lex a ++ [TOp "}"])) "}" [] (or_introl eq_refl)).
  rewrite Hs in Hrun; [congruence|]. unfold tfuel. rewrite app_length. lia.
Qed.

Lemma bracketed_text o c a rest :
  closing c -> text_ok a ->
  r_bracketed o c (TOp o :: lex a ++ TOp c :: rest) = Ok a rest.
Proof.
  intros Hc Ha. unfold r_bracketed, is at 1. cbn [tstring]. rewrite String.eqb_refl.
  rewrite (text_ok_spec a Ha); auto.
  - unfold is. cbn [tstring]. rewrite String.eqb_refl. reflexivity.
  - unfold tfuel. rewrite app_length. lia.
Qed.

Lemma bracketed_other o c t r : is o t = false -> r_bracketed o c (t :: r) = Fail.
Proof. intros H. unfold r_bracketed. rewrite H. reflexivity. Qed.

(* ---- follow sets ---- *)
Lemma fol_cases L rest : fol L rest = true ->
  (exists r, rest = TNl :: r) \/ (exists s r, rest = TOp s :: r /\ In s L).
Proof.
  destruct rest as [|[] r]; cbn [fol]; try discriminate; intros H.
  - right. exists s, r. split; [reflexivity|]. unfold mem_str in H. apply existsb_exists in H as (y & Hy & E).
    apply String.eqb_eq in E. subst. exact Hy.
  - left. eauto.
Qed.

Lemma fol_weaken L L' rest : (forall s, In s L -> In s L') -> fol L rest = true -> fol L' rest = true.
Proof.
  intros Hsub H. destruct (fol_cases _ _ H) as [[r ->]|(s & r & -> & Hin)]; [reflexivity|].
  cbn [fol]. unfold mem_str. apply existsb_exists. exists s. split; [auto|apply String.eqb_refl].
Qed.

Ltac fol_split H :=
  let r := fresh "r" in let s := fresh "s" in let Hin := fresh "Hin" in
  destruct (fol_cases _ _ H) as [[r ->]|(s & r & -> & Hin)];
  [|cbn [In A_alts A_alt A_items] in Hin;
    repeat match type of Hin with _ \/ _ => destruct Hin as [<-|Hin] | False => destruct Hin end].

Lemma item_follow_is lit t r :
  item_follow (t :: r) = true -> mem_str lit ["?"; "*"; "+"; "."; "="] = true -> is lit t = false.
Proof.
  unfold item_follow, is, mem_str. intros H Hl. apply negb_true_iff in H.
  destruct (String.eqb_spec (tstring t) lit) as [E|]; [|reflexivity]. rewrite E in H. rewrite H in Hl. discriminate.
Qed.

Lemma fol_item_follow L rest :
  (forall s, In s L -> In s A_items) -> fol L rest = true -> item_follow rest = true.
Proof.
  intros Hs H. apply (fol_weaken _ A_items) in H; auto. fol_split H; reflexivity.
Qed.

Lemma fol_no_annot L rest :
  (forall s, In s L -> In s A_items) -> fol L rest = true -> no_annot rest.
Proof.
  intros Hs H. apply (fol_weaken _ A_items) in H; auto. fol_split H; exact I.
Qed.

(* ---- stopping: nothing that can follow an alternative starts an item ---- *)
Lemma named_item_stop f rest : fol A_items rest = true -> 3 <= f -> r_named_item f rest = Fail.
Proof.
  intros H Hf. destruct f as [|[|[|f]]]; try lia.
  fol_split H; reflexivity.
Qed.

Lemma items_stop f rest : fol A_items rest = true -> 4 <= f -> r_items f rest = Fail.
Proof.
  intros H Hf. destruct f as [|f]; try lia. rewrite r_items_S, named_item_stop; auto. lia.
Qed.

(* ---- first tokens ---- *)
Definition starter_atom (t : gtok) : Prop :=
  (exists x, t = TName x /\ word_ok x) \/ (exists x, t = TStr x /\ word_ok x) \/ t = TOp "(".

Lemma atom_first j : atom_ok j -> exists t l, item_toks j = t :: l /\ starter_atom t.
Proof.
  destruct j; intros H; try contradiction.
  - exists (TName n), []. split; [reflexivity|]. left. eauto.
  - exists (TStr raw), []. split; [reflexivity|]. right. left. eauto.
  - eexists _, _. split; [apply toks_Group|]. right. right. reflexivity.
Qed.

Lemma starter_is lit t : starter_atom t -> mem_str lit OPS = true -> lit <> "(" -> is lit t = false.
Proof.
  intros [[x [-> Hx]] | [[x [-> Hx]] | -> ]] Hl Hne.
  - apply is_name; auto.
  - apply is_str; auto.
  - unfold is. cbn [tstring]. apply String.eqb_neq. congruence.
Qed.

(* ---- statements ---- *)
Definition P_atom (i : item) : Prop :=
  atom_ok i -> forall f rest, 6 * List.length (item_toks i) + 1 <= f ->
  r_atom f (item_toks i ++ rest) = Ok (rt_item i) rest.
Definition P_item (i : item) : Prop :=
  item_ok i -> forall f rest, 6 * List.length (item_toks i) + 2 <= f -> item_follow rest = true ->
  r_item f (item_toks i ++ rest) = Ok (rt_item i) rest.
Definition P_rhs (r : rhs) : Prop :=
  rhs_ok r -> forall f rest, 6 * List.length (rhs_toks r) + 6 <= f -> fol A_alts rest = true ->
  r_alts f (rhs_toks r ++ rest) = Ok (rhs_alts (rt_rhs r)) rest.
Definition P_alt (a : alt) : Prop :=
  alt_ok a -> forall f rest, 6 * List.length (alt_toks a) + 5 <= f -> fol A_alt rest = true ->
  r_alt f (alt_toks a ++ rest) = Ok (rt_alt a) rest.
Definition P_nitem (n : nitem) : Prop :=
  nitem_ok n -> forall f rest, 6 * List.length (nitem_toks n) + 3 <= f -> item_follow rest = true -> no_annot rest ->
  r_named_item f (nitem_toks n ++ rest) = Ok (rt_nitem n) rest.
Definition P_i (i : item) : Prop :=
  P_atom i /\ P_item i /\
  match i with RhsItem r => P_rhs r | PosLook a | NegLook a | Forced a => P_atom a | _ => True end.

Lemma rt_rhs_eta r : Rhs 0 (rhs_alts (rt_rhs r)) = rt_rhs r.
Proof. destruct r. reflexivity. Qed.

Lemma app_cons_assoc {A} (l : list A) c rest : ((l ++ [c]) ++ rest = l ++ c :: rest)%list.
Proof. rewrite <- app_assoc. reflexivity. Qed.

Lemma item_tail f a rest :
  item_follow rest = true ->
  match rest with
  | t1 :: r1 =>
      if is "?" t1 then Ok (Opt a) r1
      else if is "*" t1 then Ok (Repeat0 0 a) r1
      else if is "+" t1 then Ok (Repeat1 0 a) r1
      else if is "." t1 then
        match r_atom f r1 with
        | Ok b (t2 :: r2) => if is "+" t2 then Ok (Gather 0 a b) r2 else Ok a rest
        | Ok _ [] => Ok a rest
        | Fail => Ok a rest
        | Fuel => Fuel
        end
      else Ok a rest
  | [] => Ok a rest
  end = Ok a rest.
Proof.
  intros Hfol. destruct rest as [|t1 r1]; [reflexivity|].
  rewrite !(item_follow_is _ _ _ Hfol) by reflexivity. reflexivity.
Qed.

Lemma item_of_atom i : atom_ok i -> P_atom i -> forall f rest,
  6 * List.length (item_toks i) + 2 <= f -> item_follow rest = true ->
  r_item f (item_toks i ++ rest) = Ok (rt_item i) rest.
Proof.
  intros Hok Ha f rest Hf Hfol. destruct (atom_first i Hok) as (t & l & Htoks & Hst).
  destruct f; [lia|]. rewrite r_item_S. rewrite Htoks at 1. cbn [app].
  rewrite (starter_is "[" t Hst) by (reflexivity || discriminate).
  rewrite Ha by (auto; lia). apply item_tail. exact Hfol.
Qed.

Definition postfix (op : string) (a : item) : item :=
  if String.eqb op "?" then Opt a else if String.eqb op "*" then Repeat0 0 a else Repeat1 0 a.

Lemma item_postfix j op : atom_ok j -> P_atom j -> In op ["?"; "*"; "+"] -> forall f rest,
  6 * List.length (item_toks j) + 2 <= f ->
  r_item f (item_toks j ++ TOp op :: rest) = Ok (postfix op (rt_item j)) rest.
Proof.
  intros Hok Ha Hop f rest Hf. destruct (atom_first j Hok) as (t & l & Htoks & Hst).
  destruct f; [lia|]. rewrite r_item_S. rewrite Htoks at 1. cbn [app].
  rewrite (starter_is "[" t Hst) by (reflexivity || discriminate).
  rewrite Ha by (auto; lia).
  cbn [In] in Hop. destruct Hop as [<-|[<-|[<-|[]]]]; reflexivity.
Qed.

(* ---- named_item on an unnamed item ---- *)
Definition plain_start (ts : list gtok) : Prop :=
  match ts with
  | TName x :: r => no_annot r /\ match r with t :: _ => is "=" t = false | [] => True end
  | _ => True
  end.

Lemma named_unnamed f ts : plain_start ts -> r_named_item (S f) ts = unnamed_alts f ts.
Proof.
  intros H. rewrite r_named_item_S. destruct ts as [|t r]; [reflexivity|].
  destruct t; try reflexivity. destruct H as [Hna Heq]. unfold no_annot in Hna.
  assert (Hn : named_alt f (TName s :: r) s r = unnamed_alts f (TName s :: r)).
  { unfold named_alt. destruct r as [|t r2]; [reflexivity|]. rewrite Heq. reflexivity. }
  destruct (r_annotation r) as [ann [|t r2]| |]; auto; [|contradiction].
  rewrite Hna. exact Hn.
Qed.

Lemma unnamed_of_item f ts i r : r_item f ts = Ok i r -> unnamed_alts f ts = Ok (plain i) r.
Proof. intros H. unfold unnamed_alts. rewrite H. reflexivity. Qed.

Lemma no_annot_op s r : s <> "[" -> no_annot (TOp s :: r).
Proof.
  intros H. unfold no_annot, r_annotation. rewrite bracketed_other; [exact I|].
  unfold is. cbn [tstring]. apply String.eqb_neq. exact H.
Qed.

Lemma plain_start_item j rest :
  item_ok j -> item_follow rest = true -> no_annot rest -> plain_start (item_toks j ++ rest).
Proof.
  intros Hok Hfol Hna.
  assert (Hname : forall n, plain_start (TName n :: rest)).
  { intros n. split; [exact Hna|]. destruct rest as [|t r]; [exact I|]. apply (item_follow_is _ _ _ Hfol). reflexivity. }
  assert (Hop : forall n s r, s <> "[" -> s <> "=" -> plain_start (TName n :: TOp s :: r)).
  { intros n s r H1 H2. split; [apply no_annot_op; exact H1|]. unfold is. cbn [tstring]. apply String.eqb_neq. exact H2. }
  assert (Hat : forall a more, atom_ok a -> (forall n, plain_start (TName n :: more)) -> plain_start (item_toks a ++ more)).
  { intros a more Ha Hn. destruct a; try contradiction.
    - rewrite toks_Name. apply Hn.
    - rewrite toks_Str. exact I.
    - rewrite toks_Group. exact I. }
  destruct j; try contradiction.
  - rewrite toks_Name. apply Hname.
  - rewrite toks_Str. exact I.
  - rewrite toks_Group. exact I.
  - rewrite toks_Opt. destruct (wide j || negb (is_atom j)) eqn:E; [exact I|].
    rewrite app_cons_assoc. apply Hat; [|intros n; apply Hop; discriminate].
    destruct j; try contradiction; try exact Hok.
    cbn [is_atom negb] in E. rewrite orb_true_r in E. discriminate.
  - rewrite toks_Rep0. destruct (wide j); [exact I|].
    rewrite app_cons_assoc. apply Hat; [exact Hok|]. intros n. apply Hop; discriminate.
  - rewrite toks_Rep1. destruct (wide j); [exact I|].
    rewrite app_cons_assoc. apply Hat; [exact Hok|]. intros n. apply Hop; discriminate.
  - rewrite toks_Gather. destruct Hok as [Hs He]. rewrite <- app_assoc. cbn [app].
    apply Hat; [exact Hs|]. intros n. apply Hop; discriminate.
Qed.

Lemma named_of_item j : item_ok j -> P_item j -> forall f rest,
  6 * List.length (item_toks j) + 3 <= f -> item_follow rest = true -> no_annot rest ->
  r_named_item f (item_toks j ++ rest) = Ok (plain (rt_item j)) rest.
Proof.
  intros Hok Hi f rest Hf Hfol Hna. destruct f; [lia|].
  rewrite named_unnamed by (apply plain_start_item; auto).
  apply unnamed_of_item. apply Hi; auto. lia.
Qed.
(* atoms *)
Lemma H_name n : P_i (NameLeaf n).
Proof.
  assert (Ha : P_atom (NameLeaf n)).
  { intros Hok f rest Hf. change (word_ok n) in Hok. destruct f; [lia|].
    rewrite r_atom_S, toks_Name. cbn [app]. words. reflexivity. }
  split; [exact Ha|split; [|exact I]].
  intros Hok. apply item_of_atom; auto.
Qed.


Lemma H_str s : P_i (StringLeaf s).
Proof.
  assert (Ha : P_atom (StringLeaf s)).
  { intros Hok f rest Hf. change (word_ok s) in Hok. destruct f; [lia|].
    rewrite r_atom_S, toks_Str. cbn [app]. words. reflexivity. }
  split; [exact Ha|split; [|exact I]].
  intros Hok. apply item_of_atom; auto.
Qed.

(* a parenthesised / bracketed single item *)
Lemma alts_of_item j : item_ok j -> P_item j -> forall c f rest, In c [")"; "]"] ->
  6 * List.length (item_toks j) + 10 <= f ->
  r_alts f (item_toks j ++ TOp c :: rest) = Ok [Alt [plain (rt_item j)] None] (TOp c :: rest).
Proof.
  intros Hok Hi c f rest Hc Hf.
  assert (Hfol : fol A_items (TOp c :: rest) = true).
  { cbn [In] in Hc. destruct Hc as [<-|[<-|[]]]; reflexivity. }
  assert (Hne : c <> "[" /\ c <> "{" /\ c <> "$" /\ c <> "|").
  { cbn [In] in Hc. destruct Hc as [<-|[<-|[]]]; repeat split; discriminate. }
  destruct Hne as (H1 & H2 & H3 & H4).
  destruct f as [|[|[|f]]]; try lia.
  rewrite r_alts_S, r_alt_S, r_items_S.
  rewrite (named_of_item j Hok Hi); [|lia|eapply fol_item_follow; [|exact Hfol]; auto|apply no_annot_op; exact H1].
  rewrite items_stop by (auto; lia).
  assert (E : forall x, x <> c -> is x (TOp c) = false).
  { intros x Hx. unfold is. cbn [tstring]. apply String.eqb_neq. congruence. }
  rewrite (E "$") by congruence. unfold r_action. rewrite bracketed_other by (apply E; congruence).
  rewrite (E "|") by congruence. reflexivity.
Qed.

Lemma H_group r : P_rhs r -> P_i (Group r).
Proof.
  intros Hr.
  assert (Ha : P_atom (Group r)).
  { intros Hok f rest Hf. rewrite ok_Group in Hok. rewrite toks_Group in *. cbn [List.length] in Hf.
    rewrite app_length in Hf. cbn [List.length] in Hf.
    destruct f; [lia|]. rewrite r_atom_S. cbn [app]. rewrite app_cons_assoc.
    change (is "(" (TOp "(")) with true. cbv iota.
    rewrite Hr; [|exact Hok|lia|reflexivity].
    change (is ")" (TOp ")")) with true. cbv iota. rewrite rt_Group, rt_rhs_eta. reflexivity. }
  split; [exact Ha|split; [|exact I]].
  intros Hok. apply item_of_atom; auto.
Qed.

Lemma is_op_eq s : is s (TOp s) = true.
Proof. unfold is. cbn [tstring]. apply String.eqb_refl. Qed.
Lemma is_op_ne a b : a <> b -> is a (TOp b) = false.
Proof. intros H. unfold is. cbn [tstring]. apply String.eqb_neq. congruence. Qed.

Lemma atom_item_ok j : atom_ok j -> item_ok j.
Proof. destruct j; intros H; try contradiction; exact H. Qed.

Lemma opt_ok_inv j : item_ok (Opt j) ->
  (exists r, j = RhsItem r /\ rhs_ok r) \/ (atom_ok j /\ is_atom j = true /\ forall r, j <> RhsItem r).
Proof.
  destruct j; intros H; try contradiction.
  - right. repeat split; try exact H; discriminate.
  - right. repeat split; try exact H; discriminate.
  - right. repeat split; try exact H; discriminate.
  - left. eauto.
Qed.

Lemma rt_Opt_atom j : (forall r, j <> RhsItem r) ->
  rt_item (Opt j) = if wide j then Opt (RhsItem (single (rt_item j))) else Opt (rt_item j).
Proof. intros H. rewrite rt_Opt. destruct j; try reflexivity. destruct (H r eq_refl). Qed.

Lemma H_opt j : P_i j -> P_i (Opt j).
Proof.
  intros (Ha & Hi & Hr). split; [intros []|split; [|exact I]].
  intros Hok f rest Hf Hfol. rewrite toks_Opt in *.
  destruct (opt_ok_inv j Hok) as [(r & -> & Hrok)|(Hj & Hat & Hnr)].
  - cbn [is_atom negb] in *. rewrite orb_true_r in *. rewrite toks_RhsItem in *. rewrite rt_Opt.
    cbn [List.length] in Hf. rewrite app_length in Hf. cbn [List.length] in Hf.
    destruct f; [lia|]. rewrite r_item_S. cbn [app]. rewrite app_cons_assoc, is_op_eq.
    rewrite Hr; [|exact Hrok|lia|reflexivity].
    rewrite is_op_eq, rt_rhs_eta. reflexivity.
  - rewrite Hat in *. cbn [negb] in *. rewrite orb_false_r in *. rewrite rt_Opt_atom by exact Hnr.
    destruct (wide j).
    + cbn [List.length] in Hf. rewrite app_length in Hf. cbn [List.length] in Hf.
      destruct f; [lia|]. rewrite r_item_S. cbn [app]. rewrite app_cons_assoc, is_op_eq.
      rewrite (alts_of_item _ (atom_item_ok _ Hj) Hi) by (cbn; auto; lia). rewrite is_op_eq. reflexivity.
    + rewrite app_length in Hf. cbn [List.length] in Hf.
      rewrite app_cons_assoc, (item_postfix j "?" Hj Ha) by (cbn; auto; lia). reflexivity.
Qed.

Lemma H_rep (C : N -> item -> item) op j :
  (forall id, item_toks (C id j) = if wide j then TOp "(" :: item_toks j ++ [TOp ")"; TOp op] else item_toks j ++ [TOp op]) ->
  (forall id, rt_item (C id j) = postfix op (if wide j then Group (single (rt_item j)) else rt_item j)) ->
  (forall id, atom_ok (C id j) = False) -> (forall id, item_ok (C id j) = atom_ok j) ->
  (forall id, match C id j with RhsItem _ | PosLook _ | NegLook _ | Forced _ => False | _ => True end) ->
  (op = "*" \/ op = "+") ->
  P_i j -> forall id, P_i (C id j).
Proof.
  intros Htoks Hrt Hnoatom Hitem Hnr Hop (Ha & Hi & _) id.
  split; [unfold P_atom; rewrite Hnoatom; intros []|split; [|specialize (Hnr id); destruct (C id j); try exact I; contradiction]].
  unfold P_item. rewrite Hitem, Htoks, Hrt. intros Hok f rest Hf Hfol.
  assert (Hin : In op ["?"; "*"; "+"]) by (destruct Hop as [->| ->]; cbn; auto).
  destruct (wide j).
  - cbn [List.length] in Hf. rewrite app_length in Hf. cbn [List.length] in Hf.
    destruct f as [|[|f]]; try lia. rewrite r_item_S. cbn [app]. rewrite is_op_ne by discriminate.
    rewrite r_atom_S, is_op_eq. rewrite <- app_assoc. cbn [app].
    rewrite (alts_of_item _ (atom_item_ok _ Hok) Hi) by (cbn; auto; lia). rewrite is_op_eq.
    destruct Hop as [->| ->]; reflexivity.
  - rewrite app_length in Hf. cbn [List.length] in Hf.
    rewrite app_cons_assoc, (item_postfix j op Hok Ha) by (auto; lia). reflexivity.
Qed.

Lemma H_rep0 id j : P_i j -> P_i (Repeat0 id j).
Proof.
  intros H. apply (H_rep Repeat0 "*"); auto; reflexivity.
Qed.
Lemma H_rep1 id j : P_i j -> P_i (Repeat1 id j).
Proof.
  intros H. apply (H_rep Repeat1 "+"); auto; reflexivity.
Qed.

Lemma H_gather id s e : P_i s -> P_i e -> P_i (Gather id s e).
Proof.
  intros (Has & _) (Hae & _). split; [intros []|split; [|exact I]].
  intros [Hs He] f rest Hf Hfol. rewrite toks_Gather in *. rewrite rt_Gather.
  rewrite app_length in Hf. cbn [List.length] in Hf. rewrite app_length in Hf. cbn [List.length] in Hf.
  destruct (atom_first s Hs) as (t & l & Htoks & Hst).
  destruct f; [lia|]. rewrite r_item_S. rewrite <- app_assoc. cbn [app]. rewrite app_cons_assoc.
  rewrite Htoks at 1. cbn [app].
  rewrite (starter_is "[" t Hst) by (reflexivity || discriminate).
  rewrite Has by (auto; lia).
  rewrite !is_op_ne by discriminate. rewrite is_op_eq.
  rewrite Hae by (auto; lia). rewrite is_op_eq. reflexivity.
Qed.

Lemma H_pos j : P_i j -> P_i (PosLook j).
Proof. intros (Ha & _). split; [intros []|split; [intros []|exact Ha]]. Qed.
Lemma H_neg j : P_i j -> P_i (NegLook j).
Proof. intros (Ha & _). split; [intros []|split; [intros []|exact Ha]]. Qed.
Lemma H_forced j : P_i j -> P_i (Forced j).
Proof. intros (Ha & _). split; [intros []|split; [intros []|exact Ha]]. Qed.
Lemma H_cut : P_i Cut.
Proof. split; [intros []|split; [intros []|exact I]]. Qed.

Lemma H_rhsitem r : P_rhs r -> P_i (RhsItem r).
Proof. intros H. split; [intros []|split; [intros []|exact H]]. Qed.

(* ---- printed token lists are bracket-balanced ---- *)
Lemma all_Forall {A} (P Q : A -> Prop) l : Forall Q l -> all P l -> Forall (fun x => P x /\ Q x) l.
Proof. induction 1 as [|x l Hx Hl IH]; intros H; [constructor|]. destruct H. constructor; auto. Qed.

Lemma leaf_name x : word_ok x -> leaf (TName x) = true.
Proof.
  intros H. cbn [leaf]. unfold is_bracket.
  assert (E : forall lit, mem_str lit OPS = true -> String.eqb x lit = false).
  { intros lit Hl. exact (is_name lit x H Hl). }
  rewrite !E by reflexivity. reflexivity.
Qed.
Lemma leaf_str x : word_ok x -> leaf (TStr x) = true.
Proof. exact (leaf_name x). Qed.

Lemma bal_wrap o l : bal l -> is_bracket o = false -> forall c, is_bracket c = false -> bal (TOp o :: l ++ [TOp c]).
Proof.
  intros Hl Ho c Hc. apply bal_leaf; [cbn [leaf]; rewrite Ho; reflexivity|].
  apply bal_app; [exact Hl|]. apply bal_leaf; [cbn [leaf]; rewrite Hc; reflexivity|constructor].
Qed.
Lemma bal_op s : is_bracket s = false -> bal [TOp s].
Proof. intros H. apply bal_leaf; [cbn [leaf]; rewrite H; reflexivity|constructor]. Qed.
Lemma bal_brackets l : bal l -> bal (TOp "[" :: l ++ [TOp "]"]).
Proof. intros H. apply (bal_brack l []); [exact H|constructor]. Qed.
Lemma bal_braces l : bal l -> bal (TOp "{" :: l ++ [TOp "}"]).
Proof. intros H. apply (bal_brace l []); [exact H|constructor]. Qed.

Definition B_i (i : item) : Prop :=
  (atom_ok i -> bal (item_toks i)) /\ (item_ok i -> bal (item_toks i)) /\
  match i with
  | RhsItem r => rhs_ok r -> bal (rhs_toks r)
  | PosLook a | NegLook a | Forced a => atom_ok a -> bal (item_toks a)
  | _ => True
  end.

Lemma bal_all :
  (forall i, B_i i) /\ (forall r, rhs_ok r -> bal (rhs_toks r)) /\ (forall a, alt_ok a -> bal (alt_toks a))
  /\ (forall n, nitem_ok n -> bal (nitem_toks n)).
Proof.
  apply grammar_ast_ind.
  - intros n. repeat split; try exact I; intros H; rewrite toks_Name; apply bal_leaf; try constructor; apply leaf_name; exact H.
  - intros n. repeat split; try exact I; intros H; rewrite toks_Str; apply bal_leaf; try constructor; apply leaf_str; exact H.
  - intros r Hr. repeat split; try exact I; intros H; rewrite toks_Group; apply bal_wrap; auto.
  - intros j (Ha & Hi & Hr). split; [intros []|split; [|exact I]]. intros Hok. rewrite toks_Opt.
    destruct (opt_ok_inv j Hok) as [(r & -> & Hrok)|(Hj & Hat & Hnr)].
    + cbn [is_atom negb]. rewrite orb_true_r. apply bal_brackets. rewrite toks_RhsItem. auto.
    + destruct (wide j || negb (is_atom j)); [apply bal_brackets; auto|].
      apply bal_app; [auto|apply bal_op; reflexivity].
  - intros id j (Ha & Hi & Hr). split; [intros []|split; [|exact I]]. intros Hok. rewrite toks_Rep0.
    destruct (wide j).
    + apply bal_leaf; [reflexivity|]. apply bal_app; [apply Ha; exact Hok|].
      apply bal_leaf; [reflexivity|apply bal_op; reflexivity].
    + apply bal_app; [apply Ha; exact Hok|apply bal_op; reflexivity].
  - intros id j (Ha & Hi & Hr). split; [intros []|split; [|exact I]]. intros Hok. rewrite toks_Rep1.
    destruct (wide j).
    + apply bal_leaf; [reflexivity|]. apply bal_app; [apply Ha; exact Hok|].
      apply bal_leaf; [reflexivity|apply bal_op; reflexivity].
    + apply bal_app; [apply Ha; exact Hok|apply bal_op; reflexivity].
  - intros id s e (Has & _) (Hae & _). split; [intros []|split; [|exact I]]. intros [Hs He]. rewrite toks_Gather.
    apply bal_app; [auto|]. apply bal_leaf; [reflexivity|]. apply bal_app; [auto|apply bal_op; reflexivity].
  - intros j (Ha & _). split; [intros []|split; [intros []|exact Ha]].
  - intros j (Ha & _). split; [intros []|split; [intros []|exact Ha]].
  - intros j (Ha & _). split; [intros []|split; [intros []|exact Ha]].
  - split; [intros []|split; [intros []|exact I]].
  - intros r Hr. split; [intros []|split; [intros []|exact Hr]].
  - intros id alts Hall Hok. rewrite ok_Rhs in Hok. destruct Hok as [_ Hok]. rewrite toks_Rhs.
    induction Hall as [|a l Ha Hl IH]; [constructor|]. destruct Hok as [Hoka Hokl]. cbn [alts_toks].
    apply bal_app; [auto|]. destruct l; [constructor|]. apply bal_leaf; [reflexivity|auto].
  - intros items act Hall Hok. rewrite ok_Alt in Hok. destruct Hok as (_ & Hitems & Hact). rewrite toks_Alt.
    apply bal_app.
    + induction Hall as [|n l Hn Hl IH]; [constructor|]. destruct Hitems as [Hokn Hokl]. cbn [items_toks].
      apply bal_app; auto.
    + unfold act_toks. destruct act as [ac|]; [|constructor]. destruct (String.eqb (atext ac) ""); [constructor|].
      apply bal_braces. destruct Hact as [_ (Hb & _)]. exact Hb.
  - intros id name ty i (Ha & Hi & Hl) Hok. rewrite ok_NItem in Hok. rewrite toks_NItem.
    destruct name as [x|].
    + destruct Hok as (Hx & Hne & Hty & Hitem). destruct (String.eqb x ""); [auto|].
      destruct ty as [t|].
      * apply bal_leaf; [apply leaf_name; exact Hx|]. destruct Hty as (Hb & _).
        cbn [app]. apply (bal_brack (lex t) (TOp "=" :: item_toks i)); [exact Hb|].
        apply bal_leaf; [reflexivity|auto].
      * apply bal_leaf; [apply leaf_name; exact Hx|]. apply bal_leaf; [reflexivity|auto].
    + destruct Hok as [_ Hok]. destruct i; auto.
      * rewrite toks_Pos. apply bal_leaf; [reflexivity|auto].
      * rewrite toks_Neg. apply bal_leaf; [reflexivity|auto].
      * rewrite toks_Forced. apply bal_leaf; [reflexivity|]. apply bal_leaf; [reflexivity|auto].
      * apply bal_op; reflexivity.
Qed.

Lemma bal_atom j : atom_ok j -> bal (item_toks j).
Proof. intros H. destruct (proj1 bal_all j) as (Ha & _). apply Ha. exact H. Qed.
Lemma bal_rhs r : rhs_ok r -> bal (rhs_toks r).
Proof. apply (proj1 (proj2 bal_all)). Qed.

(* ---- the first token of a named item, and what a bare name before it sees ---- *)
Definition neutral (t : gtok) : Prop := mem_str (tstring t) ["?"; "*"; "+"; "."; "="] = false.

Lemma neutral_name x : word_ok x -> neutral (TName x).
Proof.
  intros H. unfold neutral, mem_str. cbn [tstring existsb].
  assert (E : forall lit, mem_str lit OPS = true -> String.eqb x lit = false).
  { intros lit Hl. exact (is_name lit x H Hl). }
  rewrite !E by reflexivity. reflexivity.
Qed.
Lemma neutral_starter t : starter_atom t -> neutral t.
Proof. intros [[x [-> Hx]] | [[x [-> Hx]] | -> ]]; [apply neutral_name; exact Hx|apply (neutral_name x); exact Hx|reflexivity]. Qed.

Definition first_ok (ts : list gtok) : Prop :=
  exists t l, ts = t :: l /\ neutral t /\
  (is "[" t = false \/ exists body, l = body ++ [TOp "]"] /\ bal body).

Lemma first_atom j : atom_ok j -> first_ok (item_toks j).
Proof.
  intros H. destruct (atom_first j H) as (t & l & E & Hs). exists t, l. split; [exact E|].
  split; [apply neutral_starter; exact Hs|]. left. apply starter_is; auto; (reflexivity || discriminate).
Qed.

Lemma first_app ts more : first_ok ts -> is "[" (hd TNl ts) = false -> first_ok (ts ++ more).
Proof.
  intros (t & l & -> & Hn & _) H. cbn [hd] in H. exists t, (l ++ more). repeat split; auto.
Qed.

Lemma first_item j : item_ok j -> first_ok (item_toks j).
Proof.
  intros Hok.
  assert (Hat : forall a more, atom_ok a -> first_ok (item_toks a ++ more)).
  { intros a more Ha. destruct (atom_first a Ha) as (t & l & E & Hs). rewrite E. exists t, (l ++ more).
    split; [reflexivity|]. split; [apply neutral_starter; exact Hs|]. left.
    apply starter_is; auto; (reflexivity || discriminate). }
  destruct j; try contradiction.
  - apply first_atom. exact Hok.
  - apply first_atom. exact Hok.
  - apply first_atom. exact Hok.
  - rewrite toks_Opt. destruct (opt_ok_inv j Hok) as [(r & -> & Hrok)|(Hj & Hat' & Hnr)].
    + cbn [is_atom negb]. rewrite orb_true_r. eexists _, _. split; [reflexivity|]. split; [reflexivity|].
      right. eexists. split; [reflexivity|]. rewrite toks_RhsItem. apply bal_rhs. exact Hrok.
    + destruct (wide j || negb (is_atom j)).
      * eexists _, _. split; [reflexivity|]. split; [reflexivity|]. right. eexists. split; [reflexivity|].
        apply bal_atom. exact Hj.
      * apply Hat. exact Hj.
  - rewrite toks_Rep0. destruct (wide j).
    + eexists _, _. split; [reflexivity|]. split; [reflexivity|]. left. reflexivity.
    + apply Hat. exact Hok.
  - rewrite toks_Rep1. destruct (wide j).
    + eexists _, _. split; [reflexivity|]. split; [reflexivity|]. left. reflexivity.
    + apply Hat. exact Hok.
  - rewrite toks_Gather. apply Hat. apply Hok.
Qed.

Lemma first_nitem n : nitem_ok n -> first_ok (nitem_toks n).
Proof.
  destruct n as [id name ty i]. rewrite ok_NItem, toks_NItem. destruct name as [x|].
  - intros (Hx & Hne & Hty & Hi). apply String.eqb_neq in Hne. rewrite Hne.
    destruct ty; (eexists _, _; split; [reflexivity|]; split; [apply neutral_name; exact Hx|]; left; apply is_name; auto).
  - intros [_ Hok]. destruct i; try (apply first_item; exact Hok).
    + rewrite toks_Pos. eexists _, _. split; [reflexivity|]. split; [reflexivity|]. left. reflexivity.
    + rewrite toks_Neg. eexists _, _. split; [reflexivity|]. split; [reflexivity|]. left. reflexivity.
    + rewrite toks_Forced. eexists _, _. split; [reflexivity|]. split; [reflexivity|]. left. reflexivity.
    + rewrite toks_Cut. eexists _, _. split; [reflexivity|]. split; [reflexivity|]. left. reflexivity.
Qed.

Lemma ctx_first ts more :
  first_ok ts -> item_follow more = true ->
  item_follow (ts ++ more) = true /\ no_annot (ts ++ more).
Proof.
  intros (t & l & -> & Hn & Hb) Hmore. split.
  - cbn [app item_follow]. unfold neutral in Hn. rewrite Hn. reflexivity.
  - unfold no_annot, r_annotation. cbn [app].
    destruct Hb as [Hb|(body & -> & Hbal)]; [rewrite bracketed_other by exact Hb; exact I|].
    unfold r_bracketed. destruct (is "[" t); [|exact I].
    rewrite app_cons_assoc.
    destruct body as [|b body'].
    + cbn [app]. rewrite target_atoms_closer; [exact I|right; reflexivity|unfold tfuel; cbn [List.length]; lia].
    + destruct (ta_bal (b :: body') Hbal) as [s Hs]; [discriminate|].
      rewrite Hs; [|right; reflexivity|unfold tfuel; rewrite app_length; lia].
      rewrite is_op_eq. destruct more as [|m more']; [exact I|].
      apply (item_follow_is _ _ _ Hmore). reflexivity.
Qed.

Lemma ctx_ok ns rest :
  all nitem_ok ns -> fol A_items rest = true ->
  item_follow (items_toks lex ns ++ rest) = true /\ no_annot (items_toks lex ns ++ rest).
Proof.
  intros Hall Hfol. induction ns as [|n ns IH].
  - cbn [items_toks app]. split; [eapply fol_item_follow; [|exact Hfol]; auto|eapply fol_no_annot; [|exact Hfol]; auto].
  - destruct Hall as [Hn Hns]. cbn [items_toks]. rewrite <- app_assoc.
    apply ctx_first; [apply first_nitem; exact Hn|]. apply IH. exact Hns.
Qed.

(* ---- named items ---- *)
Lemma item_fail_op s r f : s <> "[" -> s <> "(" -> 2 <= f -> r_item f (TOp s :: r) = Fail.
Proof.
  intros H1 H2 Hf. destruct f as [|[|f]]; try lia.
  rewrite r_item_S, is_op_ne by congruence. rewrite r_atom_S, is_op_ne by congruence. reflexivity.
Qed.

Lemma H_nitem id name ty i : P_i i -> P_nitem (NItem id name ty i).
Proof.
  intros (Ha & Hi & Hl) Hok f rest Hf Hfol Hna. rewrite ok_NItem in Hok. rewrite toks_NItem in *. rewrite rt_NItem.
  destruct name as [x|].
  - destruct Hok as (Hx & Hne & Hty & Hitem). apply String.eqb_neq in Hne. rewrite Hne in *.
    destruct ty as [t|].
    + cbn [List.length app] in Hf. rewrite app_length in Hf. cbn [List.length app] in Hf.
      destruct f; [lia|]. rewrite r_named_item_S. cbn [app]. rewrite <- app_assoc. cbn [app].
      unfold r_annotation. rewrite bracketed_text by (auto; right; reflexivity).
      rewrite is_op_eq. rewrite Hi by (auto; lia). reflexivity.
    + cbn [List.length app] in Hf.
      destruct f; [lia|]. rewrite r_named_item_S. cbn [app].
      unfold r_annotation. rewrite bracketed_other by (apply is_op_ne; discriminate).
      unfold named_alt. rewrite is_op_eq. rewrite Hi by (auto; lia). reflexivity.
  - destruct Hok as [-> Hok].
    assert (Hgen : item_ok i -> r_named_item f (item_toks i ++ rest) = Ok (NItem 0 None None (rt_item i)) rest).
    { intros Hit. apply named_of_item; auto. }
    destruct i; try (apply Hgen; exact Hok).
    + (* & *)
      rewrite toks_Pos in *. cbn [List.length app] in *. destruct f; [lia|]. rewrite r_named_item_S.
      unfold unnamed_alts. rewrite item_fail_op by (try discriminate; lia). rewrite is_op_eq.
      destruct (atom_first i Hok) as (t & l & E & Hs). rewrite E at 1. cbn [app].
      rewrite (starter_is "&" t Hs) by (reflexivity || discriminate).
      rewrite Hl by (auto; lia). rewrite rt_Pos. reflexivity.
    + (* ! *)
      rewrite toks_Neg in *. cbn [List.length app] in *. destruct f; [lia|]. rewrite r_named_item_S.
      unfold unnamed_alts. rewrite item_fail_op by (try discriminate; lia).
      rewrite is_op_ne by discriminate. rewrite is_op_eq.
      rewrite Hl by (auto; lia). rewrite rt_Neg. reflexivity.
    + (* && *)
      rewrite toks_Forced in *. cbn [List.length app] in *. destruct f; [lia|]. rewrite r_named_item_S.
      unfold unnamed_alts. rewrite item_fail_op by (try discriminate; lia). rewrite !is_op_eq.
      rewrite Hl by (auto; lia). rewrite rt_Forced. reflexivity.
    + (* ~ *)
      rewrite toks_Cut in *. cbn [List.length app] in *. destruct f; [lia|]. rewrite r_named_item_S.
      unfold unnamed_alts. rewrite item_fail_op by (try discriminate; lia).
      rewrite !is_op_ne by discriminate. rewrite is_op_eq. reflexivity.
Qed.

(* ---- sequences of items, alternatives ---- *)
Lemma items_ok items : Forall P_nitem items -> all nitem_ok items -> items <> [] -> forall f rest,
  6 * List.length (items_toks lex items) + 4 <= f -> fol A_items rest = true ->
  r_items f (items_toks lex items ++ rest) = Ok (map rt_nitem items) rest.
Proof.
  induction 1 as [|n ns Hn Hns IH]; intros Hall Hne f rest Hf Hfol; [contradiction|].
  destruct Hall as [Hokn Hokns]. cbn [items_toks map] in *. rewrite app_length in Hf.
  assert (Hlen : 1 <= List.length (nitem_toks n)).
  { destruct (first_nitem n Hokn) as (t & l & E & _). rewrite E. cbn [List.length]. lia. }
  destruct f; [lia|]. rewrite r_items_S. rewrite <- app_assoc.
  destruct (ctx_ok ns rest Hokns Hfol) as [Hf1 Hf2].
  rewrite Hn by (auto; lia).
  destruct ns as [|n2 ns'].
  - cbn [items_toks app map]. rewrite items_stop by (auto; lia). reflexivity.
  - rewrite IH by (auto; try discriminate; lia). reflexivity.
Qed.

Lemma H_alt items act : Forall P_nitem items -> P_alt (Alt items act).
Proof.
  intros Hall Hok f rest Hf Hfol. rewrite ok_Alt in Hok. destruct Hok as (Hne & Hitems & Hact).
  rewrite toks_Alt in *. rewrite rt_Alt. rewrite app_length in Hf.
  destruct f; [lia|]. rewrite r_alt_S. rewrite <- app_assoc.
  assert (Hfol' : fol A_items rest = true) by (eapply fol_weaken; [|exact Hfol]; cbn; tauto).
  unfold act_toks in *. destruct act as [ac|].
  - destruct Hact as [Hane Htext]. apply String.eqb_neq in Hane. rewrite Hane in *. cbn [app].
    rewrite items_ok by (auto; lia). rewrite is_op_ne by discriminate.
    rewrite app_cons_assoc. unfold r_action. rewrite bracketed_text by (auto; left; reflexivity). reflexivity.
  - cbn [app]. rewrite ?app_nil_r in *. rewrite items_ok by (auto; cbn [List.length] in Hf; lia).
    fol_split Hfol; reflexivity.
Qed.

Lemma alts_ok alts : Forall P_alt alts -> all alt_ok alts -> alts <> [] -> forall f rest,
  6 * List.length (alts_toks lex alts) + 6 <= f -> fol A_alts rest = true ->
  r_alts f (alts_toks lex alts ++ rest) = Ok (map rt_alt alts) rest.
Proof.
  induction 1 as [|a l Ha Hl IH]; intros Hall Hne f rest Hf Hfol; [contradiction|].
  destruct Hall as [Hoka Hokl].
  destruct l as [|a2 l'].
  - cbn [alts_toks map] in *. rewrite app_nil_r in *.
    destruct f; [lia|]. rewrite r_alts_S.
    rewrite Ha; [|exact Hoka|lia|eapply fol_weaken; [|exact Hfol]; cbn; tauto].
    fol_split Hfol; reflexivity.
  - assert (E : alts_toks lex (a :: a2 :: l') = alt_toks a ++ TOp "|" :: alts_toks lex (a2 :: l')) by reflexivity.
    rewrite E in *. clear E. cbn [map].
    rewrite app_length in Hf. cbn [List.length] in Hf.
    destruct f; [lia|]. rewrite r_alts_S. rewrite <- app_assoc. cbn [app].
    rewrite Ha; [|exact Hoka|lia|reflexivity].
    rewrite is_op_eq. rewrite IH; [reflexivity|exact Hokl|discriminate|lia|exact Hfol].
Qed.

Lemma H_rhs id alts : Forall P_alt alts -> P_rhs (Rhs id alts).
Proof.
  intros Hall Hok f rest Hf Hfol. rewrite ok_Rhs in Hok. destruct Hok as [Hne Hok].
  rewrite toks_Rhs in *. rewrite rt_Rhs. cbn [rhs_alts]. apply alts_ok; auto.
Qed.

Theorem read_printed_all :
  (forall i, P_i i) /\ (forall r, P_rhs r) /\ (forall a, P_alt a) /\ (forall n, P_nitem n).
Proof.
  apply grammar_ast_ind.
  - exact H_name.
  - exact H_str.
  - exact H_group.
  - exact H_opt.
  - exact H_rep0.
  - exact H_rep1.
  - exact H_gather.
  - exact H_pos.
  - exact H_neg.
  - exact H_forced.
  - exact H_cut.
  - exact H_rhsitem.
  - exact H_rhs.
  - exact H_alt.
  - exact H_nitem.
Qed.

(* ---- rules ---- *)
Notation rule_ok := (rule_ok lex).
Notation rule_toks := (rule_toks lex).
Notation head_toks := (head_toks lex).

Definition rule_follow (rest : list gtok) : Prop :=
  match rest with
  | TEnd :: _ => True
  | TName x :: _ => word_ok x /\ mem_str x TOKEN_NAMES = false
  | _ => False
  end.

Lemma memoflag_no t r : is "(" t = false -> r_memoflag (t :: r) = (false, t :: r).
Proof. intros H. destruct r as [|b [|c r]]; cbn [r_memoflag]; rewrite ?H; reflexivity. Qed.

Lemma read_head r more : rule_ok r ->
  exists r1, r_rulename (head_toks r ++ TOp ":" :: more) = Ok (rname r, rtype r) r1 /\
             r_memoflag r1 = (rmemo r, TOp ":" :: more).
Proof.
  intros (Hx & _ & Hty & _). unfold head_toks, r_rulename. cbn [app].
  assert (Hm : r_memoflag ((if rmemo r then [TOp "("; TName "memo"; TOp ")"] else []) ++ TOp ":" :: more)
               = (rmemo r, TOp ":" :: more)).
  { destruct (rmemo r); [reflexivity|]. cbn [app]. apply memoflag_no. reflexivity. }
  destruct (rtype r) as [t|].
  - cbn [app]. rewrite <- ?app_assoc. cbn [app]. unfold r_annotation.
    rewrite bracketed_text by (auto; right; reflexivity). eexists. split; [reflexivity|exact Hm].
  - cbn [app]. unfold r_annotation.
    destruct (rmemo r); cbn [app] in *; (rewrite bracketed_other by reflexivity; eexists; split; [reflexivity|exact Hm]).
Qed.

Lemma alts_stop f r : 6 <= f -> r_alts f (TNl :: r) = Fail.
Proof.
  intros Hf. destruct f as [|[|f]]; try lia. rewrite r_alts_S, r_alt_S, items_stop; [reflexivity|reflexivity|lia].
Qed.

Lemma more_alts_ok alts : Forall P_alt alts -> all alt_ok alts -> alts <> [] -> forall f rest,
  6 * List.length (flat_map (fun a => TOp "|" :: alt_toks a ++ [TNl]) alts) + 6 <= f ->
  r_more_alts f (flat_map (fun a => TOp "|" :: alt_toks a ++ [TNl]) alts ++ TDedent :: rest)
  = Ok (map rt_alt alts) (TDedent :: rest).
Proof.
  induction 1 as [|a l Ha Hl IH]; intros Hall Hne f rest Hf; [contradiction|].
  destruct Hall as [Hoka Hokl]. cbn [flat_map map] in *. cbn [app List.length] in Hf.
  rewrite !app_length in Hf. cbn [List.length] in Hf.
  destruct f; [lia|]. cbn [r_more_alts app]. rewrite is_op_eq. rewrite <- !app_assoc. cbn [app].
  assert (E : r_alts (S f) (alt_toks a ++ TNl :: flat_map (fun a => TOp "|" :: alt_toks a ++ [TNl]) l ++ TDedent :: rest)
              = Ok [rt_alt a] (TNl :: flat_map (fun a => TOp "|" :: alt_toks a ++ [TNl]) l ++ TDedent :: rest)).
  { pose proof (alts_ok [a] (Forall_cons _ Ha (Forall_nil _)) (conj Hoka I)) as H1.
    cbn [alts_toks map] in H1. rewrite app_nil_r in H1. apply H1; [discriminate|lia|reflexivity]. }
  rewrite E. cbn [is_nl].
  destruct l as [|a2 l'].
  - cbn [flat_map app map]. destruct f; [lia|]. reflexivity.
  - rewrite IH; [reflexivity|exact Hokl|discriminate|lia].
Qed.

Lemma rt_rule_eq r alts : alts = rhs_alts (rt_rhs (rrhs r)) -> mkrule (rname r, rtype r) (rmemo r) alts = rt_rule r.
Proof. intros ->. unfold mkrule, rt_rule. cbn [fst snd]. rewrite rt_rhs_eta. reflexivity. Qed.

Lemma P_rhs_all r : P_rhs r.
Proof. apply (proj1 (proj2 read_printed_all)). Qed.
Lemma P_alt_all a : P_alt a.
Proof. apply (proj1 (proj2 (proj2 read_printed_all))). Qed.

Lemma more_alts_fail t r f : is "|" t = false -> 1 <= f -> r_more_alts f (t :: r) = Fail.
Proof. intros H Hf. destruct f; [lia|]. cbn [r_more_alts]. rewrite H. reflexivity. Qed.

Lemma rule_follow_not_indent t r : rule_follow (t :: r) -> is_indent t = false /\ is_dedent t = false /\ is "|" t = false.
Proof.
  destruct t; try contradiction; cbn [rule_follow].
  - intros [Hw Ht]. unfold is_indent, is_dedent, is. cbn [tstring].
    unfold mem_str in Ht. cbn [existsb TOKEN_NAMES] in Ht.
    repeat (apply orb_false_elim in Ht as [? Ht]). repeat split; auto. apply (is_name "|" s Hw). reflexivity.
  - intros _. repeat split; reflexivity.
Qed.

Lemma read_rule r : rule_ok r -> forall f rest,
  6 * List.length (rule_toks r) + 8 <= f -> rule_follow rest ->
  r_rule f (rule_toks r ++ rest) = Ok (rt_rule r) rest.
Proof.
  intros Hok f rest Hf Hfol. pose proof Hok as (Hx & Htok & Hty & Hrhs & Hlay).
  unfold rule_toks in *. unfold r_rule.
  destruct (Nat.ltb (String.length (one_line r)) 88).
  - (* one line *)
    rewrite <- app_assoc. cbn [app]. rewrite app_cons_assoc.
    destruct (read_head r (rhs_toks (rrhs r) ++ TNl :: rest) Hok) as (r1 & -> & ->).
    rewrite is_op_eq. rewrite !app_length in Hf. cbn [List.length] in Hf. rewrite app_length in Hf. cbn [List.length] in Hf.
    rewrite (P_rhs_all (rrhs r) Hrhs) by (try lia; reflexivity).
    destruct rest as [|t rest']; [contradiction|].
    destruct (rule_follow_not_indent _ _ Hfol) as (Hni & Hnd & Hnb).
    cbn [is_nl]. rewrite Hni. cbn [andb].
    assert (Hres : forall alts, alts = rhs_alts (rt_rhs (rrhs r)) ->
              Ok (mkrule (rname r, rtype r) (rmemo r) alts) (t :: rest') = Ok (rt_rule r) (t :: rest')).
    { intros alts E. rewrite (rt_rule_eq r alts E). reflexivity. }
    destruct (rhs_toks (rrhs r)) as [|t1 [|t2 [|t3 l]]] eqn:Etoks; cbn [app].
    + cbn [is_nl]. rewrite Hni. cbn [andb]. apply Hres. reflexivity.
    + cbn [is_indent is tstring String.eqb]. rewrite andb_false_r. apply Hres. reflexivity.
    + destruct (is_nl t1 && is_indent t2); [|apply Hres; reflexivity].
      rewrite more_alts_fail by (try reflexivity; lia). apply Hres. reflexivity.
    + destruct (is_nl t1 && is_indent t2) eqn:E; [|apply Hres; reflexivity].
      cbn [andb] in Hlay. rewrite more_alts_fail by (try lia; exact Hlay). apply Hres. reflexivity.
  - (* one alternative per line *)
    rewrite <- app_assoc. cbn [app]. rewrite <- app_assoc.
    destruct (read_head r (TNl :: TIndent :: flat_map (fun a => TOp "|" :: alt_toks a ++ [TNl]) (rhs_alts (rrhs r)) ++ [TDedent] ++ rest) Hok)
      as (r1 & -> & ->).
    rewrite is_op_eq. rewrite !app_length in Hf. cbn [List.length] in Hf. rewrite !app_length in Hf. cbn [List.length] in Hf.
    rewrite alts_stop by lia. cbn [is_nl is_indent andb app].
    destruct (rrhs r) as [id alts] eqn:Er. rewrite ok_Rhs in Hrhs. destruct Hrhs as [Hne Hall]. cbn [rhs_alts] in *.
    rewrite more_alts_ok; [|apply Forall_forall; intros; apply P_alt_all|exact Hall|exact Hne|lia].
    cbn [is_dedent]. apply f_equal2; [|reflexivity]. apply rt_rule_eq. rewrite Er, rt_Rhs. reflexivity.
Qed.

(* ---- grammars ---- *)
Lemma rule_toks_first r : exists l, rule_toks r = TName (rname r) :: l.
Proof. unfold rule_toks, PrintToks.head_toks. destruct (Nat.ltb _ _); eexists; reflexivity. Qed.

Lemma rule_fail_end f r : r_rule f (TEnd :: r) = Fail.
Proof. reflexivity. Qed.

Lemma meta_fail t r : is "@" t = false -> r_meta (t :: r) = Fail.
Proof. intros H. destruct r as [|[] r']; cbn [r_meta]; rewrite ?H; reflexivity. Qed.

Lemma rules_follow rs more : all rule_ok rs -> rule_follow (flat_map rule_toks rs ++ TEnd :: more).
Proof.
  destruct rs as [|r rs]; [intros _; exact I|]. intros [(Hx & Ht & _) _]. cbn [flat_map].
  destruct (rule_toks_first r) as [l ->]. cbn [app rule_follow]. auto.
Qed.

Lemma read_rules rs : all rule_ok rs -> rs <> [] -> forall f more,
  6 * List.length (flat_map rule_toks rs) + 10 <= f ->
  r_rules f (flat_map rule_toks rs ++ TEnd :: more) = Ok (map rt_rule rs) (TEnd :: more).
Proof.
  induction rs as [|r rs IH]; intros Hall Hne f more Hf; [contradiction|].
  destruct Hall as [Hr Hrs]. cbn [flat_map map] in *. rewrite app_length in Hf.
  assert (Hlen : 1 <= List.length (rule_toks r)).
  { destruct (rule_toks_first r) as [l ->]. cbn [List.length]. lia. }
  destruct f; [lia|]. cbn [r_rules]. rewrite <- app_assoc.
  rewrite read_rule; [|exact Hr|lia|apply rules_follow; exact Hrs].
  destruct rs as [|r2 rs'].
  - cbn [flat_map app map]. destruct f; [lia|]. reflexivity.
  - rewrite IH; [reflexivity|exact Hrs|discriminate|lia].
Qed.

Notation grammar_toks := (grammar_toks lex).

Theorem read_printed_grammar g :
  rules g <> [] -> all rule_ok (rules g) -> forall f,
  6 * List.length (grammar_toks g) + 10 <= f ->
  read_grammar f (grammar_toks g) = Ok (rt_grammar g) [].
Proof.
  intros Hne Hall f Hf. unfold read_grammar, r_grammar, PrintToks.grammar_toks in *.
  rewrite app_length in Hf. cbn [List.length] in Hf.
  assert (Hm : r_metas f (flat_map rule_toks (rules g) ++ [TEnd]) = Fail).
  { destruct f; [lia|]. cbn [r_metas]. destruct (rules g) as [|r rs]; [contradiction|].
    cbn [flat_map]. destruct (rule_toks_first r) as [l ->]. cbn [app]. destruct Hall as [(Hx & _) _].
    rewrite meta_fail; [reflexivity|]. apply is_name; auto. }
  rewrite Hm. rewrite read_rules; [|exact Hall|exact Hne|lia]. reflexivity.
Qed.

Corollary read_printed_grammar_default g :
  rules g <> [] -> all rule_ok (rules g) ->
  read_grammar (read_fuel (grammar_toks g)) (grammar_toks g) = Ok (rt_grammar g) [].
Proof. intros. apply read_printed_grammar; auto. unfold read_fuel. lia. Qed.
End RT.
