(* Decidable versions of the hypotheses of the round-trip theorem, and their soundness. *)
From Coq Require Import List String Ascii NArith Bool Arith Lia.
From Pegen Require Import Base.StrUtil Grammar.Ast Grammar.Induction Grammar.Printer.
From Pegen Require Import Meta.Reader Meta.PrintToks Meta.Canon Meta.TargetAtoms Meta.RoundTripDefs.
Import ListNotations.
Open Scope string_scope.
Open Scope list_scope.

(* ---- bracket balance with a stack of expected closers ---- *)
Fixpoint balk (stk : list string) (l : list gtok) : bool :=
  match l with
  | [] => match stk with [] => true | _ :: _ => false end
  | t :: l' =>
      if leaf t then balk stk l'
      else match t with
           | TOp s => if String.eqb s "[" then balk ("]" :: stk) l'
                      else if String.eqb s "{" then balk ("}" :: stk) l'
                      else match stk with
                           | c :: stk' => if String.eqb s c then balk stk' l' else false
                           | [] => false
                           end
           | _ => false
           end
  end.

Fixpoint closes (stk : list string) (l : list gtok) : Prop :=
  match stk with
  | [] => bal l
  | c :: stk' => exists l1 l2, l = l1 ++ TOp c :: l2 /\ bal l1 /\ closes stk' l2
  end.

Lemma closes_leaf stk t l : leaf t = true -> closes stk l -> closes stk (t :: l).
Proof.
  destruct stk as [|c stk]; cbn [closes]; intros Ht H; [apply bal_leaf; auto|].
  destruct H as (l1 & l2 & -> & H1 & H2). exists (t :: l1), l2. repeat split; auto. apply bal_leaf; auto.
Qed.

Lemma closes_open stk l (o c : string) :
  (forall l1 l2, bal l1 -> bal l2 -> bal (TOp o :: l1 ++ TOp c :: l2)) ->
  closes (c :: stk) l -> closes stk (TOp o :: l).
Proof.
  intros Hb (l1 & l2 & -> & H1 & H2). destruct stk as [|c' stk]; cbn [closes] in *; [apply Hb; auto|].
  destruct H2 as (m1 & m2 & -> & Hm1 & Hm2). exists (TOp o :: l1 ++ TOp c :: m1), m2.
  split; [cbn [app]; rewrite <- app_assoc; reflexivity|]. split; [apply Hb; auto|exact Hm2].
Qed.

Lemma balk_closes l : forall stk, balk stk l = true -> closes stk l.
Proof.
  induction l as [|t l IH]; intros stk H.
  - destruct stk; [constructor|discriminate].
  - cbn [balk] in H. destruct (leaf t) eqn:Et; [apply closes_leaf; auto|].
    destruct t; try discriminate.
    destruct (String.eqb_spec s "[") as [->|_]; [apply (closes_open stk l "[" "]"); [exact bal_brack|auto]|].
    destruct (String.eqb_spec s "{") as [->|_]; [apply (closes_open stk l "{" "}"); [exact bal_brace|auto]|].
    destruct stk as [|c stk']; [discriminate|].
    destruct (String.eqb_spec s c) as [->|_]; [|discriminate].
    exists [], l. repeat split; [constructor|auto].
Qed.

Lemma balk_sound l : balk [] l = true -> bal l.
Proof. exact (balk_closes l []). Qed.

Definition res_str_eqb (r : res string) (a : string) (rest : list gtok) : bool :=
  match r with Ok s r' => String.eqb s a && list_eqb gtok_eqb r' rest | _ => false end.

Lemma gtok_eqb_eq a b : gtok_eqb a b = true -> a = b.
Proof. destruct a, b; cbn; try discriminate; try reflexivity; intros H; apply String.eqb_eq in H; congruence. Qed.

Section Shape.
Variable lex : string -> list gtok.

Definition text_ok_b (a : string) : bool :=
  balk [] (lex a) && negb (match lex a with [] => true | _ => false end)
  && match target_atoms (tfuel (lex a ++ [TOp "}"])) (lex a ++ [TOp "}"]) with
     | Ok s [TOp c] => String.eqb s a && String.eqb c "}"
     | _ => false
     end.

Lemma text_ok_b_sound a : text_ok_b a = true -> text_ok lex a.
Proof.
  unfold text_ok_b, text_ok. intros H. apply andb_prop in H as [H H3]. apply andb_prop in H as [H1 H2].
  split; [apply balk_sound; exact H1|]. split; [destruct (lex a); [discriminate|discriminate]|].
  destruct (target_atoms _ _) as [s [|[] [|? ?]]| |]; try discriminate.
  apply andb_prop in H3 as [E1 E2]. apply String.eqb_eq in E1, E2. subst. reflexivity.
Qed.

Definition word_ok_b (s : string) : bool := negb (mem_str s OPS).
Lemma word_ok_b_sound s : word_ok_b s = true -> word_ok s.
Proof. unfold word_ok_b, word_ok. intros H. apply negb_true_iff in H. exact H. Qed.

Definition opt_text_b (t : option string) : bool := match t with Some t => text_ok_b t | None => true end.

Fixpoint atom_ok_b (i : item) : bool :=
  match i with
  | NameLeaf n => word_ok_b n
  | StringLeaf s => word_ok_b s
  | Group r => rhs_ok_b r
  | _ => false
  end
with item_ok_b (i : item) : bool :=
  match i with
  | NameLeaf n => word_ok_b n
  | StringLeaf s => word_ok_b s
  | Group r => rhs_ok_b r
  | Opt j => match j with RhsItem r => rhs_ok_b r | _ => atom_ok_b j end
  | Repeat0 _ j | Repeat1 _ j => atom_ok_b j
  | Gather _ s e => atom_ok_b s && atom_ok_b e
  | _ => false
  end
with rhs_ok_b (r : rhs) : bool :=
  match r with Rhs _ alts =>
    negb (match alts with [] => true | _ => false end)
    && (fix all (l : list alt) : bool := match l with [] => true | a :: l' => alt_ok_b a && all l' end) alts
  end
with alt_ok_b (a : alt) : bool :=
  match a with Alt items act =>
    negb (match items with [] => true | _ => false end)
    && (fix all (l : list nitem) : bool := match l with [] => true | n :: l' => nitem_ok_b n && all l' end) items
    && match act with Some ac => negb (String.eqb (atext ac) "") && text_ok_b (atext ac) | None => true end
  end
with nitem_ok_b (n : nitem) : bool :=
  match n with NItem _ name ty i =>
    match name with
    | Some x => word_ok_b x && negb (String.eqb x "") && opt_text_b ty && item_ok_b i
    | None => match ty with None => true | Some _ => false end
              && match i with
                 | Forced a | PosLook a | NegLook a => atom_ok_b a
                 | Cut => true
                 | _ => item_ok_b i
                 end
    end
  end.

Definition rule_ok_b (r : rule) : bool :=
  word_ok_b (rname r) && negb (mem_str (rname r) TOKEN_NAMES) && opt_text_b (rtype r) && rhs_ok_b (rrhs r)
  && match rhs_toks lex (rrhs r) with
     | t1 :: t2 :: t3 :: _ => negb (is_nl t1 && is_indent t2 && is "|" t3)
     | _ => true
     end.

Definition grammar_ok_b (g : grammar) : bool :=
  negb (match rules g with [] => true | _ => false end) && forallb rule_ok_b (rules g).

Definition S_i (i : item) : Prop :=
  (atom_ok_b i = true -> atom_ok lex i) /\ (item_ok_b i = true -> item_ok lex i) /\
  match i with
  | RhsItem r => rhs_ok_b r = true -> rhs_ok lex r
  | PosLook a | NegLook a | Forced a => atom_ok_b a = true -> atom_ok lex a
  | _ => True
  end.

Lemma opt_text_sound t : opt_text_b t = true -> match t with Some t => text_ok lex t | None => True end.
Proof. destruct t; [apply text_ok_b_sound|auto]. Qed.

Lemma shape_sound :
  (forall i, S_i i) /\ (forall r, rhs_ok_b r = true -> rhs_ok lex r) /\ (forall a, alt_ok_b a = true -> alt_ok lex a)
  /\ (forall n, nitem_ok_b n = true -> nitem_ok lex n).
Proof.
  apply grammar_ast_ind.
  - intros n. repeat split; try exact I; intros H; apply word_ok_b_sound; exact H.
  - intros n. repeat split; try exact I; intros H; apply word_ok_b_sound; exact H.
  - intros r Hr. repeat split; try exact I; intros H; apply Hr; exact H.
  - intros j (Ha & Hi & Hr). split; [discriminate|split; [|exact I]]. intros H.
    destruct j; try (apply Ha; exact H); try discriminate. apply Hr. exact H.
  - intros id j (Ha & _). split; [discriminate|split; [|exact I]]. intros H. apply Ha. exact H.
  - intros id j (Ha & _). split; [discriminate|split; [|exact I]]. intros H. apply Ha. exact H.
  - intros id s e (Has & _) (Hae & _). split; [discriminate|split; [|exact I]]. intros H. apply andb_prop in H as [H1 H2].
    split; [apply Has|apply Hae]; assumption.
  - intros j (Ha & _). split; [discriminate|split; [discriminate|exact Ha]].
  - intros j (Ha & _). split; [discriminate|split; [discriminate|exact Ha]].
  - intros j (Ha & _). split; [discriminate|split; [discriminate|exact Ha]].
  - split; [discriminate|split; [discriminate|exact I]].
  - intros r Hr. split; [discriminate|split; [discriminate|exact Hr]].
  - intros id alts Hall H. rewrite ok_Rhs. cbn [rhs_ok_b] in H. apply andb_prop in H as [Hne H].
    split; [destruct alts; [discriminate|discriminate]|]. clear Hne.
    induction Hall as [|a l Ha Hl IH]; [exact I|]. apply andb_prop in H as [H1 H2]. split; [apply Ha; exact H1|apply IH; exact H2].
  - intros items act Hall H. rewrite ok_Alt. cbn [alt_ok_b] in H. apply andb_prop in H as [H Hact]. apply andb_prop in H as [Hne H].
    split; [destruct items; [discriminate|discriminate]|]. clear Hne. split.
    + induction Hall as [|a l Ha Hl IH]; [exact I|]. apply andb_prop in H as [H1 H2]. split; [apply Ha; exact H1|apply IH; exact H2].
    + destruct act as [ac|]; [|exact I]. apply andb_prop in Hact as [E1 E2]. split.
      * apply negb_true_iff in E1. apply String.eqb_neq. exact E1.
      * apply text_ok_b_sound. exact E2.
  - intros id name ty i (Ha & Hi & Hl) H. rewrite ok_NItem. cbn [nitem_ok_b] in H. destruct name as [x|].
    + apply andb_prop in H as [H H4]. apply andb_prop in H as [H H3]. apply andb_prop in H as [H1 H2].
      split; [apply word_ok_b_sound; exact H1|]. split; [apply negb_true_iff in H2; apply String.eqb_neq; exact H2|].
      split; [apply opt_text_sound; exact H3|apply Hi; exact H4].
    + apply andb_prop in H as [H1 H2]. split; [destruct ty; [discriminate|reflexivity]|].
      destruct i; try (apply Hi; exact H2); try (apply Hl; exact H2); try exact I.
Qed.

Lemma rule_ok_b_sound r : rule_ok_b r = true -> rule_ok lex r.
Proof.
  unfold rule_ok_b, rule_ok. intros H. apply andb_prop in H as [H H5]. apply andb_prop in H as [H H4].
  apply andb_prop in H as [H H3]. apply andb_prop in H as [H1 H2].
  split; [apply word_ok_b_sound; exact H1|]. split; [apply negb_true_iff in H2; exact H2|].
  split; [apply opt_text_sound; exact H3|]. split; [apply (proj1 (proj2 shape_sound)); exact H4|].
  destruct (rhs_toks lex (rrhs r)) as [|t1 [|t2 [|t3 l]]]; auto. apply negb_true_iff in H5. exact H5.
Qed.

Lemma grammar_ok_b_sound g : grammar_ok_b g = true -> rules g <> [] /\ all (rule_ok lex) (rules g).
Proof.
  unfold grammar_ok_b. intros H. apply andb_prop in H as [H1 H2]. split; [destruct (rules g); [discriminate|discriminate]|]. clear H1.
  induction (rules g) as [|r rs IH]; [exact I|]. cbn [forallb] in H2. apply andb_prop in H2 as [Hr Hrs].
  split; [apply rule_ok_b_sound; exact Hr|apply IH; exact Hrs].
Qed.
End Shape.
