(* "Redundant parentheses aside": a group (or bracketed body) holding one alternative with one
   unnamed item and no action is that item.  [strip] also erases object ids and the translator's
   analysis of actions, so it compares what the text denotes. *)
From Coq Require Import List String Ascii NArith Bool Arith.
From Pegen Require Import Base.StrUtil Grammar.Ast Grammar.Induction.
From Pegen Require Import Meta.Reader Meta.PrintToks Meta.Canon Meta.RoundTripDefs.
Import ListNotations.
Open Scope string_scope.

Definition unwrap (C : rhs -> item) (r : rhs) : item :=
  match r with
  | Rhs _ [Alt [NItem _ None None j] None] => j
  | _ => C r
  end.

Fixpoint strip_item (i : item) : item :=
  match i with
  | NameLeaf n => NameLeaf n
  | StringLeaf s => StringLeaf s
  | Group r => unwrap Group (strip_rhs r)
  | Opt j => Opt (strip_item j)
  | Repeat0 _ j => Repeat0 0 (strip_item j)
  | Repeat1 _ j => Repeat1 0 (strip_item j)
  | Gather _ s e => Gather 0 (strip_item s) (strip_item e)
  | PosLook j => PosLook (strip_item j)
  | NegLook j => NegLook (strip_item j)
  | Forced j => Forced (strip_item j)
  | Cut => Cut
  | RhsItem r => unwrap RhsItem (strip_rhs r)
  end
with strip_rhs (r : rhs) : rhs :=
  match r with Rhs _ alts =>
    Rhs 0 ((fix go (l : list alt) : list alt := match l with [] => [] | a :: l' => strip_alt a :: go l' end) alts)
  end
with strip_alt (a : alt) : alt :=
  match a with Alt items act =>
    Alt ((fix go (l : list nitem) : list nitem := match l with [] => [] | n :: l' => strip_nitem n :: go l' end) items)
        (match act with Some ac => Some (mkact (atext ac)) | None => None end)
  end
with strip_nitem (n : nitem) : nitem :=
  match n with NItem _ name ty i => NItem 0 name ty (strip_item i) end.

Definition strip_rule (r : rule) : rule :=
  {| rname := rname r; rtype := rtype r; rrhs := strip_rhs (rrhs r); rmemo := rmemo r |}.
Definition strip_rules (g : grammar) : list rule := map strip_rule (rules g).

Lemma strip_Rhs id alts : strip_rhs (Rhs id alts) = Rhs 0 (map strip_alt alts).
Proof.
  assert (H : forall l, (fix go (l : list alt) : list alt :=
      match l with [] => [] | a :: l' => strip_alt a :: go l' end) l = map strip_alt l).
  { induction l as [|n l IH]; [reflexivity|]. cbn [map]. rewrite <- IH. reflexivity. }
  rewrite <- H. reflexivity.
Qed.
Lemma strip_Alt items act : strip_alt (Alt items act) =
  Alt (map strip_nitem items) (match act with Some ac => Some (mkact (atext ac)) | None => None end).
Proof.
  assert (H : forall l, (fix go (l : list nitem) : list nitem :=
      match l with [] => [] | n :: l' => strip_nitem n :: go l' end) l = map strip_nitem l).
  { induction l as [|n l IH]; [reflexivity|]. cbn [map]. rewrite <- IH. reflexivity. }
  rewrite <- H. reflexivity.
Qed.
Lemma strip_Group r : strip_item (Group r) = unwrap Group (strip_rhs r). Proof. reflexivity. Qed.
Lemma strip_RhsItem r : strip_item (RhsItem r) = unwrap RhsItem (strip_rhs r). Proof. reflexivity. Qed.
Lemma strip_group_single x : strip_item (Group (single x)) = strip_item x. Proof. reflexivity. Qed.
Lemma strip_rhsitem_single x : strip_item (RhsItem (single x)) = strip_item x. Proof. reflexivity. Qed.

(* printing and reading back changes nothing but such parentheses *)
Theorem strip_rt :
  (forall i, strip_item (rt_item i) = strip_item i) /\ (forall r, strip_rhs (rt_rhs r) = strip_rhs r)
  /\ (forall a, strip_alt (rt_alt a) = strip_alt a) /\ (forall n, strip_nitem (rt_nitem n) = strip_nitem n).
Proof.
  apply grammar_ast_ind.
  - reflexivity.
  - reflexivity.
  - intros r Hr. rewrite rt_Group, !strip_Group, Hr. reflexivity.
  - intros j Hj. rewrite rt_Opt.
    assert (Hgen : (if wide j then Opt (RhsItem (single (rt_item j))) else Opt (rt_item j)) = Opt (RhsItem (single (rt_item j)))
                   \/ (if wide j then Opt (RhsItem (single (rt_item j))) else Opt (rt_item j)) = Opt (rt_item j))
      by (destruct (wide j); auto).
    assert (Hres : strip_item (if wide j then Opt (RhsItem (single (rt_item j))) else Opt (rt_item j)) = strip_item (Opt j)).
    { destruct Hgen as [-> | ->].
      - change (Opt (strip_item (RhsItem (single (rt_item j)))) = Opt (strip_item j)).
        rewrite strip_rhsitem_single, Hj. reflexivity.
      - change (Opt (strip_item (rt_item j)) = Opt (strip_item j)). rewrite Hj. reflexivity. }
    destruct j; try exact Hres.
    change (Opt (strip_item (rt_item (RhsItem r))) = Opt (strip_item (RhsItem r))). rewrite Hj. reflexivity.
  - intros id j Hj. rewrite rt_Rep0.
    change (Repeat0 0 (strip_item (if wide j then Group (single (rt_item j)) else rt_item j)) = Repeat0 0 (strip_item j)).
    destruct (wide j); [rewrite strip_group_single|]; rewrite Hj; reflexivity.
  - intros id j Hj. rewrite rt_Rep1.
    change (Repeat1 0 (strip_item (if wide j then Group (single (rt_item j)) else rt_item j)) = Repeat1 0 (strip_item j)).
    destruct (wide j); [rewrite strip_group_single|]; rewrite Hj; reflexivity.
  - intros id s e Hs He. rewrite rt_Gather.
    change (Gather 0 (strip_item (rt_item s)) (strip_item (rt_item e)) = Gather 0 (strip_item s) (strip_item e)).
    rewrite Hs, He. reflexivity.
  - intros j Hj. rewrite rt_Pos. change (PosLook (strip_item (rt_item j)) = PosLook (strip_item j)). rewrite Hj. reflexivity.
  - intros j Hj. rewrite rt_Neg. change (NegLook (strip_item (rt_item j)) = NegLook (strip_item j)). rewrite Hj. reflexivity.
  - intros j Hj. rewrite rt_Forced. change (Forced (strip_item (rt_item j)) = Forced (strip_item j)). rewrite Hj. reflexivity.
  - reflexivity.
  - intros r Hr. rewrite rt_RhsItem, !strip_RhsItem, Hr. reflexivity.
  - intros id alts Hall. rewrite rt_Rhs, !strip_Rhs. f_equal. rewrite map_map.
    induction Hall as [|a l Ha Hl IH]; [reflexivity|]. cbn [map]. rewrite Ha, IH. reflexivity.
  - intros items act Hall. rewrite rt_Alt, !strip_Alt. f_equal.
    + rewrite map_map. induction Hall as [|a l Ha Hl IH]; [reflexivity|]. cbn [map]. rewrite Ha, IH. reflexivity.
    + destruct act; reflexivity.
  - intros id name ty i Hi. rewrite rt_NItem. change (NItem 0 name ty (strip_item (rt_item i)) = NItem 0 name ty (strip_item i)).
    rewrite Hi. reflexivity.
Qed.

Corollary strip_rt_grammar g : strip_rules (rt_grammar g) = strip_rules g.
Proof.
  unfold strip_rules, rt_grammar. cbn [rules]. rewrite map_map. apply map_ext. intros r.
  unfold strip_rule, rt_rule. cbn [rname rtype rrhs rmemo]. rewrite (proj1 (proj2 strip_rt)). reflexivity.
Qed.
