(* Round trip print -> tokens -> read: definitions (readable shapes, the image of a grammar under
   print-and-read, follow conditions). *)
From Coq Require Import List String Ascii NArith Bool Arith Lia.
From Pegen Require Import Base.StrUtil Grammar.Ast Grammar.Printer.
From Pegen Require Import Meta.Reader Meta.PrintToks Meta.Canon Meta.TargetAtoms.
Import ListNotations.
Open Scope string_scope.

(* every literal the reader compares token strings with *)
Definition OPS : list string :=
  ["{"; "}"; "["; "]"; "("; ")"; "|"; "$"; "="; "&"; "!"; "~"; "?"; "*"; "+"; "."; ":"; "@"].
(* a NAME or STRING token is not spelled like an operator *)
Definition word_ok (s : string) : Prop := mem_str s OPS = false.

Section Defs.
Variable lex : string -> list gtok.

(* the text of an action or annotation is the canonical rendering of its own tokens *)
Definition text_ok (a : string) : Prop :=
  bal (lex a) /\ lex a <> [] /\
  target_atoms (tfuel (lex a ++ [TOp "}"])) (lex a ++ [TOp "}"]) = Ok a [TOp "}"].

Fixpoint atom_ok (i : item) : Prop :=
  match i with
  | NameLeaf n => word_ok n
  | StringLeaf s => word_ok s
  | Group r => rhs_ok r
  | _ => False
  end
with item_ok (i : item) : Prop :=
  match i with
  | NameLeaf n => word_ok n
  | StringLeaf s => word_ok s
  | Group r => rhs_ok r
  | Opt j => match j with RhsItem r => rhs_ok r | _ => atom_ok j end
  | Repeat0 _ j | Repeat1 _ j => atom_ok j
  | Gather _ s e => atom_ok s /\ atom_ok e
  | _ => False
  end
with rhs_ok (r : rhs) : Prop :=
  match r with Rhs _ alts =>
    alts <> [] /\ (fix all (l : list alt) : Prop := match l with [] => True | a :: l' => alt_ok a /\ all l' end) alts
  end
with alt_ok (a : alt) : Prop :=
  match a with Alt items act =>
    items <> [] /\
    (fix all (l : list nitem) : Prop := match l with [] => True | n :: l' => nitem_ok n /\ all l' end) items /\
    match act with Some ac => atext ac <> "" /\ text_ok (atext ac) | None => True end
  end
with nitem_ok (n : nitem) : Prop :=
  match n with NItem _ name ty i =>
    match name with
    | Some x => word_ok x /\ x <> "" /\ match ty with Some t => text_ok t | None => True end /\ item_ok i
    | None => ty = None /\
              match i with
              | Forced a | PosLook a | NegLook a => atom_ok a
              | Cut => True
              | _ => item_ok i
              end
    end
  end.

Definition TOKEN_NAMES : list string := ["NEWLINE"; "INDENT"; "DEDENT"; "ENDMARKER"].

Definition rule_ok (r : rule) : Prop :=
  word_ok (rname r) /\ mem_str (rname r) TOKEN_NAMES = false /\
  match rtype r with Some t => text_ok t | None => True end /\
  rhs_ok (rrhs r) /\
  (* the body does not open with the items NEWLINE INDENT followed by "|" (the reader's second layout
     alternative would take these names for the layout tokens) *)
  match rhs_toks lex (rrhs r) with
  | t1 :: t2 :: t3 :: _ => is_nl t1 && is_indent t2 && is "|" t3 = false
  | _ => True
  end.

(* what printing and reading back yields: the grammar with the parentheses (brackets) the printer adds *)
Definition single (i : item) : rhs := Rhs 0 [Alt [plain i] None].

Fixpoint rt_item (i : item) : item :=
  match i with
  | NameLeaf n => NameLeaf n
  | StringLeaf s => StringLeaf s
  | Group r => Group (rt_rhs r)
  | Opt j => match j with
             | RhsItem r => Opt (RhsItem (rt_rhs r))
             | _ => if wide j then Opt (RhsItem (single (rt_item j))) else Opt (rt_item j)
             end
  | Repeat0 _ j => Repeat0 0 (if wide j then Group (single (rt_item j)) else rt_item j)
  | Repeat1 _ j => Repeat1 0 (if wide j then Group (single (rt_item j)) else rt_item j)
  | Gather _ s e => Gather 0 (rt_item s) (rt_item e)
  | PosLook j => PosLook (rt_item j)
  | NegLook j => NegLook (rt_item j)
  | Forced j => Forced (rt_item j)
  | Cut => Cut
  | RhsItem r => RhsItem (rt_rhs r)
  end
with rt_rhs (r : rhs) : rhs :=
  match r with Rhs _ alts =>
    Rhs 0 ((fix go (l : list alt) : list alt := match l with [] => [] | a :: l' => rt_alt a :: go l' end) alts)
  end
with rt_alt (a : alt) : alt :=
  match a with Alt items act =>
    Alt ((fix go (l : list nitem) : list nitem := match l with [] => [] | n :: l' => rt_nitem n :: go l' end) items)
        (match act with Some ac => Some (mkact (atext ac)) | None => None end)
  end
with rt_nitem (n : nitem) : nitem :=
  match n with NItem _ name ty i => NItem 0 name ty (rt_item i) end.

Lemma rt_Group r : rt_item (Group r) = Group (rt_rhs r). Proof. reflexivity. Qed.
Lemma rt_Opt j : rt_item (Opt j) =
  match j with
  | RhsItem r => Opt (RhsItem (rt_rhs r))
  | _ => if wide j then Opt (RhsItem (single (rt_item j))) else Opt (rt_item j)
  end.
Proof. destruct j; reflexivity. Qed.
Lemma rt_Rep0 id j : rt_item (Repeat0 id j) = Repeat0 0 (if wide j then Group (single (rt_item j)) else rt_item j).
Proof. reflexivity. Qed.
Lemma rt_Rep1 id j : rt_item (Repeat1 id j) = Repeat1 0 (if wide j then Group (single (rt_item j)) else rt_item j).
Proof. reflexivity. Qed.
Lemma rt_Gather id s e : rt_item (Gather id s e) = Gather 0 (rt_item s) (rt_item e). Proof. reflexivity. Qed.
Lemma rt_Pos j : rt_item (PosLook j) = PosLook (rt_item j). Proof. reflexivity. Qed.
Lemma rt_Neg j : rt_item (NegLook j) = NegLook (rt_item j). Proof. reflexivity. Qed.
Lemma rt_Forced j : rt_item (Forced j) = Forced (rt_item j). Proof. reflexivity. Qed.
Lemma rt_RhsItem r : rt_item (RhsItem r) = RhsItem (rt_rhs r). Proof. reflexivity. Qed.
Lemma rt_Rhs id alts : rt_rhs (Rhs id alts) = Rhs 0 (map rt_alt alts).
Proof.
  assert (H : forall l, (fix go (l : list alt) : list alt :=
      match l with [] => [] | a :: l' => rt_alt a :: go l' end) l = map rt_alt l).
  { induction l as [|n l IH]; [reflexivity|]. cbn [map]. rewrite <- IH. reflexivity. }
  rewrite <- H. reflexivity.
Qed.
Lemma rt_Alt items act : rt_alt (Alt items act) =
  Alt (map rt_nitem items) (match act with Some ac => Some (mkact (atext ac)) | None => None end).
Proof.
  assert (H : forall l, (fix go (l : list nitem) : list nitem :=
      match l with [] => [] | n :: l' => rt_nitem n :: go l' end) l = map rt_nitem l).
  { induction l as [|n l IH]; [reflexivity|]. cbn [map]. rewrite <- IH. reflexivity. }
  rewrite <- H. reflexivity.
Qed.
Lemma rt_NItem id name ty i : rt_nitem (NItem id name ty i) = NItem 0 name ty (rt_item i). Proof. reflexivity. Qed.

Fixpoint all {A} (P : A -> Prop) (l : list A) : Prop := match l with [] => True | a :: l' => P a /\ all P l' end.
Lemma ok_Group r : atom_ok (Group r) = rhs_ok r. Proof. reflexivity. Qed.
Lemma ok_Rhs id alts : rhs_ok (Rhs id alts) = (alts <> [] /\ all alt_ok alts).
Proof.
  assert (H : forall l, (fix all (l : list alt) : Prop := match l with [] => True | a :: l' => alt_ok a /\ all l' end) l = all alt_ok l).
  { induction l as [|a l IH]; [reflexivity|]. cbn [all]. rewrite <- IH. reflexivity. }
  rewrite <- H. reflexivity.
Qed.
Lemma ok_Alt items act : alt_ok (Alt items act) =
  (items <> [] /\ all nitem_ok items /\
   match act with Some ac => atext ac <> "" /\ text_ok (atext ac) | None => True end).
Proof.
  assert (H : forall l, (fix all (l : list nitem) : Prop := match l with [] => True | n :: l' => nitem_ok n /\ all l' end) l = all nitem_ok l).
  { induction l as [|a l IH]; [reflexivity|]. cbn [all]. rewrite <- IH. reflexivity. }
  rewrite <- H. reflexivity.
Qed.
Lemma ok_NItem id name ty i : nitem_ok (NItem id name ty i) =
  match name with
  | Some x => word_ok x /\ x <> "" /\ match ty with Some t => text_ok t | None => True end /\ item_ok i
  | None => ty = None /\
            match i with
            | Forced a | PosLook a | NegLook a => atom_ok a
            | Cut => True
            | _ => item_ok i
            end
  end.
Proof. reflexivity. Qed.

Definition rt_rule (r : rule) : rule :=
  {| rname := rname r; rtype := rtype r; rrhs := rt_rhs (rrhs r); rmemo := rmemo r |}.
Definition rt_grammar (g : grammar) : grammar := {| rules := map rt_rule (rules g); metas := [] |}.

(* follow conditions: the first token after a construct *)
Definition fol (allowed : list string) (rest : list gtok) : bool :=
  match rest with
  | TNl :: _ => true
  | TOp s :: _ => mem_str s allowed
  | _ => false
  end.
Definition A_alts : list string := [")"; "]"].
Definition A_alt : list string := ["|"; ")"; "]"].
Definition A_items : list string := ["{"; "|"; ")"; "]"].

(* after an item: not a postfix operator, not '=' *)
Definition item_follow (rest : list gtok) : bool :=
  match rest with
  | t :: _ => negb (mem_str (tstring t) ["?"; "*"; "+"; "."; "="])
  | [] => true
  end.
(* after a bare name: what follows is not read as a type annotation of that name *)
Definition no_annot (rest : list gtok) : Prop :=
  match r_annotation rest with
  | Ok _ r' => match r' with t :: _ => is "=" t = false | [] => True end
  | Fail => True
  | Fuel => False
  end.
End Defs.
