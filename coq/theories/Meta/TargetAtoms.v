(* The mini-grammar for actions and annotations on bracket-balanced token lists. *)
From Coq Require Import List String Ascii NArith Bool Arith Lia.
From Pegen Require Import Base.StrUtil Grammar.Ast.
From Pegen Require Import Meta.Reader.
Import ListNotations.
Open Scope string_scope.

Definition is_bracket (s : string) : bool :=
  String.eqb s "{" || String.eqb s "}" || String.eqb s "[" || String.eqb s "]".

(* a token the mini-grammar takes as one atom whatever follows (NAME may take a following "*" with it) *)
Definition leaf (t : gtok) : bool :=
  match t with
  | TName s | TNum s | TStr s | TOp s => negb (is_bracket s)
  | _ => false
  end.

Inductive bal : list gtok -> Prop :=
| bal_nil : bal []
| bal_leaf t l : leaf t = true -> bal l -> bal (t :: l)
| bal_brack l1 l2 : bal l1 -> bal l2 -> bal (TOp "[" :: l1 ++ TOp "]" :: l2)
| bal_brace l1 l2 : bal l1 -> bal l2 -> bal (TOp "{" :: l1 ++ TOp "}" :: l2).

Lemma bal_app l1 l2 : bal l1 -> bal l2 -> bal (l1 ++ l2).
Proof.
  induction 1 as [|t l Ht Hl IH|l1 l3 H1 IH1 H3 IH3|l1 l3 H1 IH1 H3 IH3]; intros H2; cbn [app]; auto.
  - apply bal_leaf; auto.
  - rewrite <- app_assoc. cbn [app]. apply bal_brack; auto.
  - rewrite <- app_assoc. cbn [app]. apply bal_brace; auto.
Qed.

Definition closing (c : string) : Prop := c = "}" \/ c = "]".

Lemma target_atoms_S f ts :
  target_atoms (S f) ts =
    match target_atom f ts with
    | Ok a r => match target_atoms f r with
                | Ok b r' => Ok (a ++ " " ++ b) r'
                | Fail => Ok a r
                | Fuel => Fuel
                end
    | Fail => Fail
    | Fuel => Fuel
    end.
Proof. reflexivity. Qed.

(* the closer stops the sequence *)
Lemma target_atoms_closer f c rest : closing c -> 2 <= f -> target_atoms f (TOp c :: rest) = Fail.
Proof.
  intros Hc Hf. destruct f as [|[|f]]; try lia.
  rewrite target_atoms_S. destruct Hc; subst; reflexivity.
Qed.

Lemma leaf_atom t l f :
  leaf t = true -> (forall n, t = TName n -> match l with t2 :: _ => is "*" t2 = false | [] => True end) ->
  target_atom (S f) (t :: l) = Ok (tstring t) l.
Proof.
  intros Hl Hn. destruct t; cbn [leaf] in Hl; try discriminate;
    unfold is_bracket in Hl; rewrite !negb_orb in Hl;
    repeat (apply andb_prop in Hl as [Hl ?]);
    repeat match goal with H : negb (String.eqb _ _) = true |- _ => apply negb_true_iff in H end;
    cbn [target_atom]; unfold is; cbn [tstring];
    repeat match goal with H : String.eqb _ _ = false |- _ => rewrite H end; cbn [orb]; try reflexivity.
  - specialize (Hn s eq_refl). destruct l as [|t2 l']; [reflexivity|]. unfold is in Hn. rewrite Hn. reflexivity.
  - destruct (String.eqb s "?") eqn:E1; [apply String.eqb_eq in E1; subst; reflexivity|].
    destruct (String.eqb s ":") eqn:E2; [apply String.eqb_eq in E2; subst; reflexivity|]. reflexivity.
Qed.

Lemma bal_inv_star t2 l : bal (t2 :: l) -> is "*" t2 = true -> leaf t2 = true /\ bal l.
Proof.
  intros H Hs. inversion H; subst; auto; discriminate.
Qed.

Lemma app_nil_str a : (a ++ "")%string = a.
Proof. induction a as [|c a IH]; cbn; [reflexivity|now rewrite IH]. Qed.

Definition ta_spec (l : list gtok) (s : string) : Prop :=
  forall f c rest, closing c -> 2 * List.length l + 2 <= f ->
  target_atoms f (l ++ TOp c :: rest) = Ok s (TOp c :: rest).

(* what the sequence rule does with the atoms after the first one *)
Definition tail_spec (l : list gtok) (s' : string) : Prop :=
  forall (a : string) f c rest, closing c -> 2 * List.length l + 2 <= f ->
  match target_atoms f (l ++ TOp c :: rest) with
  | Ok b r' => Ok (a ++ " " ++ b) r'
  | Fail => Ok a (l ++ TOp c :: rest)%list
  | Fuel => Fuel
  end = Ok (a ++ s') (TOp c :: rest).

(* what a bracket alternative does with its body *)
Definition body_spec (l : list gtok) (s1 : string) : Prop :=
  forall (o c : string) f rest, closing c -> 2 * List.length l + 2 <= f ->
  match target_atoms f (l ++ TOp c :: rest) with
  | Ok a (t :: r') => if is c t then Ok (o ++ a ++ c) r' else Fail
  | Ok _ [] => Fail
  | Fail => match (l ++ TOp c :: rest)%list with t :: r' => if is c t then Ok (o ++ c) r' else Fail | [] => Fail end
  | Fuel => Fuel
  end = Ok (o ++ s1 ++ c) rest.

Lemma tail_of_spec l : (l <> [] -> exists s, ta_spec l s) -> exists s', tail_spec l s'.
Proof.
  intros H. destruct l as [|t l].
  - exists "". intros a f c rest Hc Hf. cbn [app]. rewrite target_atoms_closer by (auto; cbn in Hf; lia).
    rewrite app_nil_str. reflexivity.
  - destruct H as [s Hs]; [discriminate|]. exists (" " ++ s). intros a f c rest Hc Hf.
    rewrite (Hs f c rest Hc Hf). reflexivity.
Qed.

Lemma body_of_spec l : (l <> [] -> exists s, ta_spec l s) -> exists s1, body_spec l s1.
Proof.
  intros H. destruct l as [|t l].
  - exists "". intros o c f rest Hc Hf. cbn [app]. rewrite target_atoms_closer by (auto; cbn in Hf; lia).
    unfold is. cbn [tstring]. rewrite String.eqb_refl. reflexivity.
  - destruct H as [s Hs]; [discriminate|]. exists s. intros o c f rest Hc Hf.
    rewrite (Hs f c rest Hc Hf). unfold is. cbn [tstring]. rewrite String.eqb_refl. reflexivity.
Qed.

Lemma ta_bal_n : forall n l, List.length l <= n -> bal l -> l <> [] -> exists s, ta_spec l s.
Proof.
  induction n as [|n IH]; intros l Hn Hb Hne.
  - destruct l; [contradiction|cbn in Hn; lia].
  - assert (Htail : forall l', List.length l' <= n -> bal l' -> exists s', tail_spec l' s').
    { intros l' Hn' Hb'. apply tail_of_spec. intros Hne'. apply IH; auto. }
    assert (Hbody : forall l', List.length l' <= n -> bal l' -> exists s', body_spec l' s').
    { intros l' Hn' Hb'. apply body_of_spec. intros Hne'. apply IH; auto. }
    inversion Hb as [|t l' Ht Hl'|l1 l2 H1 H2|l1 l2 H1 H2]; subst; [contradiction| | |].
    + (* a leaf *)
      destruct (match t, l' with TName _, t2 :: _ => is "*" t2 | _, _ => false end) eqn:Estar.
      * destruct t; try discriminate. destruct l' as [|t2 l'']; [discriminate|].
        destruct (bal_inv_star _ _ Hl' Estar) as [Ht2 Hl''].
        destruct (Htail l'') as [s' Hs']; [cbn in Hn; lia|assumption|].
        exists ((s ++ "*") ++ s'). intros f c rest Hc Hf. cbn [List.length] in Hf.
        destruct f as [|[|f]]; try lia. rewrite target_atoms_S.
        assert (E : target_atom (S f) ((TName s :: t2 :: l'') ++ TOp c :: rest) = Ok (s ++ "*") (l'' ++ TOp c :: rest)).
        { cbn [app target_atom]. cbn [leaf] in Ht. unfold is_bracket in Ht. rewrite !negb_orb in Ht.
          repeat (apply andb_prop in Ht as [Ht ?]).
          repeat match goal with H : negb (String.eqb _ _) = true |- _ => apply negb_true_iff in H end.
          unfold is in *. cbn [tstring].
          repeat match goal with H : String.eqb _ _ = false |- _ => rewrite H end. rewrite Estar. reflexivity. }
        rewrite E. apply Hs'; auto. lia.
      * destruct (Htail l') as [s' Hs']; [cbn in Hn; lia|assumption|].
        exists (tstring t ++ s'). intros f c rest Hc Hf. cbn [List.length] in Hf.
        destruct f as [|[|f]]; try lia. rewrite target_atoms_S. cbn [app].
        rewrite leaf_atom; auto.
        -- apply Hs'; auto. lia.
        -- intros n0 ->. destruct l' as [|t2 l'']; cbn [app]; [destruct Hc; subst; reflexivity|exact Estar].
    + (* [ ... ] *)
      cbn [List.length] in Hn. rewrite app_length in Hn. cbn [List.length] in Hn.
      destruct (Htail l2) as [s2 Hs2]; [lia|assumption|].
      destruct (Hbody l1) as [s1 Hs1]; [lia|assumption|].
      exists (("[" ++ s1 ++ "]") ++ s2).
      intros f c rest Hc Hf. cbn [List.length] in Hf. rewrite app_length in Hf. cbn [List.length] in Hf.
      destruct f as [|[|f]]; try lia. rewrite target_atoms_S.
      assert (E : target_atom (S f) ((TOp "[" :: l1 ++ TOp "]" :: l2) ++ TOp c :: rest)
                  = Ok ("[" ++ s1 ++ "]") (l2 ++ TOp c :: rest)).
      { cbn [app]. rewrite <- app_assoc. cbn [app target_atom]. unfold is at 1 2. cbn [tstring String.eqb Ascii.eqb Bool.eqb].
        apply (Hs1 "[" "]"); [right; reflexivity|lia]. }
      rewrite E. apply Hs2; auto. lia.
    + (* { ... } *)
      cbn [List.length] in Hn. rewrite app_length in Hn. cbn [List.length] in Hn.
      destruct (Htail l2) as [s2 Hs2]; [lia|assumption|].
      destruct (Hbody l1) as [s1 Hs1]; [lia|assumption|].
      exists (("{" ++ s1 ++ "}") ++ s2).
      intros f c rest Hc Hf. cbn [List.length] in Hf. rewrite app_length in Hf. cbn [List.length] in Hf.
      destruct f as [|[|f]]; try lia. rewrite target_atoms_S.
      assert (E : target_atom (S f) ((TOp "{" :: l1 ++ TOp "}" :: l2) ++ TOp c :: rest)
                  = Ok ("{" ++ s1 ++ "}") (l2 ++ TOp c :: rest)).
      { cbn [app]. rewrite <- app_assoc. cbn [app target_atom]. unfold is at 1. cbn [tstring String.eqb Ascii.eqb Bool.eqb].
        apply (Hs1 "{" "}"); [left; reflexivity|lia]. }
      rewrite E. apply Hs2; auto. lia.
Qed.

Theorem ta_bal l : bal l -> l <> [] -> exists s, ta_spec l s.
Proof. intros. eapply ta_bal_n; eauto. Qed.
