(* Hand-written reference reader for grammar text, at the level of the token stream pegen's
   Tokenizer hands to the meta-parser: a direct transcription of the PEG rules of
   src/pegen/metagrammar.gram (ordered choice, local cuts, greedy loops) with the actions building
   the grammar AST.  Independent of the generator/runtime models: it is tied to the shipped
   GrammarParser by the K-read' correspondence, and to the printer by the round-trip theorem
   (Proofs/RoundTrip.v). *)
From Coq Require Import List String Ascii NArith Bool Arith.
From Pegen Require Import Base.StrUtil Grammar.Ast.
Import ListNotations.
Open Scope string_scope.

Inductive gtok :=
| TName (s : string) | TStr (s : string) | TNum (s : string) | TOp (s : string)
| TNl | TIndent | TDedent | TEnd
| TFStart (s : string) | TFMid (s : string) | TFEnd (s : string)
| TOther (s : string).

Definition tstring (t : gtok) : string :=
  match t with
  | TName s | TStr s | TNum s | TOp s | TFStart s | TFMid s | TFEnd s | TOther s => s
  | TNl | TIndent | TDedent | TEnd => ""
  end.

(* Parser.expect(lit): the token's string equals lit (whatever its type) *)
Definition is (lit : string) (t : gtok) : bool := String.eqb (tstring t) lit.
(* Parser.expect("NEWLINE") etc.: the type matches -- or the token is spelled like the type name *)
Definition is_nl (t : gtok) : bool := match t with TNl => true | _ => is "NEWLINE" t end.
Definition is_indent (t : gtok) : bool := match t with TIndent => true | _ => is "INDENT" t end.
Definition is_dedent (t : gtok) : bool := match t with TDedent => true | _ => is "DEDENT" t end.
Definition is_end (t : gtok) : bool := match t with TEnd => true | _ => is "ENDMARKER" t end.

Inductive res (A : Type) := Ok (a : A) (rest : list gtok) | Fail | Fuel.
Arguments Ok {A}. Arguments Fail {A}. Arguments Fuel {A}.

(* ---- mini-grammar for actions and annotations ---- *)
Fixpoint target_atoms (f : nat) (ts : list gtok) : res string :=
  match f with O => Fuel | S f =>
    match target_atom f ts with
    | Ok a r => match target_atoms f r with
                | Ok b r' => Ok (a ++ " " ++ b) r'
                | Fail => Ok a r
                | Fuel => Fuel
                end
    | Fail => Fail
    | Fuel => Fuel
    end
  end
with target_atom (f : nat) (ts : list gtok) : res string :=
  match f with O => Fuel | S f =>
    match ts with
    | [] => Fail
    | t :: r =>
        if is "{" t then
          match target_atoms f r with
          | Ok a (c :: r') => if is "}" c then Ok ("{" ++ a ++ "}") r' else Fail
          | Ok _ [] => Fail
          | Fail => match r with c :: r' => if is "}" c then Ok "{}" r' else Fail | [] => Fail end
          | Fuel => Fuel
          end
        else if is "[" t then
          match target_atoms f r with
          | Ok a (c :: r') => if is "]" c then Ok ("[" ++ a ++ "]") r' else Fail
          | Ok _ [] => Fail
          | Fail => match r with c :: r' => if is "]" c then Ok "[]" r' else Fail | [] => Fail end
          | Fuel => Fuel
          end
        else match t with
        | TName n => match r with
                     | t2 :: r2 => if is "*" t2 then Ok (n ++ "*") r2 else Ok n r
                     | [] => Ok n r
                     end
        | TNum s => Ok s r
        | TStr s => Ok s r
        | TFStart l => match fmiddle f r with
                       | Ok m (TFEnd e :: r') => Ok (l ++ m ++ e) r'
                       | Ok _ _ => Fail
                       | Fail => Fail
                       | Fuel => Fuel
                       end
        | _ => if is "?" t then Ok "?" r
               else if is ":" t then Ok ":" r
               else match t with
                    | TOp s => if is "}" t || is "]" t then Fail else Ok s r
                    | _ => Fail
                    end
        end
    end
  end
(* target_fstring_middle* : never fails *)
with fmiddle (f : nat) (ts : list gtok) : res string :=
  match f with O => Fuel | S f =>
    match ts with
    | [] => Ok "" []
    | t :: r =>
        let cont (s : string) (r : list gtok) :=
          match fmiddle f r with Ok m r' => Ok (s ++ m) r' | Fail => Fail | Fuel => Fuel end in
        match t with
        | TFMid s => if String.eqb s "" then Ok "" ts else cont s r
        | _ => if is "{" t then cont "{" r
               else if is "}" t then cont "}" r
               else match target_atom f ts with
                    | Ok a r' => if String.eqb a "" then Ok "" ts else cont a r'
                    | Fail => Ok "" ts
                    | Fuel => Fuel
                    end
        end
    end
  end.

Definition tfuel (ts : list gtok) : nat := 2 * List.length ts + 2.

(* action: "{" ~ target_atoms "}"    annotation: "[" ~ target_atoms "]" *)
Definition r_bracketed (o c : string) (ts : list gtok) : res string :=
  match ts with
  | t :: r => if is o t then
                match target_atoms (tfuel r) r with
                | Ok a (t2 :: r') => if is c t2 then Ok a r' else Fail
                | Ok _ [] => Fail
                | Fail => Fail
                | Fuel => Fuel
                end
              else Fail
  | [] => Fail
  end.
Definition r_action := r_bracketed "{" "}".
Definition r_annotation := r_bracketed "[" "]".

Definition mkact (s : string) : action := {| atext := s; aused := []; aparses := false |}.
Definition plain (i : item) : nitem := NItem 0 None None i.
Definition endmarker_item : nitem := plain (NameLeaf "ENDMARKER").

(* ---- the rules of the meta-grammar that build items ---- *)
Fixpoint r_alts (f : nat) (ts : list gtok) : res (list alt) :=
  match f with O => Fuel | S f =>
    match r_alt f ts with
    | Ok a r =>
        match r with
        | t :: r1 => if is "|" t then
                       match r_alts f r1 with
                       | Ok l r2 => Ok (a :: l) r2
                       | Fail => Ok [a] r
                       | Fuel => Fuel
                       end
                     else Ok [a] r
        | [] => Ok [a] r
        end
    | Fail => Fail
    | Fuel => Fuel
    end
  end
with r_alt (f : nat) (ts : list gtok) : res alt :=
  match f with O => Fuel | S f =>
    match r_items f ts with
    | Ok its r =>
        match r with
        | t :: r1 =>
            if is "$" t then
              match r_action r1 with
              | Ok a r2 => Ok (Alt (its ++ [endmarker_item]) (Some (mkact a))) r2
              | Fail => Ok (Alt (its ++ [endmarker_item]) None) r1
              | Fuel => Fuel
              end
            else
              match r_action r with
              | Ok a r2 => Ok (Alt its (Some (mkact a))) r2
              | Fail => Ok (Alt its None) r
              | Fuel => Fuel
              end
        | [] => Ok (Alt its None) r
        end
    | Fail => Fail
    | Fuel => Fuel
    end
  end
with r_items (f : nat) (ts : list gtok) : res (list nitem) :=
  match f with O => Fuel | S f =>
    match r_named_item f ts with
    | Ok n r => match r_items f r with
                | Ok l r' => Ok (n :: l) r'
                | Fail => Ok [n] r
                | Fuel => Fuel
                end
    | Fail => Fail
    | Fuel => Fuel
    end
  end
with r_named_item (f : nat) (ts : list gtok) : res nitem :=
  match f with O => Fuel | S f =>
    (* alternatives 3-5: item | forced_atom | lookahead *)
    let unnamed :=
      match r_item f ts with
      | Ok i r => Ok (plain i) r
      | Fuel => Fuel
      | Fail =>
          match ts with
          | t1 :: r1 =>
              if is "&" t1 then
                match r1 with
                | t2 :: r2 =>
                    if is "&" t2 then                      (* forced_atom: '&''&' ~ atom; then lookahead's '&' ~ atom fails on '&' *)
                      match r_atom f r2 with Ok a r => Ok (plain (Forced a)) r | Fail => Fail | Fuel => Fuel end
                    else match r_atom f r1 with Ok a r => Ok (plain (PosLook a)) r | Fail => Fail | Fuel => Fuel end
                | [] => Fail
                end
              else if is "!" t1 then
                match r_atom f r1 with Ok a r => Ok (plain (NegLook a)) r | Fail => Fail | Fuel => Fuel end
              else if is "~" t1 then Ok (plain Cut) r1
              else Fail
          | [] => Fail
          end
      end in
    (* alternative 2: NAME '=' ~ item *)
    let named (x : string) (r : list gtok) :=
      match r with
      | t :: r2 => if is "=" t then
                     match r_item f r2 with
                     | Ok i r3 => Ok (NItem 0 (Some x) None i) r3
                     | Fail => Fail
                     | Fuel => Fuel
                     end
                   else unnamed
      | [] => unnamed
      end in
    match ts with
    | TName x :: r =>
        (* alternative 1: NAME annotation '=' ~ item *)
        match r_annotation r with
        | Ok ann (t :: r2) =>
            if is "=" t then
              match r_item f r2 with
              | Ok i r3 => Ok (NItem 0 (Some x) (Some ann) i) r3
              | Fail => Fail
              | Fuel => Fuel
              end
            else named x r
        | Ok _ [] => named x r
        | Fail => named x r
        | Fuel => Fuel
        end
    | _ => unnamed
    end
  end
with r_item (f : nat) (ts : list gtok) : res item :=
  match f with O => Fuel | S f =>
    match ts with
    | [] => Fail
    | t :: r0 =>
        if is "[" t then                                    (* '[' ~ alts ']' *)
          match r_alts f r0 with
          | Ok l (c :: r) => if is "]" c then Ok (Opt (RhsItem (Rhs 0 l))) r else Fail
          | Ok _ [] => Fail
          | Fail => Fail
          | Fuel => Fuel
          end
        else
          match r_atom f ts with
          | Ok a r =>
              match r with
              | t1 :: r1 =>
                  if is "?" t1 then Ok (Opt a) r1
                  else if is "*" t1 then Ok (Repeat0 0 a) r1
                  else if is "+" t1 then Ok (Repeat1 0 a) r1
                  else if is "." t1 then
                    match r_atom f r1 with
                    | Ok b (t2 :: r2) => if is "+" t2 then Ok (Gather 0 a b) r2 else Ok a r
                    | Ok _ [] => Ok a r
                    | Fail => Ok a r
                    | Fuel => Fuel
                    end
                  else Ok a r
              | [] => Ok a r
              end
          | Fail => Fail
          | Fuel => Fuel
          end
    end
  end
with r_atom (f : nat) (ts : list gtok) : res item :=
  match f with O => Fuel | S f =>
    match ts with
    | [] => Fail
    | t :: r0 =>
        if is "(" t then                                    (* '(' ~ alts ')' *)
          match r_alts f r0 with
          | Ok l (c :: r) => if is ")" c then Ok (Group (Rhs 0 l)) r else Fail
          | Ok _ [] => Fail
          | Fail => Fail
          | Fuel => Fuel
          end
        else match t with
             | TName n => Ok (NameLeaf n) r0
             | TStr s => Ok (StringLeaf s) r0
             | _ => Fail
             end
    end
  end.

(* more_alts: "|" alts NEWLINE more_alts | "|" alts NEWLINE *)
Fixpoint r_more_alts (f : nat) (ts : list gtok) : res (list alt) :=
  match f with O => Fuel | S f' =>
    match ts with
    | t :: r => if is "|" t then
                  match r_alts f r with
                  | Ok l (n :: r1) =>
                      if is_nl n then
                        match r_more_alts f' r1 with
                        | Ok m r2 => Ok (l ++ m)%list r2
                        | Fail => Ok l r1
                        | Fuel => Fuel
                        end
                      else Fail
                  | Ok _ [] => Fail
                  | Fail => Fail
                  | Fuel => Fuel
                  end
                else Fail
    | [] => Fail
    end
  end.

(* rulename: NAME annotation | NAME ;   memoflag?: '(' "memo" ')' *)
Definition r_rulename (ts : list gtok) : res (string * option string) :=
  match ts with
  | TName x :: r => match r_annotation r with
                    | Ok a r' => Ok (x, Some a) r'
                    | Fail => Ok (x, None) r
                    | Fuel => Fuel
                    end
  | _ => Fail
  end.
Definition r_memoflag (ts : list gtok) : bool * list gtok :=
  match ts with
  | a :: b :: c :: r => if is "(" a && is "memo" b && is ")" c then (true, r) else (false, ts)
  | _ => (false, ts)
  end.

Definition mkrule (h : string * option string) (m : bool) (alts : list alt) : rule :=
  {| rname := fst h; rtype := snd h; rrhs := Rhs 0 alts; rmemo := m |}.

Definition r_rule (f : nat) (ts : list gtok) : res rule :=
  match r_rulename ts with
  | Ok h r =>
      let '(m, r1) := r_memoflag r in
      match r1 with
      | c :: r2 =>
          if is ":" c then
            (* alternative 3: alts NEWLINE *)
            let alt3 := match r_alts f r2 with
                        | Ok l (n :: r3) => if is_nl n then Ok (mkrule h m l) r3 else Fail
                        | Ok _ [] => Fail
                        | Fail => Fail
                        | Fuel => Fuel
                        end in
            (* alternative 2: NEWLINE INDENT more_alts DEDENT *)
            let alt2 := match r2 with
                        | n :: i :: r3 =>
                            if is_nl n && is_indent i then
                              match r_more_alts f r3 with
                              | Ok l (d :: r4) => if is_dedent d then Ok (mkrule h m l) r4 else alt3
                              | Ok _ [] => alt3
                              | Fail => alt3
                              | Fuel => Fuel
                              end
                            else alt3
                        | _ => alt3
                        end in
            (* alternative 1: alts NEWLINE INDENT more_alts DEDENT *)
            match r_alts f r2 with
            | Ok l (n :: i :: r3) =>
                if is_nl n && is_indent i then
                  match r_more_alts f r3 with
                  | Ok l2 (d :: r4) => if is_dedent d then Ok (mkrule h m (l ++ l2)%list) r4 else alt2
                  | Ok _ [] => alt2
                  | Fail => alt2
                  | Fuel => Fuel
                  end
                else alt2
            | Ok _ _ => alt2
            | Fail => alt2
            | Fuel => Fuel
            end
          else Fail
      | [] => Fail
      end
  | Fail => Fail
  | Fuel => Fuel
  end.

(* rules: rule rules | rule *)
Fixpoint r_rules (f : nat) (ts : list gtok) : res (list rule) :=
  match f with O => Fuel | S f' =>
    match r_rule f ts with
    | Ok x r => match r_rules f' r with
                | Ok l r' => Ok (x :: l) r'
                | Fail => Ok [x] r
                | Fuel => Fuel
                end
    | Fail => Fail
    | Fuel => Fuel
    end
  end.

(* ast.literal_eval on a plain string literal: quotes (single or triple) removed, the common escapes decoded.
   Prefixed literals and other escapes are outside this model (the correspondence skips such metas). *)
Fixpoint unescape (s : string) : string :=
  match s with
  | EmptyString => EmptyString
  | String c s' =>
      if Ascii.eqb c "\"%char then
        match s' with
        | String d s'' =>
            if Ascii.eqb d "n"%char then String (ascii_of_nat 10) (unescape s'')
            else if Ascii.eqb d "t"%char then String (ascii_of_nat 9) (unescape s'')
            else if Ascii.eqb d "\"%char || Ascii.eqb d "'"%char || Ascii.eqb d """"%char then String d (unescape s'')
            else String c (String d (unescape s''))
        | EmptyString => String c EmptyString
        end
      else String c (unescape s')
  end.
Definition drop3 (s : string) : string := substring 3 (String.length s - 6) s.
Definition py_unquote (s : string) : string :=
  if (String.prefix """""""" s || String.prefix "'''" s) && Nat.leb 6 (String.length s)
  then unescape (drop3 s) else unescape (strip_quotes s).

(* meta: "@" NAME NEWLINE | "@" a=NAME b=NAME NEWLINE | "@" NAME STRING NEWLINE *)
Definition r_meta (ts : list gtok) : res (string * option string) :=
  match ts with
  | a :: TName k :: r =>
      if is "@" a then
        match r with
        | n :: r1 =>
            if is_nl n then Ok (k, None) r1
            else match n, r1 with
                 | TName v, n2 :: r2 => if is_nl n2 then Ok (k, Some v) r2 else Fail
                 | TStr v, n2 :: r2 => if is_nl n2 then Ok (k, Some (py_unquote v)) r2 else Fail
                 | _, _ => Fail
                 end
        | [] => Fail
        end
      else Fail
  | _ => Fail
  end.
Fixpoint r_metas (f : nat) (ts : list gtok) : res (list (string * option string)) :=
  match f with O => Fuel | S f' =>
    match r_meta ts with
    | Ok x r => match r_metas f' r with
                | Ok l r' => Ok (x :: l) r'
                | Fail => Ok [x] r
                | Fuel => Fuel
                end
    | Fail => Fail
    | Fuel => Fuel
    end
  end.

(* start: grammar ENDMARKER ;  grammar: metas rules | rules *)
Definition r_grammar (f : nat) (ts : list gtok) : res grammar :=
  let plain_rules := match r_rules f ts with
                     | Ok rs r => Ok {| rules := rs; metas := [] |} r
                     | Fail => Fail
                     | Fuel => Fuel
                     end in
  match r_metas f ts with
  | Ok ms r => match r_rules f r with
               | Ok rs r' => Ok {| rules := rs; metas := ms |} r'
               | Fail => plain_rules
               | Fuel => Fuel
               end
  | Fail => plain_rules
  | Fuel => Fuel
  end.

Definition read_grammar (f : nat) (ts : list gtok) : res grammar :=
  match r_grammar f ts with
  | Ok g (e :: r) => if is_end e then Ok g r else Fail
  | Ok _ [] => Fail
  | Fail => Fail
  | Fuel => Fuel
  end.

Definition read_fuel (ts : list gtok) : nat := 8 * List.length ts + 16.
