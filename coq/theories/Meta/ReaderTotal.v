(* The reference reader is total: with [read_fuel] it never runs out of fuel, on ANY token list
   (so "the reference reader rejects this text" is never an artefact of the fuel). *)
From Coq Require Import List String Ascii NArith Bool Arith Lia.
From Pegen Require Import Base.StrUtil Grammar.Ast Meta.Reader Meta.RoundTrip.
Import ListNotations.
Open Scope string_scope.

Notation len := (@List.length gtok).

Ltac crush :=
  repeat (match goal with
          | H : Ok _ _ = Ok _ _ |- _ => injection H as ? ?; subst
          | H : @Fail _ = Ok _ _ |- _ => discriminate H
          | H : @Fuel _ = Ok _ _ |- _ => discriminate H
          | H : context [if ?b then _ else _] |- _ => destruct b eqn:?
          | H : context [match ?e with _ => _ end] |- _ => destruct e eqn:?
          end).

(* ---- every successful step consumes ---- *)
Lemma ta_len : forall f,
  (forall ts a r, target_atom f ts = Ok a r -> len r < len ts) /\
  (forall ts a r, target_atoms f ts = Ok a r -> len r < len ts) /\
  (forall ts a r, fmiddle f ts = Ok a r -> len r <= len ts).
Proof.
  induction f as [|f (IHa & IHs & IHm)]; [repeat split; intros; discriminate|].
  repeat split; intros ts a r H.
  - cbn [target_atom] in H. destruct ts as [|t ts]; [discriminate|]. cbn [List.length].
    crush; cbn [List.length] in *; try lia;
      repeat match goal with
             | E : target_atoms f _ = Ok _ _ |- _ => apply IHs in E; cbn [List.length] in E
             | E : fmiddle f _ = Ok _ _ |- _ => apply IHm in E; cbn [List.length] in E
             end; try lia.
  - cbn [target_atoms] in H. crush;
      repeat match goal with
             | E : target_atoms f _ = Ok _ _ |- _ => apply IHs in E
             | E : target_atom f _ = Ok _ _ |- _ => apply IHa in E
             end; lia.
  - cbn [fmiddle] in H. destruct ts as [|t ts]; [injection H as ? ?; subst; cbn; lia|]. cbn [List.length].
    crush; cbn [List.length] in *; try lia;
      repeat match goal with
             | E : fmiddle f _ = Ok _ _ |- _ => apply IHm in E; cbn [List.length] in E
             | E : target_atom f _ = Ok _ _ |- _ => apply IHa in E; cbn [List.length] in E
             end; try lia.
Qed.

Ltac crushF :=
  repeat (match goal with
          | H : Ok _ _ = Fuel |- _ => discriminate H
          | H : @Fail _ = Fuel |- _ => discriminate H
          | H : context [if ?b then _ else _] |- _ => destruct b eqn:?
          | H : context [match ?e with _ => _ end] |- _ => destruct e eqn:?
          end).

Lemma ta_nofuel : forall n,
  (forall f ts, len ts <= n -> 2 * len ts + 1 <= f -> target_atom f ts <> Fuel) /\
  (forall f ts, len ts <= n -> 2 * len ts + 2 <= f -> target_atoms f ts <> Fuel) /\
  (forall f ts, len ts <= n -> 2 * len ts + 2 <= f -> fmiddle f ts <> Fuel).
Proof.
  induction n as [|n (IHa & IHs & IHm)].
  - repeat split; intros f ts Hn Hf H; destruct ts; cbn [List.length] in *; try lia;
      destruct f as [|[|f]]; try lia; cbn in H; discriminate.
  - assert (Ha : forall f ts, len ts <= S n -> 2 * len ts + 1 <= f -> target_atom f ts <> Fuel).
    { intros f ts Hn Hf H. destruct f as [|f]; [lia|]. cbn [target_atom] in H.
      destruct ts as [|t ts]; [discriminate|]. cbn [List.length] in *.
      crushF;
        repeat match goal with
               | E : target_atoms f _ = Fuel |- _ => apply IHs in E; [contradiction|lia|lia]
               | E : fmiddle f _ = Fuel |- _ => apply IHm in E; [contradiction|lia|lia]
               end. }
    assert (Hs : forall f ts, len ts <= S n -> 2 * len ts + 2 <= f -> target_atoms f ts <> Fuel).
    { intros f ts Hn Hf H. destruct f as [|f]; [lia|]. cbn [target_atoms] in H.
      crushF.
      - match goal with E : target_atom f _ = Ok _ _ |- _ => apply (proj1 (ta_len f)) in E end.
        match goal with E : target_atoms f _ = Fuel |- _ => apply IHs in E; [contradiction|lia|lia] end.
      - match goal with E : target_atom f _ = Fuel |- _ => apply Ha in E; [contradiction|lia|lia] end. }
    split; [exact Ha|split; [exact Hs|]].
    intros f ts Hn Hf H. destruct f as [|f]; [lia|]. cbn [fmiddle] in H.
    destruct ts as [|t ts]; [discriminate|]. cbn [List.length] in *.
    crushF;
      repeat match goal with
             | E : target_atom f _ = Ok _ _ |- _ => apply (proj1 (ta_len f)) in E; cbn [List.length] in E
             end;
      repeat match goal with
             | E : fmiddle f _ = Fuel |- _ => apply IHm in E; [contradiction|lia|lia]
             | E : target_atom f _ = Fuel |- _ => apply Ha in E; [contradiction|cbn [List.length]; lia|cbn [List.length]; lia]
             end.
Qed.

Lemma bracketed_nofuel o c ts : r_bracketed o c ts <> Fuel.
Proof.
  unfold r_bracketed. intros H. crushF.
  match goal with E : target_atoms _ _ = Fuel |- _ => apply (proj1 (proj2 (ta_nofuel (len l)))) in E; [contradiction|lia|unfold tfuel; lia] end.
Qed.
Lemma bracketed_len o c ts a r : r_bracketed o c ts = Ok a r -> len r < len ts.
Proof.
  unfold r_bracketed. intros H. crush.
  match goal with E : target_atoms _ _ = Ok _ _ |- _ => apply (proj1 (proj2 (ta_len _))) in E; cbn [List.length] in *; lia end.
Qed.


(* ---- the item-building rules: every successful step consumes ---- *)
Lemma r_len : forall f,
  (forall ts a r, r_atom f ts = Ok a r -> len r < len ts) /\
  (forall ts a r, r_item f ts = Ok a r -> len r < len ts) /\
  (forall ts a r, r_named_item f ts = Ok a r -> len r < len ts) /\
  (forall ts a r, r_items f ts = Ok a r -> len r < len ts) /\
  (forall ts a r, r_alt f ts = Ok a r -> len r < len ts) /\
  (forall ts a r, r_alts f ts = Ok a r -> len r < len ts).
Proof.
  induction f as [|f (IHatom & IHitem & IHnamed & IHitems & IHalt & IHalts)]; [repeat split; intros; discriminate|].
  assert (Huse : True) by exact I.
  repeat split; intros ts a r H.
  - rewrite r_atom_S in H. destruct ts as [|t ts]; [discriminate|]. cbn [List.length].
    crush; cbn [List.length] in *; try lia;
      repeat match goal with E : r_alts f _ = Ok _ _ |- _ => apply IHalts in E; cbn [List.length] in E end; lia.
  - rewrite r_item_S in H. destruct ts as [|t ts]; [discriminate|]. cbn [List.length].
    crush; cbn [List.length] in *; try lia;
      repeat match goal with
             | E : r_alts f _ = Ok _ _ |- _ => apply IHalts in E; cbn [List.length] in E
             | E : r_atom f _ = Ok _ _ |- _ => apply IHatom in E; cbn [List.length] in E
             end; lia.
  - rewrite r_named_item_S in H. unfold named_alt, unnamed_alts in H.
    assert (Hfin : forall l, (forall i r0, r_item f l = Ok i r0 -> len r0 < len l) /\ (forall i r0, r_atom f l = Ok i r0 -> len r0 < len l))
      by (intros l; split; [apply IHitem|apply IHatom]).
    destruct ts as [|t ts].
    + crush; repeat match goal with E : r_item f _ = Ok _ _ |- _ => apply IHitem in E; cbn [List.length] in E end; lia.
    + cbn [List.length]. destruct t; crush; cbn [List.length] in *; try lia;
        repeat match goal with
               | E : r_item f _ = Ok _ _ |- _ => apply IHitem in E; cbn [List.length] in E
               | E : r_atom f _ = Ok _ _ |- _ => apply IHatom in E; cbn [List.length] in E
               | E : r_annotation _ = Ok _ _ |- _ => apply bracketed_len in E; cbn [List.length] in E
               end; lia.
  - rewrite r_items_S in H. crush;
      repeat match goal with
             | E : r_items f _ = Ok _ _ |- _ => apply IHitems in E
             | E : r_named_item f _ = Ok _ _ |- _ => apply IHnamed in E
             end; lia.
  - rewrite r_alt_S in H. crush; cbn [List.length] in *;
      repeat match goal with
             | E : r_items f _ = Ok _ _ |- _ => apply IHitems in E; cbn [List.length] in E
             | E : r_action _ = Ok _ _ |- _ => apply bracketed_len in E; cbn [List.length] in E
             end; lia.
  - rewrite r_alts_S in H. crush; cbn [List.length] in *;
      repeat match goal with
             | E : r_alts f _ = Ok _ _ |- _ => apply IHalts in E; cbn [List.length] in E
             | E : r_alt f _ = Ok _ _ |- _ => apply IHalt in E; cbn [List.length] in E
             end; lia.
Qed.

(* ---- ... and never runs out of fuel when given 6 units per token (plus its level) ---- *)
Definition six (ts : list gtok) : Prop :=
  (forall f, 6 * len ts + 1 <= f -> r_atom f ts <> Fuel) /\
  (forall f, 6 * len ts + 2 <= f -> r_item f ts <> Fuel) /\
  (forall f, 6 * len ts + 3 <= f -> r_named_item f ts <> Fuel) /\
  (forall f, 6 * len ts + 4 <= f -> r_items f ts <> Fuel) /\
  (forall f, 6 * len ts + 5 <= f -> r_alt f ts <> Fuel) /\
  (forall f, 6 * len ts + 6 <= f -> r_alts f ts <> Fuel).

Ltac shorter f :=
  repeat match goal with
         | E : r_atom f _ = Ok _ _ |- _ => apply (proj1 (r_len f)) in E; cbn [List.length] in E
         | E : r_item f _ = Ok _ _ |- _ => apply (proj1 (proj2 (r_len f))) in E; cbn [List.length] in E
         | E : r_named_item f _ = Ok _ _ |- _ => apply (proj1 (proj2 (proj2 (r_len f)))) in E; cbn [List.length] in E
         | E : r_items f _ = Ok _ _ |- _ => apply (proj1 (proj2 (proj2 (proj2 (r_len f))))) in E; cbn [List.length] in E
         | E : r_alt f _ = Ok _ _ |- _ => apply (proj1 (proj2 (proj2 (proj2 (proj2 (r_len f)))))) in E; cbn [List.length] in E
         | E : r_alts f _ = Ok _ _ |- _ => apply (proj2 (proj2 (proj2 (proj2 (proj2 (r_len f)))))) in E; cbn [List.length] in E
         | E : r_annotation _ = Ok _ _ |- _ => apply bracketed_len in E; cbn [List.length] in E
         | E : r_action _ = Ok _ _ |- _ => apply bracketed_len in E; cbn [List.length] in E
         end.

Lemma r_nofuel : forall n ts, len ts = n -> six ts.
Proof.
  induction n as [n IH] using lt_wf_ind. intros ts Hn.
  assert (IHs : forall l, len l < len ts -> six l) by (intros l Hl; apply (IH (len l)); [lia|reflexivity]).
  assert (Hatom : forall f, 6 * len ts + 1 <= f -> r_atom f ts <> Fuel).
  { intros f Hf H. destruct f as [|f]; [lia|]. rewrite r_atom_S in H. destruct ts as [|t ts']; [discriminate|].
    cbn [List.length] in *. crushF.
    match goal with E : r_alts f _ = Fuel |- _ => apply (proj2 (proj2 (proj2 (proj2 (proj2 (IHs ts' ltac:(lia))))))) in E; [contradiction|lia] end. }
  assert (Hitem : forall f, 6 * len ts + 2 <= f -> r_item f ts <> Fuel).
  { intros f Hf H. destruct f as [|f]; [lia|]. rewrite r_item_S in H. destruct ts as [|t ts']; [discriminate|].
    cbn [List.length] in *. crushF; shorter f;
      repeat match goal with
             | E : r_alts f ts' = Fuel |- _ => apply (proj2 (proj2 (proj2 (proj2 (proj2 (IHs ts' ltac:(lia))))))) in E; [contradiction|lia]
             | E : r_atom f (t :: ts') = Fuel |- _ => apply Hatom in E; [contradiction|cbn [List.length]; lia]
             | E : r_atom f ?l = Fuel |- _ => apply (proj1 (IHs l ltac:(cbn [List.length]; lia))) in E; [contradiction|cbn [List.length] in *; lia]
             end. }
  assert (Hnamed : forall f, 6 * len ts + 3 <= f -> r_named_item f ts <> Fuel).
  { intros f Hf H. destruct f as [|f]; [lia|]. rewrite r_named_item_S in H. unfold named_alt, unnamed_alts in H.
    destruct ts as [|t ts'];
      [crushF; repeat match goal with E : r_item f [] = Fuel |- _ => apply Hitem in E; [contradiction|cbn [List.length] in *; lia] end|].
    cbn [List.length] in *. destruct t; crushF; shorter f;
        repeat match goal with
               | E : r_annotation _ = Fuel |- _ => apply bracketed_nofuel in E; contradiction
               | E : r_item f ?l = Fuel |- _ =>
                   first [ apply Hitem in E; [contradiction|cbn [List.length] in *; lia]
                         | apply (proj1 (proj2 (IHs l ltac:(cbn [List.length] in *; lia)))) in E; [contradiction|cbn [List.length] in *; lia] ]
               | E : r_atom f ?l = Fuel |- _ => apply (proj1 (IHs l ltac:(cbn [List.length] in *; lia))) in E; [contradiction|cbn [List.length] in *; lia]
               end. }
  assert (Hitems : forall f, 6 * len ts + 4 <= f -> r_items f ts <> Fuel).
  { intros f Hf H. destruct f as [|f]; [lia|]. rewrite r_items_S in H. crushF; shorter f.
    - match goal with E : r_items f ?l = Fuel |- _ => apply (proj1 (proj2 (proj2 (proj2 (IHs l ltac:(lia)))))) in E; [contradiction|lia] end.
    - match goal with E : r_named_item f _ = Fuel |- _ => apply Hnamed in E; [contradiction|lia] end. }
  assert (Halt : forall f, 6 * len ts + 5 <= f -> r_alt f ts <> Fuel).
  { intros f Hf H. destruct f as [|f]; [lia|]. rewrite r_alt_S in H. crushF;
      repeat match goal with
             | E : r_action _ = Fuel |- _ => apply bracketed_nofuel in E; contradiction
             | E : r_items f _ = Fuel |- _ => apply Hitems in E; [contradiction|lia]
             end. }
  repeat split; try assumption.
  intros f Hf H. destruct f as [|f]; [lia|]. rewrite r_alts_S in H. crushF; shorter f.
  - match goal with E : r_alts f ?l = Fuel |- _ => apply (proj2 (proj2 (proj2 (proj2 (proj2 (IHs l ltac:(cbn [List.length] in *; lia))))))) in E; [contradiction|cbn [List.length] in *; lia] end.
  - match goal with E : r_alt f _ = Fuel |- _ => apply Halt in E; [contradiction|lia] end.
Qed.

(* ---- rules, metas, the grammar ---- *)
Lemma more_len : forall f ts a r, r_more_alts f ts = Ok a r -> len r < len ts.
Proof.
  induction f as [|f IH]; intros ts a r H; [discriminate|]. cbn [r_more_alts] in H.
  crush; cbn [List.length] in *; shorter (S f);
    repeat match goal with E : r_more_alts f _ = Ok _ _ |- _ => apply IH in E; cbn [List.length] in E end; lia.
Qed.

Lemma more_nofuel : forall n f ts, len ts = n -> 6 * len ts + 6 <= f -> r_more_alts f ts <> Fuel.
Proof.
  induction n as [n IH] using lt_wf_ind. intros f ts Hn Hf H.
  destruct f as [|f]; [lia|]. cbn [r_more_alts] in H. crushF; cbn [List.length] in *; shorter (S f).
  - match goal with E : r_more_alts f ?l = Fuel |- _ => apply (IH (len l)) in E; [contradiction|cbn [List.length] in *; lia|reflexivity|cbn [List.length] in *; lia] end.
  - match goal with E : r_alts (S f) ?l = Fuel |- _ =>
      apply (proj2 (proj2 (proj2 (proj2 (proj2 (r_nofuel (len l) l eq_refl)))))) in E; [contradiction|cbn [List.length] in *; lia] end.
Qed.

Lemma rulename_nofuel ts : r_rulename ts <> Fuel.
Proof. unfold r_rulename. intros H. crushF. match goal with E : r_annotation _ = Fuel |- _ => apply bracketed_nofuel in E; contradiction end. Qed.
Lemma rulename_len ts a r : r_rulename ts = Ok a r -> len r < len ts.
Proof. unfold r_rulename. intros H. crush; cbn [List.length] in *; shorter 0; lia. Qed.
Lemma memoflag_len ts : len (snd (r_memoflag ts)) <= len ts.
Proof. unfold r_memoflag. destruct ts as [|a [|b [|c r]]]; cbn; try lia. destruct (_ && _); cbn; lia. Qed.

Lemma rule_len f ts a r : r_rule f ts = Ok a r -> len r < len ts.
Proof.
  unfold r_rule. intros H. destruct (r_rulename ts) as [h r0| |] eqn:Eh; try discriminate.
  apply rulename_len in Eh. pose proof (memoflag_len r0) as Hm. destruct (r_memoflag r0) as [m r1]. cbn [snd] in Hm.
  crush; cbn [List.length] in *; shorter f;
    repeat match goal with E : r_more_alts f _ = Ok _ _ |- _ => apply more_len in E; cbn [List.length] in E end; lia.
Qed.

Lemma rule_nofuel f ts : 6 * len ts + 6 <= f -> r_rule f ts <> Fuel.
Proof.
  unfold r_rule. intros Hf H. destruct (r_rulename ts) as [h r0| |] eqn:Eh; try discriminate; [|exact (rulename_nofuel ts Eh)].
  apply rulename_len in Eh. pose proof (memoflag_len r0) as Hm. destruct (r_memoflag r0) as [m r1]. cbn [snd] in Hm.
  crushF; cbn [List.length] in *; shorter f;
    repeat match goal with
           | E : r_more_alts f ?l = Fuel |- _ => apply (more_nofuel (len l) f l eq_refl) in E; [contradiction|cbn [List.length] in *; lia]
           | E : r_alts f ?l = Fuel |- _ =>
               apply (proj2 (proj2 (proj2 (proj2 (proj2 (r_nofuel (len l) l eq_refl)))))) in E; [contradiction|cbn [List.length] in *; lia]
           end.
Qed.

Lemma rules_nofuel : forall n f ts, len ts = n -> 6 * len ts + 6 <= f -> r_rules f ts <> Fuel.
Proof.
  induction n as [n IH] using lt_wf_ind. intros f ts Hn Hf H.
  destruct f as [|f]; [lia|]. cbn [r_rules] in H. crushF.
  - match goal with E : r_rule (S f) _ = Ok _ _ |- _ => apply rule_len in E end.
    match goal with E : r_rules f ?l = Fuel |- _ => apply (IH (len l)) in E; [contradiction|lia|reflexivity|lia] end.
  - match goal with E : r_rule (S f) _ = Fuel |- _ => apply rule_nofuel in E; [contradiction|lia] end.
Qed.
Lemma rules_len : forall f ts a r, r_rules f ts = Ok a r -> len r < len ts.
Proof.
  induction f as [|f IH]; intros ts a r H; [discriminate|]. cbn [r_rules] in H.
  crush; repeat match goal with
                | E : r_rule (S f) _ = Ok _ _ |- _ => apply rule_len in E
                | E : r_rules f _ = Ok _ _ |- _ => apply IH in E
                end; lia.
Qed.

Lemma meta_len ts a r : r_meta ts = Ok a r -> len r < len ts.
Proof. unfold r_meta. intros H. crush; cbn [List.length] in *; lia. Qed.
Lemma meta_nofuel ts : r_meta ts <> Fuel.
Proof. unfold r_meta. intros H. crushF. Qed.
Lemma metas_nofuel : forall n f ts, len ts = n -> len ts + 1 <= f -> r_metas f ts <> Fuel.
Proof.
  induction n as [n IH] using lt_wf_ind. intros f ts Hn Hf H.
  destruct f as [|f]; [lia|]. cbn [r_metas] in H. crushF.
  - match goal with E : r_meta _ = Ok _ _ |- _ => apply meta_len in E end.
    match goal with E : r_metas f ?l = Fuel |- _ => apply (IH (len l)) in E; [contradiction|lia|reflexivity|lia] end.
  - exact (meta_nofuel _ ltac:(eassumption)).
Qed.
Lemma metas_len : forall f ts a r, r_metas f ts = Ok a r -> len r < len ts.
Proof.
  induction f as [|f IH]; intros ts a r H; [discriminate|]. cbn [r_metas] in H.
  crush; repeat match goal with
                | E : r_meta _ = Ok _ _ |- _ => apply meta_len in E
                | E : r_metas f _ = Ok _ _ |- _ => apply IH in E
                end; lia.
Qed.

Theorem reader_total ts : read_grammar (read_fuel ts) ts <> Fuel.
Proof.
  unfold read_grammar, r_grammar, read_fuel. intros H. crushF;
    repeat match goal with
           | E : r_metas _ _ = Ok _ _ |- _ => apply metas_len in E
           end;
    repeat match goal with
           | E : r_rules _ ?l = Fuel |- _ => apply (rules_nofuel (len l) _ l eq_refl) in E; [contradiction|lia]
           | E : r_metas _ ?l = Fuel |- _ => apply (metas_nofuel (len l) _ l eq_refl) in E; [contradiction|lia]
           end.
Qed.
