(* Token-level reading of the full (SIMPLE_STR = False) rendering of Grammar/Printer.v: the token
   sequence of the printed text, assuming a lexer [lex] for action and annotation texts.  The
   layout decisions (parentheses, brackets, one-line or one-alternative-per-line rules) are the
   string printer's own conditions.  Tied to the real printer and the real tokenizer by the
   K-printtok correspondence. *)
From Coq Require Import List String Ascii NArith Bool Arith.
From Pegen Require Import Base.StrUtil Grammar.Ast Grammar.Printer.
From Pegen Require Import Meta.Reader.
Import ListNotations.
Open Scope string_scope.
Open Scope list_scope.

Section Toks.
Variable lex : string -> list gtok.

Definition is_atom (i : item) : bool :=
  match i with NameLeaf _ | StringLeaf _ | Group _ => true | _ => false end.
Definition wide (i : item) : bool := has_space (item_str false i).

Fixpoint item_toks (i : item) : list gtok :=
  match i with
  | NameLeaf n => [TName n]
  | StringLeaf s => [TStr s]
  | Group r => TOp "(" :: rhs_toks r ++ [TOp ")"]
  | Opt j => if wide j || negb (is_atom j) then TOp "[" :: item_toks j ++ [TOp "]"] else item_toks j ++ [TOp "?"]
  | Repeat0 _ j => if wide j then TOp "(" :: item_toks j ++ [TOp ")"; TOp "*"] else item_toks j ++ [TOp "*"]
  | Repeat1 _ j => if wide j then TOp "(" :: item_toks j ++ [TOp ")"; TOp "+"] else item_toks j ++ [TOp "+"]
  | Gather _ s e => item_toks s ++ TOp "." :: item_toks e ++ [TOp "+"]
  | PosLook j => TOp "&" :: item_toks j
  | NegLook j => TOp "!" :: item_toks j
  | Forced j => TOp "&" :: TOp "&" :: item_toks j
  | Cut => [TOp "~"]
  | RhsItem r => rhs_toks r
  end
with rhs_toks (r : rhs) : list gtok :=
  match r with Rhs _ alts =>
    (fix go (l : list alt) : list gtok :=
       match l with
       | [] => []
       | a :: l' => alt_toks a ++ match l' with [] => [] | _ :: _ => TOp "|" :: go l' end
       end) alts
  end
with alt_toks (a : alt) : list gtok :=
  match a with Alt items act =>
    (fix go (l : list nitem) : list gtok :=
       match l with [] => [] | n :: l' => nitem_toks n ++ go l' end) items
    ++ match act with
       | Some ac => if String.eqb (atext ac) "" then [] else TOp "{" :: lex (atext ac) ++ [TOp "}"]
       | None => []
       end
  end
with nitem_toks (n : nitem) : list gtok :=
  match n with NItem _ name ty i =>
    match name with
    | Some x => if String.eqb x "" then item_toks i
                else match ty with
                     | Some t => TName x :: TOp "[" :: lex t ++ [TOp "]"; TOp "="] ++ item_toks i
                     | None => TName x :: TOp "=" :: item_toks i
                     end
    | None => item_toks i
    end
  end.

Fixpoint alts_toks (l : list alt) : list gtok :=
  match l with
  | [] => []
  | a :: l' => alt_toks a ++ match l' with [] => [] | _ :: _ => TOp "|" :: alts_toks l' end
  end.
Fixpoint items_toks (l : list nitem) : list gtok :=
  match l with [] => [] | n :: l' => nitem_toks n ++ items_toks l' end.
Definition act_toks (act : option action) : list gtok :=
  match act with
  | Some ac => if String.eqb (atext ac) "" then [] else TOp "{" :: lex (atext ac) ++ [TOp "}"]
  | None => []
  end.

Lemma toks_Name n : item_toks (NameLeaf n) = [TName n]. Proof. reflexivity. Qed.
Lemma toks_Str s : item_toks (StringLeaf s) = [TStr s]. Proof. reflexivity. Qed.
Lemma toks_Group r : item_toks (Group r) = TOp "(" :: rhs_toks r ++ [TOp ")"]. Proof. reflexivity. Qed.
Lemma toks_Opt j : item_toks (Opt j) =
  if wide j || negb (is_atom j) then TOp "[" :: item_toks j ++ [TOp "]"] else item_toks j ++ [TOp "?"].
Proof. reflexivity. Qed.
Lemma toks_Rep0 id j : item_toks (Repeat0 id j) =
  if wide j then TOp "(" :: item_toks j ++ [TOp ")"; TOp "*"] else item_toks j ++ [TOp "*"].
Proof. reflexivity. Qed.
Lemma toks_Rep1 id j : item_toks (Repeat1 id j) =
  if wide j then TOp "(" :: item_toks j ++ [TOp ")"; TOp "+"] else item_toks j ++ [TOp "+"].
Proof. reflexivity. Qed.
Lemma toks_Gather id s e : item_toks (Gather id s e) = item_toks s ++ TOp "." :: item_toks e ++ [TOp "+"].
Proof. reflexivity. Qed.
Lemma toks_Pos j : item_toks (PosLook j) = TOp "&" :: item_toks j. Proof. reflexivity. Qed.
Lemma toks_Neg j : item_toks (NegLook j) = TOp "!" :: item_toks j. Proof. reflexivity. Qed.
Lemma toks_Forced j : item_toks (Forced j) = TOp "&" :: TOp "&" :: item_toks j. Proof. reflexivity. Qed.
Lemma toks_Cut : item_toks Cut = [TOp "~"]. Proof. reflexivity. Qed.
Lemma toks_RhsItem r : item_toks (RhsItem r) = rhs_toks r. Proof. reflexivity. Qed.
Lemma toks_Rhs id alts : rhs_toks (Rhs id alts) = alts_toks alts.
Proof. induction alts as [|a l IH]; [reflexivity|]. cbn [alts_toks]. rewrite <- IH. reflexivity. Qed.
Lemma toks_Alt items act : alt_toks (Alt items act) = items_toks items ++ act_toks act.
Proof.
  assert (H : forall l, (fix go (l : list nitem) : list gtok :=
       match l with [] => [] | n :: l' => nitem_toks n ++ go l' end) l = items_toks l).
  { induction l as [|n l IH]; [reflexivity|]. cbn [items_toks]. rewrite <- IH. reflexivity. }
  unfold act_toks. rewrite <- H. reflexivity.
Qed.
Lemma toks_NItem id name ty i : nitem_toks (NItem id name ty i) =
  match name with
  | Some x => if String.eqb x "" then item_toks i
              else match ty with
                   | Some t => TName x :: TOp "[" :: lex t ++ [TOp "]"; TOp "="] ++ item_toks i
                   | None => TName x :: TOp "=" :: item_toks i
                   end
  | None => item_toks i
  end.
Proof. reflexivity. Qed.

Definition head_toks (r : rule) : list gtok :=
  TName (rname r) :: match rtype r with Some t => TOp "[" :: lex t ++ [TOp "]"] | None => [] end
  ++ (if rmemo r then [TOp "("; TName "memo"; TOp ")"] else []).

Definition rule_head (r : rule) : string :=
  ((match rtype r with Some t => rname r ++ "[" ++ t ++ "]" | None => rname r end) ++ (if rmemo r then " (memo)" else ""))%string.
Definition one_line (r : rule) : string := (rule_head r ++ ": " ++ rhs_str false (rrhs r))%string.
Lemma rule_str_layout r :
  rule_str false r = if Nat.ltb (String.length (one_line r)) 88 then one_line r
                     else join (String (ascii_of_nat 10) "")
                            ((before_char ":"%char (one_line r) ++ ":")%string :: map (fun a => ("    | " ++ alt_str false a)%string) (rhs_alts (rrhs r))).
Proof. reflexivity. Qed.

Definition rule_toks (r : rule) : list gtok :=
  if Nat.ltb (String.length (one_line r)) 88
  then head_toks r ++ TOp ":" :: rhs_toks (rrhs r) ++ [TNl]
  else head_toks r ++ TOp ":" :: TNl :: TIndent ::
       flat_map (fun a => TOp "|" :: alt_toks a ++ [TNl]) (rhs_alts (rrhs r)) ++ [TDedent].

Definition grammar_toks (g : grammar) : list gtok := flat_map rule_toks (rules g) ++ [TEnd].
End Toks.
