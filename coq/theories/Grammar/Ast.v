(* Grammar AST: one constructor per class of src/pegen/grammar.py.
   Rhs / Repeat0 / Repeat1 / Gather carry a node id because the call maker caches helper
   names by object identity (self.cache[node]) and artificial_rule_from_gather puts the same
   element object into two helper rules. Ids are assigned by the translator from Python object
   identity (harness/grammar2coq.py). *)
From Coq Require Import List String NArith Bool.
Import ListNotations.
Open Scope string_scope.

(* What the translator records about an action (pegen runs ast.parse on the action text). *)
Record action := {
  atext  : string;          (* the text between the braces, as stored in Alt.action *)
  aused  : list string;     (* names used: what UsedNamesVisitor returns on the substituted text *)
  aparses: bool             (* ast.parse(substituted action) succeeds *)
}.

Inductive item :=
| NameLeaf (n : string)
| StringLeaf (raw : string)               (* the literal including its quotes *)
| Group (r : rhs)
| Opt (i : item)
| Repeat0 (id : N) (i : item)
| Repeat1 (id : N) (i : item)
| Gather (id : N) (sep : item) (elem : item)
| PosLook (i : item)
| NegLook (i : item)
| Forced (i : item)
| Cut
| RhsItem (r : rhs)                       (* '[' alts ']' builds Opt(Rhs) *)
with rhs := Rhs (id : N) (alts : list alt)
with alt := Alt (items : list nitem) (act : option action)
with nitem := NItem (id : N) (name : option string) (ty : option string) (it : item).
(* the id of a NamedItem stands for the identity of the Python object: its `nullable` attribute is mutable state *)

Record rule := {
  rname : string;
  rtype : option string;
  rrhs  : rhs;
  rmemo : bool
}.

Record grammar := {
  rules : list rule;                       (* in dict order; names are unique (dict keys) *)
  metas : list (string * option string)
}.

Definition rhs_alts (r : rhs) : list alt := match r with Rhs _ a => a end.
Definition rhs_id (r : rhs) : N := match r with Rhs i _ => i end.
Definition alt_items (a : alt) : list nitem := match a with Alt i _ => i end.
Definition alt_action (a : alt) : option action := match a with Alt _ x => x end.
Definition ni_name (n : nitem) : option string := match n with NItem _ x _ _ => x end.
Definition ni_type (n : nitem) : option string := match n with NItem _ _ t _ => t end.
Definition ni_item (n : nitem) : item := match n with NItem _ _ _ i => i end.
Definition ni_id (n : nitem) : N := match n with NItem k _ _ _ => k end.

Fixpoint find_rule (rs : list rule) (n : string) : option rule :=
  match rs with
  | [] => None
  | r :: rs' => if String.eqb (rname r) n then Some r else find_rule rs' n
  end.

Fixpoint lookup_meta (ms : list (string * option string)) (k : string) : option (option string) :=
  match ms with
  | [] => None
  | (k', v) :: ms' => if String.eqb k k' then Some v else lookup_meta ms' k
  end.

(* class name as GrammarVisitor.visit computes it: node.__class__.__name__ *)
Definition item_class (i : item) : string :=
  match i with
  | NameLeaf _ => "NameLeaf" | StringLeaf _ => "StringLeaf" | Group _ => "Group"
  | Opt _ => "Opt" | Repeat0 _ _ => "Repeat0" | Repeat1 _ _ => "Repeat1"
  | Gather _ _ _ => "Gather" | PosLook _ => "PositiveLookahead"
  | NegLook _ => "NegativeLookahead" | Forced _ => "Forced" | Cut => "Cut"
  | RhsItem _ => "Rhs"
  end.

(* size, used as fuel by functions that follow the object graph *)
Fixpoint item_size (i : item) : nat :=
  match i with
  | NameLeaf _ | StringLeaf _ | Cut => 1
  | Group r | RhsItem r => S (rhs_size r)
  | Opt j | Repeat0 _ j | Repeat1 _ j | PosLook j | NegLook j | Forced j => S (item_size j)
  | Gather _ s e => S (item_size s + item_size e)
  end
with rhs_size (r : rhs) : nat :=
  match r with Rhs _ alts =>
    S ((fix go (l : list alt) : nat := match l with [] => 0 | a :: l' => alt_size a + go l' end) alts)
  end
with alt_size (a : alt) : nat :=
  match a with Alt items _ =>
    S ((fix go (l : list nitem) : nat := match l with [] => 0 | n :: l' => nitem_size n + go l' end) items)
  end
with nitem_size (n : nitem) : nat :=
  match n with NItem _ _ _ i => S (item_size i) end.
