(* Induction principle for the nested grammar AST (item / rhs / alt / nitem). *)
From Coq Require Import List String NArith.
From Pegen Require Import Grammar.Ast.
Import ListNotations.

Section Ind.
Variables (Pi : item -> Prop) (Pr : rhs -> Prop) (Pa : alt -> Prop) (Pn : nitem -> Prop).
Hypothesis HName : forall n, Pi (NameLeaf n).
Hypothesis HStr : forall s, Pi (StringLeaf s).
Hypothesis HGroup : forall r, Pr r -> Pi (Group r).
Hypothesis HOpt : forall i, Pi i -> Pi (Opt i).
Hypothesis HRep0 : forall id i, Pi i -> Pi (Repeat0 id i).
Hypothesis HRep1 : forall id i, Pi i -> Pi (Repeat1 id i).
Hypothesis HGather : forall id s e, Pi s -> Pi e -> Pi (Gather id s e).
Hypothesis HPos : forall i, Pi i -> Pi (PosLook i).
Hypothesis HNeg : forall i, Pi i -> Pi (NegLook i).
Hypothesis HForced : forall i, Pi i -> Pi (Forced i).
Hypothesis HCut : Pi Cut.
Hypothesis HRhsItem : forall r, Pr r -> Pi (RhsItem r).
Hypothesis HRhs : forall id alts, Forall Pa alts -> Pr (Rhs id alts).
Hypothesis HAlt : forall items act, Forall Pn items -> Pa (Alt items act).
Hypothesis HNItem : forall id name ty i, Pi i -> Pn (NItem id name ty i).

Fixpoint item_rect' (i : item) : Pi i :=
  match i with
  | NameLeaf n => HName n
  | StringLeaf s => HStr s
  | Group r => HGroup r (rhs_rect' r)
  | Opt j => HOpt j (item_rect' j)
  | Repeat0 id j => HRep0 id j (item_rect' j)
  | Repeat1 id j => HRep1 id j (item_rect' j)
  | Gather id s e => HGather id s e (item_rect' s) (item_rect' e)
  | PosLook j => HPos j (item_rect' j)
  | NegLook j => HNeg j (item_rect' j)
  | Forced j => HForced j (item_rect' j)
  | Cut => HCut
  | RhsItem r => HRhsItem r (rhs_rect' r)
  end
with rhs_rect' (r : rhs) : Pr r :=
  match r with
  | Rhs id alts =>
      HRhs id alts ((fix go (l : list alt) : Forall Pa l :=
                       match l with
                       | [] => Forall_nil _
                       | a :: l' => Forall_cons a (alt_rect' a) (go l')
                       end) alts)
  end
with alt_rect' (a : alt) : Pa a :=
  match a with
  | Alt items act =>
      HAlt items act ((fix go (l : list nitem) : Forall Pn l :=
                         match l with
                         | [] => Forall_nil _
                         | n :: l' => Forall_cons n (nitem_rect' n) (go l')
                         end) items)
  end
with nitem_rect' (n : nitem) : Pn n :=
  match n with NItem id name ty i => HNItem id name ty i (item_rect' i) end.

Lemma grammar_ast_ind : (forall i, Pi i) /\ (forall r, Pr r) /\ (forall a, Pa a) /\ (forall n, Pn n).
Proof. repeat split; [exact item_rect' | exact rhs_rect' | exact alt_rect' | exact nitem_rect']. Qed.
End Ind.
