(* Model of every __str__ in src/pegen/grammar.py, for both settings of the global SIMPLE_STR. *)
From Coq Require Import List String Ascii NArith Bool.
From Pegen Require Import Base.StrUtil Grammar.Ast.
Import ListNotations.
Open Scope string_scope.

Section Printer.
Variable simple : bool.     (* grammar.SIMPLE_STR *)

Fixpoint item_str (i : item) : string :=
  match i with
  | NameLeaf n => n
  | StringLeaf raw => raw
  | Group r => "(" ++ rhs_str r ++ ")"
  | Opt j => let s := item_str j in
             (* X? is only used when X is an atom: isinstance(node, (Leaf, Group)) *)
             if has_space s || negb (match j with NameLeaf _ | StringLeaf _ | Group _ => true | _ => false end)
             then "[" ++ s ++ "]" else s ++ "?"
  | Repeat0 _ j => let s := item_str j in if has_space s then "(" ++ s ++ ")*" else s ++ "*"
  | Repeat1 _ j => let s := item_str j in if has_space s then "(" ++ s ++ ")+" else s ++ "+"
  | Gather _ s e => item_str s ++ "." ++ item_str e ++ "+"
  | PosLook j => "&" ++ item_str j
  | NegLook j => "!" ++ item_str j
  | Forced j => "&&" ++ item_str j
  | Cut => "~"
  | RhsItem r => rhs_str r
  end
with rhs_str (r : rhs) : string :=
  match r with Rhs _ alts =>
    join " | " ((fix go (l : list alt) : list string :=
                   match l with [] => [] | a :: l' => alt_str a :: go l' end) alts)
  end
with alt_str (a : alt) : string :=
  match a with Alt items act =>
    let core := join " " ((fix go (l : list nitem) : list string :=
                             match l with [] => [] | n :: l' => nitem_str n :: go l' end) items) in
    match act with
    | Some ac => if negb simple && negb (String.eqb (atext ac) "")
                 then core ++ " { " ++ atext ac ++ " }" else core
    | None => core
    end
  end
with nitem_str (n : nitem) : string :=
  match n with NItem _ name ty i =>
    match name with
    | Some x => if negb simple && negb (String.eqb x "")
                then match ty with
                     | Some t => x ++ "[" ++ t ++ "]=" ++ item_str i
                     | None => x ++ "=" ++ item_str i
                     end
                else item_str i
    | None => item_str i
    end
  end.

Definition rule_str (r : rule) : string :=
  let head := if simple then rname r
              else (match rtype r with Some t => rname r ++ "[" ++ t ++ "]" | None => rname r end)
                   ++ (if rmemo r then " (memo)" else "") in
  let res := head ++ ": " ++ rhs_str (rrhs r) in
  if Nat.ltb (String.length res) 88 then res
  else join (String (ascii_of_nat 10) "")
         ((before_char ":"%char res ++ ":") ::
          map (fun a => "    | " ++ alt_str a) (rhs_alts (rrhs r))).

Definition grammar_str (g : grammar) : string :=
  join (String (ascii_of_nat 10) "") (map rule_str (rules g)).

End Printer.
