(* Model of src/pegen/python_generator.py: PythonCallMakerVisitor and PythonParserGenerator
   (generate / visit_Rule / visit_Rhs / visit_Alt / visit_NamedItem / print_action), and of the
   helper-rule constructors of parser_generator.py.  Output: an IR module (Gen/Ir) which
   Gen/Render.v prints to exactly the lines the real generator writes. *)
From Coq Require Import List String Ascii NArith Bool Arith.
From Pegen Require Import Base.StrUtil Grammar.Ast Grammar.Printer Analysis.Visitor Analysis.Nullable.
Import ListNotations.
Open Scope string_scope.

(* ---------------- IR ---------------- *)
Inductive call :=
| CMeth (n : string)                       (* self.n() *)
| CExpect (arg : string)                   (* self.expect(arg)   -- arg: Python source of the argument *)
| CComma (c : call)                        (* c,                 -- trailing comma: a 1-tuple *)
| CLook (positive : bool) (head tail : string) (c : call)
                                           (* self.positive_lookahead(head, tail) / negative_ *)
| CTrue                                    (* True  (cut) *)
| CForced (c : call) (msg : string).       (* self.expect_forced(c, msg) -- msg: Python source *)

Record conj := { cj_var : option string; cj_call : call; cj_notnone : bool }.

Record ialt := {
  a_has_cut : bool;
  a_guard : bool;                          (* first conjunct: self.call_invalid_rules *)
  a_conjs : list conj;
  a_locations : bool;                      (* tok = ...get_last_non_whitespace_token(); end_lineno, ... *)
  a_action : string;                       (* the expression returned / appended *)
  a_names : list string;                   (* local variable names bound, in order (for the interpreter) *)
  a_explicit : bool;                       (* the action was written in the grammar (or is the UNREACHABLE filler) *)
  a_unreachable : bool                     (* the action text contained the magic name UNREACHABLE *)
}.

Inductive deco := DMemo | DMemoLeftRec | DLogger.

Record meth := {
  m_name : string;
  m_deco : deco;
  m_type : string;
  m_comment : string;                      (* "# name: rhs" *)
  m_nullable : bool;
  m_without_invalid : bool;
  m_locations : bool;                      (* tok = self._tokenizer.peek(); start_lineno, ... *)
  m_loop : bool;
  m_gather : bool;
  m_alts : list ialt
}.

Record ir_module := {
  i_header : option string;                (* already formatted *)
  i_subheader : string;
  i_class : string;
  i_meths : list meth;
  i_keywords : list string;                (* sorted *)
  i_soft_keywords : list string;
  i_trailer : option string
}.

Inductive gen_error := EAssertion | EValueError | EActionSyntax (a : string) | EFuel.

(* ---------------- rendering of calls (needed by the generator itself: lookahead splitting) ------ *)
Fixpoint render_call (c : call) : string :=
  match c with
  | CMeth n => "self." ++ n ++ "()"
  | CExpect a => "self.expect(" ++ a ++ ")"
  | CComma c' => render_call c' ++ ","
  | CLook pos head tail _ =>
      (if pos then "self.positive_lookahead(" else "self.negative_lookahead(") ++ head ++ ", " ++ tail ++ ")"
  | CTrue => "True"
  | CForced c' msg => "self.expect_forced(" ++ render_call c' ++ ", " ++ msg ++ ")"
  end.

(* ---------------- generator state ---------------- *)
Record gst := {
  g_counter : nat;                                   (* ParserGenerator.counter *)
  g_todo : list rule;                                (* self.todo, insertion order *)
  g_cache : list (N * (option string * call));       (* callmakervisitor.cache, by node identity *)
  g_keywords : list string;
  g_soft : list string;
  g_fresh : N;                                       (* identities for nodes created by the generator *)
  g_locals : list string                             (* self.local_variable_names of the current alternative *)
}.

Definition GM (A : Type) := gst -> (A + gen_error) * gst.
Definition gret {A} (x : A) : GM A := fun st => (inl x, st).
Definition gfail {A} (e : gen_error) : GM A := fun st => (inr e, st).
Definition gbind {A B} (m : GM A) (k : A -> GM B) : GM B :=
  fun st => match m st with (inl x, st') => k x st' | (inr e, st') => (inr e, st') end.
Notation "x <- m ;; k" := (gbind m (fun x => k)) (at level 100, m at next level, right associativity).

Fixpoint assocN {A} (k : N) (l : list (N * A)) : option A :=
  match l with [] => None | (k', v) :: l' => if N.eqb k k' then Some v else assocN k l' end.

Definition lower (s : string) : string :=
  (fix go (s : string) := match s with
     | EmptyString => EmptyString
     | String c s' => let n := N_of_ascii c in
                      String (if N.leb 65 n && N.leb n 90 then ascii_of_N (n + 32) else c) (go s')
     end) s.

Definition TOKS1 := ["NAME"; "NUMBER"; "STRING"; "FSTRING_START"; "FSTRING_MIDDLE"; "FSTRING_END"; "OP"; "TYPE_COMMENT"].
Definition TOKS2 := ["NEWLINE"; "DEDENT"; "INDENT"; "ENDMARKER"; "ASYNC"; "AWAIT"].

Definition fresh_id : GM N :=
  fun st => (inl (g_fresh st),
             {| g_counter := g_counter st; g_todo := g_todo st; g_cache := g_cache st; g_keywords := g_keywords st;
                g_soft := g_soft st; g_fresh := N.succ (g_fresh st); g_locals := g_locals st |}).
Definition next_counter : GM nat :=
  fun st => (inl (S (g_counter st)),
             {| g_counter := S (g_counter st); g_todo := g_todo st; g_cache := g_cache st; g_keywords := g_keywords st;
                g_soft := g_soft st; g_fresh := g_fresh st; g_locals := g_locals st |}).
Definition add_todo (r : rule) : GM unit :=
  fun st => (inl tt,
             {| g_counter := g_counter st; g_todo := (g_todo st ++ [r])%list; g_cache := g_cache st;
                g_keywords := g_keywords st; g_soft := g_soft st; g_fresh := g_fresh st; g_locals := g_locals st |}).
Definition cache_get (k : N) : GM (option (option string * call)) := fun st => (inl (assocN k (g_cache st)), st).
Definition cache_put (k : N) (v : option string * call) : GM unit :=
  fun st => (inl tt,
             {| g_counter := g_counter st; g_todo := g_todo st; g_cache := (k, v) :: g_cache st;
                g_keywords := g_keywords st; g_soft := g_soft st; g_fresh := g_fresh st; g_locals := g_locals st |}).
Definition add_keyword (hard : bool) (w : string) : GM unit :=
  fun st => (inl tt,
             {| g_counter := g_counter st; g_todo := g_todo st; g_cache := g_cache st;
                g_keywords := if hard then w :: g_keywords st else g_keywords st;
                g_soft := if hard then g_soft st else w :: g_soft st; g_fresh := g_fresh st; g_locals := g_locals st |}).
Definition set_locals (l : list string) : GM unit :=
  fun st => (inl tt,
             {| g_counter := g_counter st; g_todo := g_todo st; g_cache := g_cache st; g_keywords := g_keywords st;
                g_soft := g_soft st; g_fresh := g_fresh st; g_locals := l |}).
Definition get_locals : GM (list string) := fun st => (inl (g_locals st), st).

Definition mk_rule (name : string) (r : rhs) : rule := {| rname := name; rtype := None; rrhs := r; rmemo := false |}.

(* call.split("(", 1); assert tail[-1] == ")"; tail = tail[:-1] *)
Definition split_call (s : string) : (string * string) + gen_error :=
  match after_char "("%char s with
  | None => inr EValueError                         (* not enough values to unpack *)
  | Some tail =>
      match last_char tail with
      | Some c => if Ascii.eqb c ")"%char
                  then inl (before_char "("%char s, rev_string (match rev_string tail with String _ r => r | EmptyString => EmptyString end))
                  else inr EAssertion
      | None => inr EAssertion                      (* tail[-1] on an empty string: IndexError; not reachable *)
      end
  end.

(* ---------------- PythonCallMakerVisitor ---------------- *)
Fixpoint cm_item (fuel : nat) (i : item) : GM (option string * call) :=
  match fuel with
  | O => gfail EFuel
  | S f =>
  match i with
  | NameLeaf n =>
      if String.eqb n "SOFT_KEYWORD" then gret (Some "soft_keyword", CMeth "soft_keyword")
      else if mem_str n TOKS1 then gret (Some (lower n), CMeth (lower n))
      else if mem_str n TOKS2 then gret (Some ("_" ++ lower n), CExpect (py_repr n))
      else gret (Some n, CMeth n)
  | StringLeaf raw =>
      let val := strip_quotes raw in
      _ <- (if is_identifier val then add_keyword (endswith "'" raw) val else gret tt) ;;
      gret (Some "literal", CExpect raw)
  | Group r => cm_rhs f r
  | RhsItem r => cm_rhs f r
  | PosLook j | NegLook j =>
      nc <- cm_item f j ;;
      match split_call (render_call (snd nc)) with
      | inl (head, tail) => gret (None, CLook (match i with PosLook _ => true | _ => false end) head tail (snd nc))
      | inr e => gfail e
      end
  | Opt j =>
      nc <- cm_item f j ;;
      if endswith "," (render_call (snd nc)) then gret (Some "opt", snd nc) else gret (Some "opt", CComma (snd nc))
  | Repeat0 id j | Repeat1 id j =>
      c <- cache_get id ;;
      match c with
      | Some v => gret v
      | None =>
          let is1 := match i with Repeat1 _ _ => true | _ => false end in
          k <- next_counter ;;
          let name := (if is1 then "_loop1_" else "_loop0_") ++ nat_to_string k in
          i1 <- fresh_id ;; i2 <- fresh_id ;;
          _ <- add_todo (mk_rule name (Rhs i1 [Alt [NItem i2 None None j] None])) ;;
          let v := (Some name, if is1 then CMeth name else CComma (CMeth name)) in
          _ <- cache_put id v ;; gret v
      end
  | Gather id s e =>
      c <- cache_get id ;;
      match c with
      | Some v => gret v
      | None =>
          k <- next_counter ;;
          let name := "_gather_" ++ nat_to_string k in
          k2 <- next_counter ;;
          let extra := "_loop0_" ++ nat_to_string k2 in
          i1 <- fresh_id ;; i2 <- fresh_id ;; i3 <- fresh_id ;; i4 <- fresh_id ;; i5 <- fresh_id ;; i6 <- fresh_id ;;
          _ <- add_todo (mk_rule extra (Rhs i1 [Alt [NItem i2 None None s; NItem i3 (Some "elem") None e]
                                                   (Some {| atext := "elem"; aused := ["elem"]; aparses := true |})])) ;;
          _ <- add_todo (mk_rule name (Rhs i4 [Alt [NItem i5 (Some "elem") None e; NItem i6 (Some "seq") None (NameLeaf extra)] None])) ;;
          let v := (Some name, CMeth name) in
          _ <- cache_put id v ;; gret v
      end
  | Cut => gret (Some "cut", CTrue)
  | Forced j =>
      match j with
      | Group r =>
          nc <- cm_rhs f r ;;
          (* a call with a trailing comma is an item that always succeeds: nothing to force *)
          match snd nc with
          | CComma c => gret (Some "forced", CComma c)
          | c => gret (Some "forced", CForced c ("'''(" ++ rhs_str true r ++ ")'''"))
          end
      | NameLeaf v | StringLeaf v =>
          nc <- cm_item f j ;;
          gret (Some "forced", CForced (snd nc) (py_repr v))
      | _ => gfail EAssertion          (* node.node.value on a non-leaf: AttributeError; not producible by the reader *)
      end
  end
  end
with cm_rhs (fuel : nat) (r : rhs) : GM (option string * call) :=
  match fuel with
  | O => gfail EFuel
  | S f =>
  match r with Rhs id alts =>
    c <- cache_get id ;;
    match c with
    | Some v => gret v
    | None =>
        v <- match alts with
             | [Alt [NItem _ name _ it] None] =>
                 (* visit(node.alts[0].items[0]) -> visit_NamedItem *)
                 nc <- cm_item f it ;;
                 gret (match name with Some x => if String.eqb x "" then fst nc else Some x | None => fst nc end, snd nc)
             | _ =>
                 k <- next_counter ;;
                 let name := "_tmp_" ++ nat_to_string k in
                 _ <- add_todo (mk_rule name r) ;;
                 gret (Some name, CMeth name)
             end ;;
        _ <- cache_put id v ;; gret v
    end
  end
  end.

(* ---------------- PythonParserGenerator ---------------- *)
Definition LOCATION_FORMATTING :=
  "lineno=start_lineno, col_offset=start_col_offset, end_lineno=end_lineno, end_col_offset=end_col_offset".
Definition UNREACHABLE_FORMATTING := "None  # pragma: no cover".

Section Emit.
Variable invalid_tbl : list (string * bexp).          (* extracted: InvalidNodeVisitor *)
Variable iter_fields : list (string * list string).
Variable rs0 : list rule.                             (* grammar.rules *)
Variable nullable_rules left_rec leaders : list string.
Variable item_flag : N -> bool.                       (* NamedItem.nullable (false for generator-made items) *)

Definition has_invalid_alt (a : alt) : bool :=
  fst (v_alt unit invalid_tbl iter_fields (fun _ m => m) (fun _ => ret unit false) a tt).

Definition is_cut_item (i : item) : bool := match i with Cut => true | _ => false end.

(* alts_uses_locations *)
Fixpoint uses_loc_item (i : item) : bool :=
  match i with Group r => uses_loc_rhs r | _ => false end
with uses_loc_rhs (r : rhs) : bool :=
  match r with Rhs _ alts =>
    (fix go (l : list alt) := match l with [] => false | a :: l' => uses_loc_alt a || go l' end) alts end
with uses_loc_alt (a : alt) : bool :=
  match a with Alt items act =>
    (match act with Some ac => contains "LOCATIONS" (atext ac) | None => false end) ||
    (fix go (l : list nitem) := match l with [] => false | n :: l' => (match n with NItem _ _ _ i => uses_loc_item i end) || go l' end) items
  end.

Definition is_loop_name (n : string) := startswith "_loop" n.
Definition is_loop1_name (n : string) := startswith "_loop1" n.
Definition is_gather_name (n : string) := startswith "_gather" n.

(* Rule.flatten *)
Definition flatten (r : rule) : rhs :=
  if is_loop_name (rname r) then rrhs r
  else match rrhs r with
       | Rhs _ [Alt [NItem _ _ _ (Group g)] None] => g
       | other => other
       end.

(* dedupe *)
Fixpoint dedupe_loop (fuel : nat) (orig : string) (counter : nat) (name : string) (locals : list string) : string :=
  match fuel with
  | O => name
  | S f => if mem_str name locals then dedupe_loop f orig (S counter) (orig ++ "_" ++ nat_to_string (S counter)) locals
           else name
  end.
Definition dedupe (name : string) : GM string :=
  l <- get_locals ;;
  let n := dedupe_loop (S (List.length l)) name 0 name l in
  _ <- set_locals (l ++ [n])%list ;; gret n.

(* visit_NamedItem *)
Definition emit_item (n : nitem) (used : option (list string)) (unreachable is_gather : bool) : GM conj :=
  nc <- cm_item (S (nitem_size n)) (ni_item n) ;;
  let name0 := if unreachable then None
               else match ni_name n with
                    | Some x => if String.eqb x "" then fst nc else Some x
                    | None => fst nc
                    end in
  let name1 := match used, name0 with
               | Some u, Some x => if mem_str x u then Some x else None
               | _, _ => name0
               end in
  match name1 with
  | None => gret {| cj_var := None; cj_call := snd nc; cj_notnone := is_gather |}
  | Some x => if String.eqb x "" then gret {| cj_var := None; cj_call := snd nc; cj_notnone := is_gather |}
              else if String.eqb x "cut" then gret {| cj_var := Some "cut"; cj_call := snd nc; cj_notnone := is_gather |}
              else x' <- dedupe x ;; gret {| cj_var := Some x'; cj_call := snd nc; cj_notnone := is_gather |}
  end.

Fixpoint emit_items (l : list nitem) (used : option (list string)) (unreachable is_gather : bool) : GM (list conj) :=
  match l with
  | [] => gret []
  | n :: l' => c <- emit_item n used unreachable is_gather ;; cs <- emit_items l' used unreachable is_gather ;; gret (c :: cs)
  end.

(* visit_Alt + print_action *)
Definition emit_alt (a : alt) (is_loop is_gather : bool) : GM ialt :=
  let items := alt_items a in
  let has_cut := existsb (fun n => is_cut_item (ni_item n)) items in
  let has_invalid := has_invalid_alt a in
  let action0 : option action :=
    match alt_action a with
    | Some ac => if String.eqb (atext ac) "" then None else Some ac
    | None => None
    end in
  let action1 : option action :=
    match action0 with
    | Some ac => Some ac
    | None => if negb is_gather && has_invalid
              then Some {| atext := "UNREACHABLE"; aused := []; aparses := true |} else None
    end in
  _ <- (match action1 with
        | Some ac => if aparses ac then gret tt else gfail (EActionSyntax (atext ac))
        | None => gret tt
        end) ;;
  let locations := match action1 with Some ac => contains "LOCATIONS" (atext ac) | None => false end in
  let unreachable := match action1 with Some ac => contains "UNREACHABLE" (atext ac) | None => false end in
  let text1 := match action1 with
               | Some ac => Some (str_replace "UNREACHABLE" UNREACHABLE_FORMATTING
                                   (str_replace "LOCATIONS" LOCATION_FORMATTING (atext ac)))
               | None => None
               end in
  let used := match action1 with
              | Some ac => Some (if has_cut then "cut" :: aused ac else aused ac)
              | None => None
              end in
  _ <- set_locals [] ;;
  conjs <- emit_items items used unreachable is_gather ;;
  locals <- get_locals ;;
  final <- match text1 with
           | Some t => gret t
           | None =>
               if is_gather
               then match locals with
                    | [x; y] => gret ("[" ++ x ++ "] + " ++ y)
                    | _ => gfail EAssertion
                    end
               else if has_invalid then gfail EAssertion
               else match locals with
                    | [x] => gret x
                    | _ => gret ("[" ++ join ", " locals ++ "]")
                    end
           end ;;
  gret {| a_has_cut := has_cut; a_guard := has_invalid; a_conjs := conjs; a_locations := locations;
          a_action := final; a_names := locals;
          a_explicit := match action1 with Some _ => true | None => false end;
          a_unreachable := unreachable |}.

Fixpoint emit_alts (l : list alt) (is_loop is_gather : bool) : GM (list ialt) :=
  match l with
  | [] => gret []
  | a :: l' => x <- emit_alt a is_loop is_gather ;; xs <- emit_alts l' is_loop is_gather ;; gret (x :: xs)
  end.

Definition is_original (r : rule) : bool := negb (startswith "_" (rname r)).

(* rhs.initial_names() of the (flattened) body *)
Definition starts_with_left_rec (r : rhs) : bool :=
  existsb (fun n => existsb (fun r0 => String.eqb (rname r0) n) rs0 && mem_str n left_rec) (in_rhs item_flag r).

(* visit_Rule *)
Definition emit_rule (r : rule) : GM meth :=
  let name := rname r in
  let is_loop := is_loop_name name in
  let is_gather := is_gather_name name in
  let body := flatten r in
  let orig := is_original r in
  let d := if orig && mem_str name left_rec then (if mem_str name leaders then DMemoLeftRec else DLogger)
           else if startswith "_" name && starts_with_left_rec body then DLogger
           else DMemo in
  _ <- (if is_loop then match rhs_alts body with [_] => gret tt | _ => gfail EAssertion end else gret tt) ;;
  alts <- emit_alts (rhs_alts body) is_loop is_gather ;;
  gret {| m_name := name; m_deco := d;
          m_type := match rtype r with Some t => if String.eqb t "" then "Any" else t | None => "Any" end;
          m_comment := "# " ++ name ++ ": " ++ rhs_str true body;
          m_nullable := orig && mem_str name nullable_rules;
          m_without_invalid := endswith "without_invalid" name;
          m_locations := uses_loc_rhs (rrhs r);
          m_loop := is_loop; m_gather := is_gather; m_alts := alts |}.

(* while self.todo: for rulename, rule in list(self.todo.items()): del self.todo[rulename]; visit(rule) *)
Definition pop_todo : GM (option rule) :=
  fun st => match g_todo st with
            | [] => (inl None, st)
            | r :: rest => (inl (Some r),
                            {| g_counter := g_counter st; g_todo := rest; g_cache := g_cache st; g_keywords := g_keywords st;
                               g_soft := g_soft st; g_fresh := g_fresh st; g_locals := g_locals st |})
            end.
Fixpoint emit_all (fuel : nat) : GM (list meth) :=
  match fuel with
  | O => gfail EFuel
  | S f => r <- pop_todo ;;
           match r with
           | None => gret []
           | Some r => m <- emit_rule r ;; ms <- emit_all f ;; gret (m :: ms)
           end
  end.
End Emit.

(* total size of a grammar: bounds the number of methods *)
Definition grammar_size (rs : list rule) : nat := fold_right (fun r acc => S (rhs_size (rrhs r)) + acc) 0 rs.

Definition meta_or (g : grammar) (k : string) (default : option string) : option string :=
  match lookup_meta (metas g) k with Some v => v | None => default end.

Definition generate (invalid_tbl : list (string * bexp)) (iter_fields : list (string * list string))
  (module_prefix module_suffix : string) (filename : string) (fresh_base : N)
  (g : grammar) (an : analysis) : ir_module + gen_error :=
  let st0 := {| g_counter := 0; g_todo := rules g; g_cache := []; g_keywords := []; g_soft := [];
                g_fresh := fresh_base; g_locals := [] |} in
  match emit_all invalid_tbl iter_fields (rules g) (a_nullable an) (a_left_rec an) (a_leaders an)
                 (fun k => memN k (a_item_nullable an)) (S (2 * grammar_size (rules g))) st0 with
  | (inr e, _) => inr e
  | (inl ms, st) =>
      let cls := match meta_or g "class" (Some "GeneratedParser") with Some c => c | None => "GeneratedParser" end in
      inl {| i_header := match meta_or g "header" (Some module_prefix) with
                         | Some h => Some (str_replace "{filename}" filename (rstrip_nl h))
                         | None => None end;
             i_subheader := match meta_or g "subheader" (Some "") with Some s => s | None => "" end;
             i_class := cls;
             i_meths := ms;
             i_keywords := sort_set (g_keywords st);
             i_soft_keywords := sort_set (g_soft st);
             i_trailer := match meta_or g "trailer" (Some (str_replace "{class_name}" cls module_suffix)) with
                          | Some t => Some (rstrip_nl t)
                          | None => None end |}
  end.
