(* Prints an IR module to exactly the text PythonParserGenerator.generate() writes. *)
From Coq Require Import List String Ascii NArith Bool Arith.
From Pegen Require Import Base.StrUtil Gen.Gen.
Import ListNotations.
Open Scope string_scope.

Fixpoint indent (n : nat) : string := match n with O => "" | S k => "    " ++ indent k end.
Definition ln (level : nat) (s : string) : string := indent level ++ s.

Definition cleanup (m : meth) (level : nat) : list string :=
  if m_without_invalid m then [ln level "self.call_invalid_rules = _prev_call_invalid"] else [].
Definition add_return (m : meth) (level : nat) (v : string) : list string :=
  (cleanup m level ++ [ln level ("return " ++ v ++ ";")])%list.

Definition render_conj (c : conj) : list string :=
  ((match cj_var c with
    | Some x => [ln 3 ("(" ++ x ++ " := " ++ render_call (cj_call c) ++ ")")]
    | None => [ln 3 ("(" ++ render_call (cj_call c) ++ ")")]
    end) ++ (if cj_notnone c then [ln 3 "is not None"] else []))%list.

Fixpoint render_conjs (first : bool) (cs : list conj) : list string :=
  match cs with
  | [] => []
  | c :: cs' => ((if first then [] else [ln 3 "and"]) ++ render_conj c ++ render_conjs false cs')%list
  end.

Definition render_alt (m : meth) (a : ialt) : list string :=
  ((if a_has_cut a then [ln 2 "cut = False"] else []) ++
   [ln 2 (if m_loop m then "while (" else "if (")] ++
   (if a_guard a then [ln 3 "self.call_invalid_rules"] else []) ++
   render_conjs (negb (a_guard a)) (a_conjs a) ++
   [ln 2 "):"] ++
   (if a_locations a then [ln 3 "tok = self._tokenizer.get_last_non_whitespace_token()";
                           ln 3 "end_lineno, end_col_offset = tok.end"] else []) ++
   (if m_loop m then (if a_unreachable a          (* the replacement of UNREACHABLE may end in a comment *)
                      then [ln 3 "children.append("; ln 4 (a_action a); ln 3 ")"]
                      else [ln 3 ("children.append(" ++ a_action a ++ ")")]) ++ [ln 3 "mark = self._mark()"]
    else add_return m 3 (a_action a)) ++
   [ln 2 "self._reset(mark)"] ++
   (if a_has_cut a then ln 2 "if cut:" :: add_return m 3 "None" else []))%list.

Definition deco_line (d : deco) : string :=
  match d with DMemo => "@memoize" | DMemoLeftRec => "@memoize_left_rec" | DLogger => "@logger" end.

Definition render_meth (m : meth) : list string :=
  ([""; ln 1 (deco_line (m_deco m));
    ln 1 ("def " ++ m_name m ++ "(self) -> Optional[" ++ m_type m ++ "]:");
    ln 2 (m_comment m)] ++
   (if m_nullable m then [ln 2 "# nullable=True"] else []) ++
   (if m_without_invalid m then [ln 2 "_prev_call_invalid = self.call_invalid_rules";
                                 ln 2 "self.call_invalid_rules = False"] else []) ++
   [ln 2 "mark = self._mark()"] ++
   (if m_locations m then [ln 2 "tok = self._tokenizer.peek()"; ln 2 "start_lineno, start_col_offset = tok.start"] else []) ++
   (if m_loop m then [ln 2 "children = []"] else []) ++
   flat_map (render_alt m) (m_alts m) ++
   add_return m 2 (if m_loop m then (if is_loop1_name (m_name m) then "children or None" else "children") else "None"))%list.

(* repr(tuple(sorted(...))) *)
Definition py_tuple (l : list string) : string :=
  match l with
  | [] => "()"
  | [x] => "(" ++ py_repr x ++ ",)"
  | _ => "(" ++ join ", " (map py_repr l) ++ ")"
  end.

Definition render_lines (m : ir_module) : list string :=
  ((match i_header m with Some h => [h] | None => [] end) ++
   (if String.eqb (i_subheader m) "" then [] else [i_subheader m]) ++
   ["# Keywords and soft keywords are listed at the end of the parser definition.";
    ("class " ++ i_class m ++ "(Parser):")%string] ++
   flat_map render_meth (i_meths m) ++
   [""; ln 1 ("KEYWORDS = " ++ py_tuple (i_keywords m)); ln 1 ("SOFT_KEYWORDS = " ++ py_tuple (i_soft_keywords m))] ++
   (match i_trailer m with Some t => [t] | None => [] end))%list.

Definition render (m : ir_module) : string := join NL (render_lines m) ++ NL.
