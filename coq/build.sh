#!/bin/sh
# Full .vo build of the static theories (no -vos). Usage: coq/build.sh [make args]
cd "$(dirname "$0")" || exit 2
find theories -name '*.v' | sort > .vfiles
{ cat _CoqProject.head; cat .vfiles; } > _CoqProject
coq_makefile -f _CoqProject -o Makefile >/dev/null 2>&1 || exit 2
exec timeout 3000 make -j12 "$@"
